package props

// C22 generator, part 2: the operations.  Every op* method either returns a
// staged transaction that real validation would accept in a block on top of
// the current tip, or nil when its preconditions do not hold.  The
// preconditions are evaluated with the read accessors of the direct committee
// instance (the ones core/transaction uses); the comment on each op names the
// checks it mirrors.

import (
	"bytes"
	"fmt"
	"sort"

	"github.com/elastos/Elastos.ELA/common"
	"github.com/elastos/Elastos.ELA/core"
	common2 "github.com/elastos/Elastos.ELA/core/types/common"
	"github.com/elastos/Elastos.ELA/core/types/outputpayload"
	"github.com/elastos/Elastos.ELA/core/types/payload"
	crstate "github.com/elastos/Elastos.ELA/cr/state"

	"verif/kit/node"
)

// ---------- deterministic views of D ----------

func (w *c22World) candByCID(cid common.Uint168) *c22Actor {
	for _, a := range w.cands {
		if a.cid.IsEqual(cid) {
			return a
		}
	}
	return nil
}

func (w *c22World) candByDID(did common.Uint168) *c22Actor {
	for _, a := range w.cands {
		if a.did.IsEqual(did) {
			return a
		}
	}
	return nil
}

func (w *c22World) actorByPub(pub []byte) *c22Actor {
	for _, set := range [][]*c22Actor{w.owners, w.cands, w.sgs, w.voters} {
		for _, a := range set {
			if bytes.Equal(a.pub, pub) {
				return a
			}
		}
	}
	return nil
}

func (w *c22World) activeCands() []*crstate.Candidate {
	cs := w.D.GetCandidates(crstate.Active)
	sort.Slice(cs, func(i, j int) bool { return cs[i].Info.CID.Compare(cs[j].Info.CID) < 0 })
	return cs
}

func (w *c22World) electedMembers() []*crstate.CRMember {
	var out []*crstate.CRMember
	for _, m := range w.D.GetElectedMembers() {
		if m.MemberState == crstate.MemberElected {
			out = append(out, m)
		}
	}
	sort.Slice(out, func(i, j int) bool { return out[i].Info.DID.Compare(out[j].Info.DID) < 0 })
	return out
}

func (w *c22World) impeachable() []*crstate.CRMember {
	ms := w.D.GetImpeachableMembers()
	sort.Slice(ms, func(i, j int) bool { return ms[i].Info.DID.Compare(ms[j].Info.DID) < 0 })
	return ms
}

func (w *c22World) proposals(st crstate.ProposalStatus) []*crstate.ProposalState {
	var out []*crstate.ProposalState
	for _, p := range w.D.GetProposals(st) {
		out = append(out, p)
	}
	sort.Slice(out, func(i, j int) bool { return out[i].Proposal.Hash.Compare(out[j].Proposal.Hash) < 0 })
	return out
}

func (w *c22World) randHash() common.Uint256 {
	var b [16]byte
	for i := range b {
		b[i] = byte(w.r.Intn(256))
	}
	return common.Hash(b[:])
}

// ---------- op selection ----------

type c22Op func(h uint32) *c22Staged

func (w *c22World) pickOp(h uint32) c22Op {
	type wop struct {
		weight int
		op     c22Op
	}
	voting := w.D.IsInVotingPeriod(h)
	ops := []wop{
		{2, w.opTransfer},
		{2, w.opReturnDeposit},
		{3, w.opClaimNode},
		{10, w.opProposal},
		{8, w.opReview},
		{9, w.opTracking},
		{7, w.opWithdraw},
		{2, w.opRectify},
		{2, w.opSpendVote},
	}
	if voting {
		ops = append(ops, wop{8, w.opRegisterCR}, wop{3, w.opUpdateCR}, wop{2, w.opUnregisterCR})
	}
	if h < w.K.V2Active {
		ops = append(ops, wop{8, w.opVoteV1})
	}
	if h >= w.K.DPoSV2Start {
		ops = append(ops, wop{8, w.opVotingV2})
	}
	total := 0
	for _, o := range ops {
		total += o.weight
	}
	x := w.r.Intn(total)
	for _, o := range ops {
		if x < o.weight {
			return o.op
		}
		x -= o.weight
	}
	return nil
}

// nudges steer a history towards elected committees and passing proposals
// (only when K.Nudge): missing registrations, votes for unvoted candidates,
// node claims, reviews.
func (w *c22World) nudges(h uint32) []*c22Staged {
	var out []*c22Staged
	add := func(s *c22Staged) {
		if s != nil {
			for _, u := range s.spent {
				u.spent = true
			}
			// mark immediately so that the next nudge does not reuse the inputs;
			// accept() marks again, harmlessly.
			out = append(out, s)
		}
	}
	if w.D.IsInVotingPeriod(h) {
		reg := 0
		for _, a := range w.cands {
			if c := w.D.GetCandidate(a.cid); c != nil && (c.State == crstate.Pending || c.State == crstate.Active) {
				reg++
			}
		}
		if reg < int(w.K.MemberCount)+1 && w.r.Intn(2) == 0 {
			add(w.opRegisterCR(h))
		}
		unvoted := 0
		for _, c := range w.activeCands() {
			if c.Votes == 0 {
				unvoted++
			}
		}
		if unvoted > 0 && w.r.Intn(2) == 0 {
			if h < w.K.V2Active && (h < w.K.DPoSV2Start || w.r.Intn(2) == 0) {
				add(w.voteV1(h, true))
			} else if h >= w.K.DPoSV2Start {
				add(w.votingV2(h, true))
			}
		}
	}
	if w.r.Intn(2) == 0 {
		add(w.claimNode(h, true))
	}
	for i := 0; i < 3; i++ {
		if w.r.Intn(3) != 0 {
			add(w.review(h, true))
		}
	}
	if w.D.IsProposalAllowed(h-1) && w.r.Intn(2) == 0 {
		open := len(w.proposals(crstate.Registered)) + len(w.proposals(crstate.CRAgreed)) + len(w.proposals(crstate.VoterAgreed))
		if open < 4 {
			add(w.opProposal(h))
		}
	}
	if w.r.Intn(3) == 0 {
		add(w.opTracking(h))
	}
	if w.r.Intn(3) == 0 {
		add(w.opWithdraw(h))
	}
	return out
}

// ---------- CR candidates ----------

func (w *c22World) c22InfoVersion(h uint32) byte {
	if h >= w.K.DIDHeight && w.r.Intn(10) != 0 {
		return payload.CRInfoDIDVersion
	}
	return payload.CRInfoVersion
}

func (w *c22World) signCRInfo(a *c22Actor, info *payload.CRInfo, pver byte) {
	var data []byte
	if w.K.Sign {
		buf := new(bytes.Buffer)
		info.SerializeUnsigned(buf, pver)
		data = buf.Bytes()
	}
	info.Signature = w.sig(a, data)
}

// opRegisterCR mirrors RegisterCRTransaction: voting period, unused nickname,
// unknown CID, exactly one deposit output >= MinDepositAmount to the deposit
// address of the code; CheckDuplicateTx: one CR transaction per CID per block.
func (w *c22World) opRegisterCR(h uint32) *c22Staged {
	if !w.D.IsInVotingPeriod(h) {
		return nil
	}
	var free []*c22Actor
	for _, a := range w.cands {
		if w.D.GetCandidate(a.cid) == nil {
			free = append(free, a)
		}
	}
	if len(free) == 0 {
		return nil
	}
	a := free[w.r.Intn(len(free))]
	nick := fmt.Sprintf("%s-n%d", a.name, a.nickSeq)
	if w.D.ExistCandidateByNickname(nick) {
		return nil
	}
	if !w.take(w.slot("crcid", a.name)) {
		return nil
	}
	if w.K.Strict && !w.take(w.slot("crnick", nick)) {
		return nil
	}
	a.nickSeq++
	pver := w.c22InfoVersion(h)
	info := &payload.CRInfo{Code: a.code, CID: a.cid, NickName: nick, Url: "http://c22/" + a.name, Location: uint64(1 + w.r.Intn(200))}
	if pver == payload.CRInfoDIDVersion {
		info.DID = a.did
	}
	w.signCRInfo(a, info, pver)
	dep := common.Fixed64(crstate.MinDepositAmount)
	if w.r.Intn(4) == 0 {
		dep += common.Fixed64(1+w.r.Intn(300)) * c22ELA
	}
	ins, outs, spent, ok := w.pay(a, []*common2.Output{w.stdOut(a.deposit, dep)})
	if !ok {
		return nil
	}
	tx := w.mkTx(common2.TxVersion09, common2.RegisterCR, pver, info, ins, outs, []*c22Actor{a})
	return &c22Staged{tx: tx, spent: spent, kind: "registerCR", desc: fmt.Sprintf("registerCR %s nick=%s ver=%d deposit=%s", a.name, nick, pver, dep)}
}

func (w *c22World) liveCandidate(h uint32) (*c22Actor, *crstate.Candidate) {
	var as []*c22Actor
	for _, a := range w.cands {
		if c := w.D.GetCandidate(a.cid); c != nil && (c.State == crstate.Pending || c.State == crstate.Active) {
			as = append(as, a)
		}
	}
	if len(as) == 0 {
		return nil, nil
	}
	a := as[w.r.Intn(len(as))]
	return a, w.D.GetCandidate(a.cid)
}

// opUpdateCR mirrors UpdateCRTransaction: voting period, candidate Pending or
// Active, new nickname unused.
func (w *c22World) opUpdateCR(h uint32) *c22Staged {
	if !w.D.IsInVotingPeriod(h) {
		return nil
	}
	a, c := w.liveCandidate(h)
	if a == nil {
		return nil
	}
	nick := c.Info.NickName
	if w.r.Intn(2) == 0 {
		nick = fmt.Sprintf("%s-n%d", a.name, a.nickSeq)
		if w.D.ExistCandidateByNickname(nick) {
			return nil
		}
	}
	if !w.take(w.slot("crcid", a.name)) {
		return nil
	}
	if w.K.Strict && !w.take(w.slot("crnick", nick)) {
		return nil
	}
	if nick != c.Info.NickName {
		a.nickSeq++
	}
	pver := w.c22InfoVersion(h)
	info := &payload.CRInfo{Code: a.code, CID: a.cid, NickName: nick, Url: fmt.Sprintf("http://c22/%s/%d", a.name, h), Location: uint64(1 + w.r.Intn(200))}
	if pver == payload.CRInfoDIDVersion {
		info.DID = a.did
	}
	w.signCRInfo(a, info, pver)
	ins, outs, spent, ok := w.pay(a, nil)
	if !ok {
		return nil
	}
	tx := w.mkTx(common2.TxVersion09, common2.UpdateCR, pver, info, ins, outs, []*c22Actor{a})
	return &c22Staged{tx: tx, spent: spent, kind: "updateCR", desc: fmt.Sprintf("updateCR %s nick=%s ver=%d", a.name, nick, pver)}
}

// opUnregisterCR mirrors UnregisterCRTransaction.
func (w *c22World) opUnregisterCR(h uint32) *c22Staged {
	if !w.D.IsInVotingPeriod(h) {
		return nil
	}
	a, _ := w.liveCandidate(h)
	if a == nil {
		return nil
	}
	if !w.take(w.slot("crcid", a.name)) {
		return nil
	}
	pl := &payload.UnregisterCR{CID: a.cid}
	var data []byte
	if w.K.Sign {
		buf := new(bytes.Buffer)
		pl.SerializeUnsigned(buf, payload.UnregisterCRVersion)
		data = buf.Bytes()
	}
	pl.Signature = w.sig(a, data)
	ins, outs, spent, ok := w.pay(a, nil)
	if !ok {
		return nil
	}
	tx := w.mkTx(common2.TxVersion09, common2.UnregisterCR, payload.UnregisterCRVersion, pl, ins, outs, []*c22Actor{a})
	return &c22Staged{tx: tx, spent: spent, kind: "unregisterCR", desc: "unregisterCR " + a.name}
}

// opReturnDeposit mirrors ReturnCRDepositCoinTransaction: inputs only from the
// signer's deposit address, inputs-change <= available, other outputs < available.
func (w *c22World) opReturnDeposit(h uint32) *c22Staged {
	var as []*c22Actor
	for _, a := range w.cands {
		if w.D.Exist(a.cid) && w.D.GetAvailableDepositAmount(a.cid) > 2*c22Fee && len(w.list(a.deposit).live()) > 0 {
			as = append(as, a)
		}
	}
	if len(as) == 0 {
		return nil
	}
	a := as[w.r.Intn(len(as))]
	if w.K.Strict && !w.take(w.slot("code", a.name)) {
		return nil
	}
	avail := w.D.GetAvailableDepositAmount(a.cid)
	var ins []*common2.Input
	var spent []*c22UTXO
	var total common.Fixed64
	for _, u := range w.list(a.deposit).live() {
		ins = append(ins, &common2.Input{Previous: u.op})
		spent = append(spent, u)
		total += u.Value()
	}
	take := avail
	if take > total {
		take = total
	}
	if w.r.Intn(3) == 0 {
		take = take / 2
	}
	if take <= c22Fee {
		return nil
	}
	outs := []*common2.Output{w.stdOut(a.acc.ProgramHash, take-c22Fee)}
	if total > take {
		outs = append(outs, w.stdOut(a.deposit, total-take))
	}
	tx := w.mkTx(common2.TxVersion09, common2.ReturnCRDepositCoin, 0, &payload.ReturnDepositCoin{}, ins, outs, []*c22Actor{a})
	return &c22Staged{tx: tx, spent: spent, kind: "returnDeposit", desc: fmt.Sprintf("returnCRDeposit %s take=%s of available=%s inputs=%s", a.name, take, avail, total)}
}

// ---------- votes ----------

type c22VotePick struct {
	cand  []byte
	votes common.Fixed64
	name  string
}

// pickCRVotes chooses vote contents a voter may cast at height h with the given
// budget: CRC during the voting period for Active candidates; CRCProposal for
// CRAgreed proposals; CRCImpeachment for impeachable members.
func (w *c22World) pickVoteContents(h uint32, budget common.Fixed64, forceCRC bool) map[outputpayload.VoteType][]c22VotePick {
	res := map[outputpayload.VoteType][]c22VotePick{}
	if budget < c22ELA {
		return res
	}
	types := []outputpayload.VoteType{}
	cands := w.activeCands()
	if w.D.IsInVotingPeriod(h) && len(cands) > 0 {
		types = append(types, outputpayload.CRC)
	}
	agreed := w.proposals(crstate.CRAgreed)
	if len(agreed) > 0 {
		types = append(types, outputpayload.CRCProposal)
	}
	imp := w.impeachable()
	if len(imp) > 0 {
		types = append(types, outputpayload.CRCImpeachment)
	}
	if len(types) == 0 {
		return res
	}
	n := 1
	if w.r.Intn(3) == 0 {
		n = 2
	}
	w.r.Shuffle(len(types), func(i, j int) { types[i], types[j] = types[j], types[i] })
	if forceCRC {
		for i, t := range types {
			if t == outputpayload.CRC {
				types[0], types[i] = types[i], types[0]
			}
		}
		if types[0] != outputpayload.CRC {
			return res
		}
	}
	if n > len(types) {
		n = len(types)
	}
	for _, t := range types[:n] {
		switch t {
		case outputpayload.CRC:
			k := 1 + w.r.Intn(len(cands))
			if k > 4 {
				k = 4
			}
			idx := w.r.Perm(len(cands))[:k]
			if forceCRC {
				// prefer candidates without votes
				sort.Slice(idx, func(i, j int) bool { return cands[idx[i]].Votes < cands[idx[j]].Votes })
			}
			left := budget
			for i, ci := range idx {
				v := left / common.Fixed64(len(idx)-i)
				if w.r.Intn(2) == 0 {
					v = common.Fixed64(1 + w.r.Int63n(int64(v)))
				}
				if v <= 0 {
					continue
				}
				left -= v
				name := "?"
				if a := w.candByCID(cands[ci].Info.CID); a != nil {
					name = a.name
				}
				res[t] = append(res[t], c22VotePick{cands[ci].Info.CID.Bytes(), v, name})
			}
		case outputpayload.CRCProposal:
			k := 1 + w.r.Intn(len(agreed))
			for _, pi := range w.r.Perm(len(agreed))[:k] {
				v := budget
				if w.r.Intn(3) == 0 {
					v = common.Fixed64(1 + w.r.Int63n(int64(budget)))
				}
				if w.r.Intn(4) != 0 { // most votes against stay far below the rejection threshold
					v = v/200 + 1
				}
				hs := agreed[pi].Proposal.Hash
				res[t] = append(res[t], c22VotePick{hs.Bytes(), v, hs.String()[:8]})
			}
		case outputpayload.CRCImpeachment:
			k := 1 + w.r.Intn(len(imp))
			idx := w.r.Perm(len(imp))[:k]
			left := budget
			if w.r.Intn(6) != 0 { // most impeachment votes stay far below the threshold
				left = budget/300 + 1
			}
			for i, mi := range idx {
				v := left / common.Fixed64(len(idx)-i)
				if w.r.Intn(3) == 0 {
					v = common.Fixed64(1 + w.r.Int63n(int64(v)))
				}
				if v <= 0 {
					continue
				}
				left -= v
				name := "?"
				if a := w.candByCID(imp[mi].Info.CID); a != nil {
					name = a.name
				}
				res[t] = append(res[t], c22VotePick{imp[mi].Info.CID.Bytes(), v, name})
			}
		}
	}
	return res
}

func c22VoteTypeName(t outputpayload.VoteType) string {
	switch t {
	case outputpayload.CRC:
		return "CRC"
	case outputpayload.CRCProposal:
		return "CRCProposal"
	case outputpayload.CRCImpeachment:
		return "CRCImpeachment"
	}
	return fmt.Sprint(t)
}

func c22DescribeVotes(m map[outputpayload.VoteType][]c22VotePick) string {
	var ts []int
	for t := range m {
		ts = append(ts, int(t))
	}
	sort.Ints(ts)
	s := ""
	for _, t := range ts {
		s += " " + c22VoteTypeName(outputpayload.VoteType(t)) + "{"
		for i, p := range m[outputpayload.VoteType(t)] {
			if i > 0 {
				s += ","
			}
			s += fmt.Sprintf("%s:%s", p.name, p.votes)
		}
		s += "}"
	}
	return s
}

func (w *c22World) opVoteV1(h uint32) *c22Staged { return w.voteV1(h, false) }

// voteV1 mirrors checkVoteOutputs: only before the DPoS v2 activation, the vote
// output's address is one of the input addresses, CRC votes only in the voting
// period for Active candidates (sum <= output value), proposal votes only for
// CRAgreed proposals (each <= value), impeachment for impeachable members
// (sum <= value).  Spending an earlier vote output cancels those votes.
func (w *c22World) voteV1(h uint32, forceCRC bool) *c22Staged {
	if h >= w.K.V2Active {
		return nil
	}
	v := w.voters[w.r.Intn(len(w.voters))]
	l := w.list(v.acc.ProgramHash).live()
	if len(l) == 0 {
		return nil
	}
	// 1..3 inputs, vote outputs welcome (re-vote)
	w.r.Shuffle(len(l), func(i, j int) { l[i], l[j] = l[j], l[i] })
	n := 1 + w.r.Intn(3)
	var ins []*common2.Input
	var spent []*c22UTXO
	var total common.Fixed64
	reVote := false
	for _, u := range l {
		if len(ins) >= n {
			break
		}
		if u.Value() < 50*c22ELA {
			continue
		}
		ins = append(ins, &common2.Input{Previous: u.op})
		spent = append(spent, u)
		total += u.Value()
		reVote = reVote || u.isVote
	}
	if total <= c22Fee+c22ELA {
		return nil
	}
	value := total - c22Fee
	var outs []*common2.Output
	if w.r.Intn(4) == 0 && value > 1000*c22ELA { // keep some change out of the vote
		ch := common.Fixed64(1+w.r.Intn(500)) * c22ELA
		value -= ch
		outs = append(outs, w.stdOut(v.acc.ProgramHash, ch))
	}
	picks := w.pickVoteContents(h, value, forceCRC)
	if len(picks) == 0 {
		return nil
	}
	vo := &outputpayload.VoteOutput{Version: outputpayload.VoteProducerAndCRVersion}
	var ts []int
	for t := range picks {
		ts = append(ts, int(t))
	}
	sort.Ints(ts)
	for _, t := range ts {
		c := outputpayload.VoteContent{VoteType: outputpayload.VoteType(t)}
		for _, p := range picks[outputpayload.VoteType(t)] {
			c.CandidateVotes = append(c.CandidateVotes, outputpayload.CandidateVotes{Candidate: p.cand, Votes: p.votes})
		}
		vo.Contents = append(vo.Contents, c)
	}
	voteOut := &common2.Output{AssetID: core.ELAAssetID, Value: value, ProgramHash: v.acc.ProgramHash,
		Type: common2.OTVote, Payload: vo}
	outs = append([]*common2.Output{voteOut}, outs...)
	tx := w.mkTx(common2.TxVersion09, common2.TransferAsset, 0, &payload.TransferAsset{}, ins, outs, []*c22Actor{v})
	kind := "voteV1"
	if reVote {
		kind = "revoteV1"
	}
	return &c22Staged{tx: tx, spent: spent, kind: kind, desc: fmt.Sprintf("%s %s value=%s%s", kind, v.name, value, c22DescribeVotes(picks))}
}

// opSpendVote: an ordinary transfer that spends a vote output (cancels the votes).
func (w *c22World) opSpendVote(h uint32) *c22Staged {
	var cands []*c22UTXO
	var who []*c22Actor
	for _, v := range w.voters {
		for _, u := range w.list(v.acc.ProgramHash).live() {
			if u.isVote {
				cands = append(cands, u)
				who = append(who, v)
			}
		}
	}
	if len(cands) == 0 {
		return nil
	}
	i := w.r.Intn(len(cands))
	u, v := cands[i], who[i]
	outs := []*common2.Output{w.stdOut(v.acc.ProgramHash, u.Value()-c22Fee)}
	tx := w.mkTx(common2.TxVersion09, common2.TransferAsset, 0, &payload.TransferAsset{},
		[]*common2.Input{{Previous: u.op}}, outs, []*c22Actor{v})
	return &c22Staged{tx: tx, spent: []*c22UTXO{u}, kind: "cancelVoteV1", desc: fmt.Sprintf("cancelVoteV1 %s value=%s", v.name, u.Value())}
}

// opStake mirrors ExchangeVotesTransaction: first output to the stake pool
// (type OTStake, ExchangeVotesOutput naming the voter's stake address), optional
// change.  It is what gives a stake address its DPoS v2 vote rights.
func (w *c22World) opStake(v *c22Actor, h uint32) *c22Staged {
	out := &common2.Output{AssetID: core.ELAAssetID, Value: v.rights, ProgramHash: *w.Cfg.StakePoolProgramHash,
		Type: common2.OTStake, Payload: &outputpayload.ExchangeVotesOutput{Version: 0, StakeAddress: v.stake}}
	ins, outs, spent, ok := w.pay(v, []*common2.Output{out})
	if !ok {
		return nil
	}
	tx := w.mkTx(common2.TxVersion09, common2.ExchangeVotes, 0, &payload.ExchangeVotes{}, ins, outs, []*c22Actor{v})
	v.staked = h
	return &c22Staged{tx: tx, spent: spent, kind: "exchangeVotes", desc: fmt.Sprintf("exchangeVotes %s amount=%s", v.name, v.rights)}
}

func (w *c22World) opVotingV2(h uint32) *c22Staged { return w.votingV2(h, false) }

// votingV2 mirrors VotingTransaction (payload VoteVersion): from
// DPoSV2StartHeight, signer has vote rights (a constant per voter here, as the
// stake is DPoS state), lock time 0, CRC only in the voting period for Active
// candidates (sum <= rights), proposal votes for CRAgreed (max <= rights),
// impeachment for impeachable members (sum <= rights).
func (w *c22World) votingV2(h uint32, forceCRC bool) *c22Staged {
	if h < w.K.DPoSV2Start {
		return nil
	}
	v := w.voters[w.r.Intn(len(w.voters))]
	if v.staked == 0 || v.staked >= h {
		return nil // no vote rights yet
	}
	pl := &payload.Voting{}
	var desc string
	if !forceCRC && w.r.Intn(8) == 0 {
		// withdraw all votes of one kind: a content without entries
		t := []outputpayload.VoteType{outputpayload.CRC, outputpayload.CRCProposal, outputpayload.CRCImpeachment}[w.r.Intn(3)]
		if t == outputpayload.CRC && !w.D.IsInVotingPeriod(h) {
			return nil
		}
		pl.Contents = []payload.VotesContent{{VoteType: t, VotesInfo: []payload.VotesWithLockTime{}}}
		desc = " clear " + c22VoteTypeName(t)
	} else {
		picks := w.pickVoteContents(h, v.rights, forceCRC)
		if len(picks) == 0 {
			return nil
		}
		var ts []int
		for t := range picks {
			ts = append(ts, int(t))
		}
		sort.Ints(ts)
		for _, t := range ts {
			c := payload.VotesContent{VoteType: outputpayload.VoteType(t)}
			for _, p := range picks[outputpayload.VoteType(t)] {
				c.VotesInfo = append(c.VotesInfo, payload.VotesWithLockTime{Candidate: p.cand, Votes: p.votes, LockTime: 0})
			}
			pl.Contents = append(pl.Contents, c)
		}
		desc = c22DescribeVotes(picks)
	}
	if w.K.Strict && !w.take(w.slot("voting", v.name)) {
		return nil
	}
	ins, outs, spent, ok := w.pay(v, nil)
	if !ok {
		return nil
	}
	tx := w.mkTx(common2.TxVersion09, common2.Voting, payload.VoteVersion, pl, ins, outs, []*c22Actor{v})
	return &c22Staged{tx: tx, spent: spent, kind: "votingV2", desc: fmt.Sprintf("votingV2 %s%s", v.name, desc)}
}

// ---------- proposals ----------

func (w *c22World) signProposal(p *payload.CRCProposal, pver byte, owner, council, newOwner, sg *c22Actor) {
	if !w.K.Sign {
		p.Signature = w.sig(owner, nil)
		if newOwner != nil {
			p.NewOwnerSignature = w.sig(newOwner, nil)
		}
		if sg != nil {
			p.SecretaryGeneraSignature = w.sig(sg, nil)
		}
		p.CRCouncilMemberSignature = w.sig(council, nil)
		return
	}
	buf := new(bytes.Buffer)
	p.SerializeUnsigned(buf, pver)
	p.Signature = w.sig(owner, buf.Bytes())
	if newOwner != nil {
		p.NewOwnerSignature = w.sig(newOwner, buf.Bytes())
	}
	if sg != nil {
		p.SecretaryGeneraSignature = w.sig(sg, buf.Bytes())
	}
	common.WriteVarBytes(buf, p.Signature)
	if newOwner != nil {
		common.WriteVarBytes(buf, p.NewOwnerSignature)
	}
	if sg != nil {
		common.WriteVarBytes(buf, p.SecretaryGeneraSignature)
	}
	p.CRCouncilMemberDID.Serialize(buf)
	p.CRCouncilMemberSignature = w.sig(council, buf.Bytes())
}

// budgets builds a valid budget plan whose total respects both limits of
// checkNormalOrELIPProposal.
func (w *c22World) budgets(elip bool) ([]payload.Budget, common.Fixed64, bool) {
	kf := &w.D.KeyFrame
	lim1 := (kf.CRCCurrentStageAmount - kf.CommitteeUsedAmount) * 10 / 100
	lim2 := kf.CRCCurrentStageAmount - kf.CRCCommitteeUsedAmount - w.blockUse
	lim := lim1
	if lim2 < lim {
		lim = lim2
	}
	if lim < 0 {
		return nil, 0, false
	}
	var total common.Fixed64
	if lim > 0 {
		total = common.Fixed64(w.r.Int63n(int64(lim)/2 + 1))
		if w.r.Intn(8) == 0 {
			total = lim
		}
	}
	var bs []payload.Budget
	stage := byte(0)
	n := 0
	if elip {
		bs = []payload.Budget{{Type: payload.Imprest, Stage: 0}, {Type: payload.FinalPayment, Stage: 1}}
	} else {
		if w.r.Intn(4) != 0 {
			bs = append(bs, payload.Budget{Type: payload.Imprest, Stage: 0})
		}
		stage = 1
		n = w.r.Intn(4)
		for i := 0; i < n; i++ {
			bs = append(bs, payload.Budget{Type: payload.NormalPayment, Stage: stage})
			stage++
		}
		bs = append(bs, payload.Budget{Type: payload.FinalPayment, Stage: stage})
	}
	left := total
	for i := range bs {
		a := left / common.Fixed64(len(bs)-i)
		bs[i].Amount = a
		left -= a
	}
	bs[len(bs)-1].Amount += left
	// budgets may be listed in any order
	if w.r.Intn(3) == 0 {
		w.r.Shuffle(len(bs), func(i, j int) { bs[i], bs[j] = bs[j], bs[i] })
	}
	return bs, total, true
}

// opProposal mirrors CRCProposalTransaction: proposals allowed at h-1 (election
// period, not voting/claim period), council member Elected and not full,
// unused draft hash, type specific rules and height gates.
func (w *c22World) opProposal(h uint32) *c22Staged {
	if !w.D.IsProposalAllowed(h - 1) {
		return nil
	}
	if h < w.Cfg.CRConfiguration.CRCommitteeStartHeight {
		return nil
	}
	var ms []*crstate.CRMember
	for _, m := range w.electedMembers() {
		if !w.D.IsProposalFull(m.Info.DID) {
			ms = append(ms, m)
		}
	}
	if len(ms) == 0 {
		return nil
	}
	m := ms[w.r.Intn(len(ms))]
	council := w.candByDID(m.Info.DID)
	if council == nil {
		return nil
	}
	owner := w.owners[w.r.Intn(len(w.owners))]
	pver := payload.CRCProposalVersion
	if h >= w.K.DraftDataStart {
		pver = payload.CRCProposalVersion01
	}
	p := &payload.CRCProposal{OwnerKey: owner.pub, CRCouncilMemberDID: m.Info.DID,
		CategoryData: fmt.Sprintf("c22-%d", w.idSeq)}
	w.idSeq++
	if pver == payload.CRCProposalVersion01 {
		p.DraftData = []byte(fmt.Sprintf("draft-%d-%d", h, w.r.Int63()))
		p.DraftHash = common.Hash(p.DraftData)
	} else {
		p.DraftHash = w.randHash()
	}
	if w.D.ExistDraft(p.DraftHash) {
		return nil
	}

	kinds := []payload.CRCProposalType{payload.Normal, payload.Normal, payload.Normal, payload.ELIP}
	if h >= w.K.ProposalV1 {
		kinds = append(kinds, payload.ChangeProposalOwner, payload.CloseProposal, payload.CloseProposal, payload.SecretaryGeneral)
	}
	if h >= w.K.CustomIDStart {
		kinds = append(kinds, payload.ReserveCustomID, payload.ReceiveCustomID, payload.ReceiveCustomID, payload.ChangeCustomIDFee)
	}
	if h >= w.K.SideChainStart {
		kinds = append(kinds, payload.RegisterSideChain, payload.RegisterSideChain)
	}
	p.ProposalType = kinds[w.r.Intn(len(kinds))]
	var newOwner, sg *c22Actor
	var slots []string
	desc := ""
	var used common.Fixed64
	switch p.ProposalType {
	case payload.Normal, payload.ELIP:
		bs, total, ok := w.budgets(p.ProposalType == payload.ELIP)
		if !ok {
			return nil
		}
		p.Budgets = bs
		used = total
		p.Recipient = w.owners[w.r.Intn(len(w.owners))].acc.ProgramHash
		desc = fmt.Sprintf("budgets=%d total=%s", len(bs), total)
	case payload.ChangeProposalOwner:
		ts := w.proposals(crstate.VoterAgreed)
		if len(ts) == 0 {
			return nil
		}
		t := ts[w.r.Intn(len(ts))]
		newOwner = w.owners[w.r.Intn(len(w.owners))]
		p.TargetProposalHash = t.Proposal.Hash
		p.NewOwnerKey = newOwner.pub
		if w.r.Intn(2) == 0 {
			p.NewRecipient = w.owners[w.r.Intn(len(w.owners))].acc.ProgramHash
		}
		if bytes.Equal(p.NewOwnerKey, t.ProposalOwner) && p.NewRecipient.IsEqual(t.Recipient) {
			return nil
		}
		// the proposal must be signed by the target's current owner
		if cur := w.actorByPub(t.ProposalOwner); cur != nil {
			owner = cur
			p.OwnerKey = cur.pub
		}
		slots = append(slots, w.slot("chgowner", t.Proposal.Hash.String()))
		desc = fmt.Sprintf("target=%s newOwner=%s", t.Proposal.Hash.String()[:8], newOwner.name)
	case payload.CloseProposal:
		ts := w.proposals(crstate.VoterAgreed)
		if len(ts) == 0 {
			return nil
		}
		t := ts[w.r.Intn(len(ts))]
		p.TargetProposalHash = t.Proposal.Hash
		slots = append(slots, w.slot("close", t.Proposal.Hash.String()))
		desc = fmt.Sprintf("target=%s", t.Proposal.Hash.String()[:8])
	case payload.SecretaryGeneral:
		sg = w.sgs[w.r.Intn(len(w.sgs))]
		p.SecretaryGeneralPublicKey = sg.pub
		p.SecretaryGeneralDID = sg.did
		slots = append(slots, w.slot("sg", ""))
		desc = "sg=" + sg.name
	case payload.ReserveCustomID:
		if w.D.GetProposalManager().ReservedCustomID {
			return nil
		}
		n := 2 + w.r.Intn(4)
		for i := 0; i < n; i++ {
			p.ReservedCustomIDList = append(p.ReservedCustomIDList, fmt.Sprintf("id%d", w.idSeq))
			w.idSeq++
		}
		slots = append(slots, w.slot("reserve", ""))
		desc = fmt.Sprintf("ids=%v", p.ReservedCustomIDList)
	case payload.ReceiveCustomID:
		pm := w.D.GetProposalManager()
		var free []string
		for _, id := range pm.ReservedCustomIDLists {
			if _, pend := pm.PendingReceivedCustomIDMap[id]; pend {
				continue
			}
			got := false
			for _, r := range pm.ReceivedCustomIDLists {
				if r == id {
					got = true
				}
			}
			if !got && !w.slots[w.slot("customid", id)] {
				free = append(free, id)
			}
		}
		if len(free) == 0 {
			return nil
		}
		k := 1 + w.r.Intn(len(free))
		if k > 2 {
			k = 2
		}
		for _, i := range w.r.Perm(len(free))[:k] {
			p.ReceivedCustomIDList = append(p.ReceivedCustomIDList, free[i])
			slots = append(slots, w.slot("customid", free[i]))
		}
		p.ReceiverDID = w.cands[w.r.Intn(len(w.cands))].did
		desc = fmt.Sprintf("ids=%v", p.ReceivedCustomIDList)
	case payload.ChangeCustomIDFee:
		p.RateOfCustomIDFee = common.Fixed64(1 + w.r.Intn(1000))
		p.EIDEffectiveHeight = h + uint32(w.r.Intn(100)) + 1
		slots = append(slots, w.slot("idfee", ""))
	case payload.RegisterSideChain:
		w.sideSeq++
		p.SideChainName = fmt.Sprintf("side%d", w.sideSeq)
		p.MagicNumber = 20200000 + w.sideSeq
		p.GenesisHash = common.Hash([]byte(p.SideChainName))
		p.ExchangeRate = common.Fixed64(1e8)
		p.EffectiveHeight = h + uint32(w.r.Intn(50))
		p.ResourcePath = "path/" + p.SideChainName
		desc = "name=" + p.SideChainName
	}
	// Proposals whose outcome depends on the order in which the proposal map is
	// walked when they finish in the same block (two secretary generals, two
	// changes of one target, two received-id lists) keep their mempool slot in
	// every mode: Go map order would make even two forward-only instances differ.
	if w.K.Strict {
		slots = append(slots, w.slot("propdid", council.name))
	}
	if p.ProposalType == payload.ReceiveCustomID {
		slots = append(slots, w.slot("receive", ""))
	}
	if (w.K.Strict || c22OrderDependent(p.ProposalType)) && !w.take(slots...) {
		return nil
	}
	w.signProposal(p, pver, owner, council, newOwner, sg)
	ins, outs, spent, ok := w.pay(owner, nil)
	if !ok {
		return nil
	}
	tx := w.mkTx(common2.TxVersion09, common2.CRCProposal, pver, p, ins, outs, []*c22Actor{owner})
	w.blockUse += used
	hash := p.Hash(pver)
	kind := "proposal:" + p.ProposalType.Name()
	return &c22Staged{tx: tx, spent: spent, kind: kind, desc: fmt.Sprintf("proposal %s %s owner=%s council=%s ver=%d %s", p.ProposalType.Name(), hash.String()[:8], owner.name, council.name, pver, desc)}
}

func c22OrderDependent(t payload.CRCProposalType) bool {
	switch t {
	case payload.SecretaryGeneral, payload.ChangeProposalOwner, payload.CloseProposal, payload.ReceiveCustomID, payload.ReserveCustomID:
		return true
	}
	return false
}

func (w *c22World) opReview(h uint32) *c22Staged { return w.review(h, false) }

// review mirrors CRCProposalReviewTransaction: proposal Registered, reviewer an
// Elected member, known vote result.
func (w *c22World) review(h uint32, favour bool) *c22Staged {
	if h < w.Cfg.CRConfiguration.CRCommitteeStartHeight {
		return nil
	}
	ps := w.proposals(crstate.Registered)
	ms := w.electedMembers()
	if len(ps) == 0 || len(ms) == 0 {
		return nil
	}
	p := ps[w.r.Intn(len(ps))]
	m := ms[w.r.Intn(len(ms))]
	if favour {
		// a member that has not reviewed yet
		var open []*crstate.CRMember
		for _, x := range ms {
			if _, ok := p.CRVotes[x.Info.DID]; !ok {
				open = append(open, x)
			}
		}
		if len(open) == 0 {
			return nil
		}
		m = open[w.r.Intn(len(open))]
	}
	a := w.candByDID(m.Info.DID)
	if a == nil {
		return nil
	}
	if w.K.Strict && !w.take(w.slot("review", a.name+p.Proposal.Hash.String())) {
		return nil
	}
	res := payload.VoteResult(w.r.Intn(3))
	if favour && w.r.Intn(7) != 0 {
		res = payload.Approve
	}
	pver := payload.CRCProposalReviewVersion
	rv := &payload.CRCProposalReview{ProposalHash: p.Proposal.Hash, VoteResult: res, DID: m.Info.DID}
	if h >= w.K.DraftDataStart {
		pver = payload.CRCProposalReviewVersion01
		rv.OpinionData = []byte(fmt.Sprintf("opinion-%d-%d", h, w.r.Int63()))
		rv.OpinionHash = common.Hash(rv.OpinionData)
	} else {
		rv.OpinionHash = w.randHash()
	}
	var data []byte
	if w.K.Sign {
		buf := new(bytes.Buffer)
		rv.SerializeUnsigned(buf, pver)
		data = buf.Bytes()
	}
	rv.Signature = w.sig(a, data)
	ins, outs, spent, ok := w.pay(a, nil)
	if !ok {
		return nil
	}
	tx := w.mkTx(common2.TxVersion09, common2.CRCProposalReview, pver, rv, ins, outs, []*c22Actor{a})
	return &c22Staged{tx: tx, spent: spent, kind: "review:" + res.Name(), desc: fmt.Sprintf("review %s by %s: %s", p.Proposal.Hash.String()[:8], a.name, res.Name())}
}

// opTracking mirrors CRCProposalTrackingTransaction: proposal VoterAgreed,
// tracking count below the maximum, owner key is the current proposal owner,
// stage rules per tracking type.
func (w *c22World) opTracking(h uint32) *c22Staged {
	if h < w.Cfg.CRConfiguration.CRCommitteeStartHeight {
		return nil
	}
	ps := w.proposals(crstate.VoterAgreed)
	if len(ps) == 0 {
		return nil
	}
	p := ps[w.r.Intn(len(ps))]
	if p.TrackingCount >= w.K.MaxTracking {
		return nil
	}
	owner := w.actorByPub(p.ProposalOwner)
	if owner == nil {
		return nil
	}
	sgPub, err := common.HexStringToBytes(w.D.GetProposalManager().SecretaryGeneralPublicKey)
	if err != nil {
		return nil
	}
	sg := w.actorByPub(sgPub)
	if sg == nil {
		return nil
	}
	types := []payload.CRCProposalTrackingType{payload.Common, payload.Progress, payload.Progress, payload.Progress,
		payload.Rejected, payload.Terminated, payload.ChangeOwner, payload.Finalized, payload.Finalized}
	tt := types[w.r.Intn(len(types))]
	t := &payload.CRCProposalTracking{ProposalTrackingType: tt, ProposalHash: p.Proposal.Hash, OwnerKey: owner.pub}
	var newOwner *c22Actor
	openStages := func(normalOnly bool) []byte {
		var st []byte
		for _, b := range p.Proposal.Budgets {
			if _, ok := p.WithdrawableBudgets[b.Stage]; ok {
				continue
			}
			if int(b.Stage) >= len(p.Proposal.Budgets) {
				continue
			}
			if normalOnly && b.Type != payload.NormalPayment {
				continue
			}
			st = append(st, b.Stage)
		}
		sort.Slice(st, func(i, j int) bool { return st[i] < st[j] })
		return st
	}
	switch tt {
	case payload.Common, payload.Terminated:
		t.Stage = 0
	case payload.Progress:
		st := openStages(true)
		if len(st) == 0 {
			return nil
		}
		t.Stage = st[0]
		if w.r.Intn(4) == 0 {
			t.Stage = st[w.r.Intn(len(st))]
		}
	case payload.Rejected:
		st := openStages(h < w.K.WithdrawV1)
		if len(st) == 0 {
			return nil
		}
		t.Stage = st[w.r.Intn(len(st))]
	case payload.ChangeOwner:
		newOwner = w.owners[w.r.Intn(len(w.owners))]
		if bytes.Equal(newOwner.pub, p.ProposalOwner) {
			return nil
		}
		t.NewOwnerKey = newOwner.pub
	case payload.Finalized:
		for _, b := range p.Proposal.Budgets {
			if b.Type == payload.FinalPayment {
				t.Stage = b.Stage
			}
		}
	}
	if w.K.Strict && !w.take(w.slot("tracking", p.Proposal.Hash.String())) {
		return nil
	}
	pver := payload.CRCProposalTrackingVersion
	if h >= w.K.DraftDataStart {
		pver = payload.CRCProposalTrackingVersion01
		t.MessageData = []byte(fmt.Sprintf("msg-%d-%d", h, w.r.Int63()))
		t.MessageHash = common.Hash(t.MessageData)
		t.SecretaryGeneralOpinionData = []byte(fmt.Sprintf("sgo-%d-%d", h, w.r.Int63()))
		t.SecretaryGeneralOpinionHash = common.Hash(t.SecretaryGeneralOpinionData)
	} else {
		t.MessageHash = w.randHash()
		t.SecretaryGeneralOpinionHash = w.randHash()
	}
	if w.K.Sign {
		buf := new(bytes.Buffer)
		t.SerializeUnsigned(buf, pver)
		t.OwnerSignature = w.sig(owner, buf.Bytes())
		common.WriteVarBytes(buf, t.OwnerSignature)
		if newOwner != nil {
			t.NewOwnerSignature = w.sig(newOwner, buf.Bytes())
		}
		common.WriteVarBytes(buf, t.NewOwnerSignature)
		buf.Write([]byte{byte(tt)})
		t.SecretaryGeneralOpinionHash.Serialize(buf)
		if pver >= payload.CRCProposalTrackingVersion01 {
			common.WriteVarBytes(buf, t.SecretaryGeneralOpinionData)
		}
		t.SecretaryGeneralSignature = w.sig(sg, buf.Bytes())
	} else {
		t.OwnerSignature = w.sig(owner, nil)
		if newOwner != nil {
			t.NewOwnerSignature = w.sig(newOwner, nil)
		}
		t.SecretaryGeneralSignature = w.sig(sg, nil)
	}
	ins, outs, spent, ok := w.pay(owner, nil)
	if !ok {
		return nil
	}
	tx := w.mkTx(common2.TxVersion09, common2.CRCProposalTracking, pver, t, ins, outs, []*c22Actor{owner})
	return &c22Staged{tx: tx, spent: spent, kind: "tracking:" + tt.Name(), desc: fmt.Sprintf("tracking %s %s stage=%d owner=%s", p.Proposal.Hash.String()[:8], tt.Name(), t.Stage, owner.name)}
}

// opWithdraw mirrors CRCProposalWithdrawTransaction (payload v0 below
// CRCProposalWithdrawPayloadV1Height, v1 from there).
func (w *c22World) opWithdraw(h uint32) *c22Staged {
	if h < w.Cfg.CRConfiguration.CRCommitteeStartHeight {
		return nil
	}
	var ps []*crstate.ProposalState
	for _, st := range []crstate.ProposalStatus{crstate.VoterAgreed, crstate.Finished, crstate.Aborted, crstate.Terminated} {
		for _, p := range w.proposals(st) {
			if w.D.AvailableWithdrawalAmount(p.Proposal.Hash) > 0 {
				ps = append(ps, p)
			}
		}
	}
	if len(ps) == 0 {
		return nil
	}
	p := ps[w.r.Intn(len(ps))]
	owner := w.actorByPub(p.ProposalOwner)
	if owner == nil {
		return nil
	}
	amount := w.D.AvailableWithdrawalAmount(p.Proposal.Hash)
	if w.K.Strict && !w.take(w.slot("withdraw", p.Proposal.Hash.String())) {
		return nil
	}
	pl := &payload.CRCProposalWithdraw{ProposalHash: p.Proposal.Hash, OwnerKey: owner.pub}
	sign := func(ver byte) {
		var data []byte
		if w.K.Sign {
			buf := new(bytes.Buffer)
			pl.SerializeUnsigned(buf, ver)
			data = buf.Bytes()
		}
		pl.Signature = w.sig(owner, data)
	}
	if h < w.K.WithdrawV1 {
		if amount <= c22Fee {
			return nil
		}
		// inputs from the CR expenses address, outputs: recipient, change
		exp := *w.Cfg.CRConfiguration.CRExpensesProgramHash
		var ins []*common2.Input
		var spent []*c22UTXO
		var total common.Fixed64
		for _, u := range w.list(exp).live() {
			ins = append(ins, &common2.Input{Previous: u.op})
			spent = append(spent, u)
			total += u.Value()
			if total >= amount {
				break
			}
		}
		if total < amount {
			return nil
		}
		outs := []*common2.Output{w.stdOut(p.Recipient, amount-c22Fee)}
		if total > amount {
			outs = append(outs, w.stdOut(exp, total-amount))
		}
		sign(payload.CRCProposalWithdrawDefault)
		tx := w.mkTx(common2.TxVersion09, common2.CRCProposalWithdraw, payload.CRCProposalWithdrawDefault, pl, ins, outs, nil)
		return &c22Staged{tx: tx, spent: spent, kind: "withdraw:v0", desc: fmt.Sprintf("withdraw(v0) %s amount=%s", p.Proposal.Hash.String()[:8], amount)}
	}
	if amount <= w.Cfg.CRConfiguration.RealWithdrawSingleFee {
		return nil
	}
	pl.Recipient = p.Recipient
	pl.Amount = amount
	sign(payload.CRCProposalWithdrawVersion01)
	ins, outs, spent, ok := w.pay(owner, nil)
	if !ok {
		return nil
	}
	tx := w.mkTx(common2.TxVersion09, common2.CRCProposalWithdraw, payload.CRCProposalWithdrawVersion01, pl, ins, outs, []*c22Actor{owner})
	return &c22Staged{tx: tx, spent: spent, kind: "withdraw:v1", desc: fmt.Sprintf("withdraw(v1) %s amount=%s", p.Proposal.Hash.String()[:8], amount)}
}

// ---------- node-generated transactions ----------

// opProposalResult: the record-proposal-result transaction the next block has
// to carry when the committee flags it (no inputs/outputs).
func (w *c22World) opProposalResult(h uint32) *c22Staged {
	if !w.D.IsProposalResultNeeded() {
		return nil
	}
	res := append([]payload.ProposalResult{}, w.D.GetCustomIDResults()...)
	tx := w.mkTx(common2.TxVersion09, common2.ProposalResult, 0, &payload.RecordProposalResult{ProposalResults: res}, nil, nil, nil)
	return &c22Staged{tx: tx, kind: "proposalResult", desc: fmt.Sprintf("proposalResult n=%d", len(res))}
}

// opAppropriation mirrors CRCAppropriationTransaction: needed flag set, inputs
// only from the CR assets address, outputs exactly [expenses: AppropriationAmount,
// assets: change], inputs == outputs.
func (w *c22World) opAppropriation(h uint32) *c22Staged {
	if !w.D.IsAppropriationNeeded() || h < w.Cfg.CRConfiguration.CRCommitteeStartHeight {
		return nil
	}
	amt := w.D.KeyFrame.AppropriationAmount
	if amt <= 0 {
		return nil
	}
	if !w.take(w.slot("appropriation", "")) {
		return nil
	}
	utxos, _ := w.matureAssets(h - 1)
	var ins []*common2.Input
	var spent []*c22UTXO
	var total common.Fixed64
	for _, u := range utxos {
		ins = append(ins, &common2.Input{Previous: u.op, Sequence: 4294967295})
		spent = append(spent, u)
		total += u.Value()
		if total >= amt {
			break
		}
	}
	if total < amt {
		return nil
	}
	outs := []*common2.Output{
		w.stdOut(*w.Cfg.CRConfiguration.CRExpensesProgramHash, amt),
		w.stdOut(*w.Cfg.CRConfiguration.CRAssetsProgramHash, total-amt),
	}
	tx := w.mkTx(common2.TxVersion09, common2.CRCAppropriation, 0, &payload.CRCAppropriation{}, ins, outs, nil)
	return &c22Staged{tx: tx, spent: spent, kind: "appropriation", desc: fmt.Sprintf("appropriation amount=%s inputs=%d", amt, len(ins))}
}

// opRealWithdraw mirrors CRCProposalRealWithdrawTransaction.
func (w *c22World) opRealWithdraw(h uint32) *c22Staged {
	if h < w.K.RectifyStart || h < w.K.WithdrawV1 {
		return nil
	}
	info := w.D.GetRealWithdrawTransactions()
	if len(info) == 0 {
		return nil
	}
	var hashes []common.Uint256
	for k := range info {
		hashes = append(hashes, k)
	}
	sort.Slice(hashes, func(i, j int) bool { return hashes[i].Compare(hashes[j]) < 0 })
	if w.r.Intn(4) == 0 && len(hashes) > 1 {
		hashes = hashes[:1+w.r.Intn(len(hashes)-1)]
	}
	if !w.take(w.slot("realwithdraw", "")) {
		return nil
	}
	fee := w.Cfg.CRConfiguration.RealWithdrawSingleFee
	var outs []*common2.Output
	var need common.Fixed64
	for _, hs := range hashes {
		oi := info[hs]
		outs = append(outs, w.stdOut(oi.Recipient, oi.Amount-fee))
		need += oi.Amount
	}
	exp := *w.Cfg.CRConfiguration.CRExpensesProgramHash
	var ins []*common2.Input
	var spent []*c22UTXO
	var total common.Fixed64
	for _, u := range w.list(exp).live() {
		ins = append(ins, &common2.Input{Previous: u.op, Sequence: 4294967295})
		spent = append(spent, u)
		total += u.Value()
		if total >= need {
			break
		}
	}
	if total < need {
		return nil
	}
	if total > need {
		outs = append(outs, w.stdOut(exp, total-need))
	}
	tx := w.mkTx(common2.TxVersion09, common2.CRCProposalRealWithdraw, 0,
		&payload.CRCProposalRealWithdraw{WithdrawTransactionHashes: hashes}, ins, outs, nil)
	return &c22Staged{tx: tx, spent: spent, kind: "realWithdraw", desc: fmt.Sprintf("realWithdraw n=%d total=%s", len(hashes), need)}
}

// opRectify mirrors CRAssetsRectifyTransaction.
func (w *c22World) opRectify(h uint32) *c22Staged {
	if h < w.K.RectifyStart {
		return nil
	}
	utxos, _ := w.matureAssets(h - 1)
	min, max := int(w.K.MinAssetsUTXO), int(w.K.MaxAssetsUTXO)
	if len(utxos) < min {
		return nil
	}
	if w.slots[w.slot("appropriation", "")] {
		return nil // would compete for the same inputs
	}
	n := min + w.r.Intn(max-min+1)
	if n > len(utxos) {
		n = len(utxos)
	}
	var ins []*common2.Input
	var spent []*c22UTXO
	var total common.Fixed64
	// the node takes the largest; anyone may pick others
	if w.r.Intn(2) == 0 {
		w.r.Shuffle(len(utxos), func(i, j int) { utxos[i], utxos[j] = utxos[j], utxos[i] })
	}
	for _, u := range utxos[:n] {
		ins = append(ins, &common2.Input{Previous: u.op, Sequence: 4294967295})
		spent = append(spent, u)
		total += u.Value()
	}
	fee := w.Cfg.CRConfiguration.RectifyTxFee
	if total <= fee {
		return nil
	}
	if !w.take(w.slot("rectify", "")) {
		return nil
	}
	outs := []*common2.Output{w.stdOut(*w.Cfg.CRConfiguration.CRAssetsProgramHash, total-fee)}
	tx := w.mkTx(common2.TxVersion09, common2.CRAssetsRectify, 0, &payload.CRAssetsRectify{}, ins, outs, nil)
	return &c22Staged{tx: tx, spent: spent, kind: "rectify", desc: fmt.Sprintf("rectify inputs=%d total=%s", n, total)}
}

func (w *c22World) opClaimNode(h uint32) *c22Staged { return w.claimNode(h, false) }

// claimNode mirrors CRCouncilMemberClaimNodeTransaction.
func (w *c22World) claimNode(h uint32, needy bool) *c22Staged {
	if h < w.Cfg.CRConfiguration.CRClaimDPOSNodeStartHeight {
		return nil
	}
	v2 := h >= w.K.DPoSV2Start
	if !v2 && !w.D.IsInElectionPeriod() {
		return nil
	}
	ver := payload.CurrentCRClaimDPoSNodeVersion
	members := w.D.GetCurrentMembers()
	if v2 {
		next := w.D.GetNextMembers()
		if len(next) > 0 && (len(members) == 0 || w.r.Intn(2) == 0) {
			ver = payload.NextCRClaimDPoSNodeVersion
			members = next
		}
	}
	var ms []*crstate.CRMember
	for _, m := range members {
		if m.MemberState != crstate.MemberElected && m.MemberState != crstate.MemberInactive {
			continue
		}
		if needy && len(m.DPOSPublicKey) != 0 {
			continue
		}
		ms = append(ms, m)
	}
	if len(ms) == 0 {
		return nil
	}
	sort.Slice(ms, func(i, j int) bool { return ms[i].Info.DID.Compare(ms[j].Info.DID) < 0 })
	m := ms[w.r.Intn(len(ms))]
	a := w.candByDID(m.Info.DID)
	if a == nil {
		return nil
	}
	w.nodeKeySeq++
	nk := node.Key(1000 + w.nodeKeySeq)
	pub, _ := nk.PublicKey.EncodePoint(true)
	hexPub := common.BytesToHexString(pub)
	if v2 {
		if ver == payload.CurrentCRClaimDPoSNodeVersion {
			if _, ok := w.D.KeyFrame.ClaimedDPoSKeys[hexPub]; ok {
				return nil
			}
		} else if _, ok := w.D.KeyFrame.NextClaimedDPoSKeys[hexPub]; ok {
			return nil
		}
	}
	if w.K.Strict && !w.take(w.slot("claimdid", a.name), w.slot("claimkey", hexPub)) {
		return nil
	}
	pl := &payload.CRCouncilMemberClaimNode{NodePublicKey: pub, CRCouncilCommitteeDID: m.Info.DID}
	var data []byte
	if w.K.Sign {
		buf := new(bytes.Buffer)
		pl.SerializeUnsigned(buf, payload.CurrentCRClaimDPoSNodeVersion)
		data = buf.Bytes()
	}
	pl.CRCouncilCommitteeSignature = w.sig(a, data)
	ins, outs, spent, ok := w.pay(a, nil)
	if !ok {
		return nil
	}
	tx := w.mkTx(common2.TxVersion09, common2.CRCouncilMemberClaimNode, ver, pl, ins, outs, []*c22Actor{a})
	kind := "claimNode:current"
	if ver == payload.NextCRClaimDPoSNodeVersion {
		kind = "claimNode:next"
	}
	return &c22Staged{tx: tx, spent: spent, kind: kind, desc: fmt.Sprintf("%s %s key=%s", kind, a.name, hexPub[:10])}
}

// opTransfer: ordinary transfers that touch committee bookkeeping: donations
// to the CR assets / expenses addresses, burning, deposit top-ups.
func (w *c22World) opTransfer(h uint32) *c22Staged {
	switch w.r.Intn(5) {
	case 0, 1:
		amt := common.Fixed64(10000+w.r.Intn(400000)) * c22ELA
		return w.transfer(w.found, *w.Cfg.CRConfiguration.CRAssetsProgramHash, amt, "donateAssets")
	case 2:
		amt := common.Fixed64(1+w.r.Intn(2000)) * c22ELA
		return w.transfer(w.found, *w.Cfg.CRConfiguration.CRExpensesProgramHash, amt, "donateExpenses")
	case 3:
		amt := common.Fixed64(1+w.r.Intn(100)) * c22ELA
		return w.transfer(w.found, *w.Cfg.DestroyELAProgramHash, amt, "burn")
	default:
		var as []*c22Actor
		for _, a := range w.cands {
			if w.D.ExistCandidateByDepositHash(a.deposit) {
				as = append(as, a)
			}
		}
		if len(as) == 0 {
			return nil
		}
		a := as[w.r.Intn(len(as))]
		amt := common.Fixed64(1+w.r.Intn(200)) * c22ELA
		return w.transfer(w.found, a.deposit, amt, "depositTopUp:"+a.name)
	}
}

func (w *c22World) transfer(from *c22Actor, to common.Uint168, amt common.Fixed64, what string) *c22Staged {
	ins, outs, spent, ok := w.pay(from, []*common2.Output{w.stdOut(to, amt)})
	if !ok {
		return nil
	}
	tx := w.mkTx(common2.TxVersion09, common2.TransferAsset, 0, &payload.TransferAsset{}, ins, outs, []*c22Actor{from})
	kind := what
	if i := bytes.IndexByte([]byte(what), ':'); i > 0 {
		kind = what[:i]
	}
	return &c22Staged{tx: tx, spent: spent, kind: kind, desc: fmt.Sprintf("%s amount=%s", what, amt)}
}

package props

import (
	"bytes"
	"encoding/hex"
	"fmt"
	"math"
	"math/rand"
	"os"
	"strings"

	"github.com/elastos/Elastos.ELA/account"
	"github.com/elastos/Elastos.ELA/common"
	"github.com/elastos/Elastos.ELA/common/config"
	pg "github.com/elastos/Elastos.ELA/core/contract/program"
	"github.com/elastos/Elastos.ELA/core/types"
	common2 "github.com/elastos/Elastos.ELA/core/types/common"
	"github.com/elastos/Elastos.ELA/core/types/functions"
	"github.com/elastos/Elastos.ELA/core/types/interfaces"
	"github.com/elastos/Elastos.ELA/core/types/payload"
	"github.com/elastos/Elastos.ELA/dpos/state"

	"verif/kit"
	"verif/kit/node"
)

// C28 — deposits and vote rights are never overdrawn.
//
// One seeded history per shard on a real full node (even shards: dposv2-era,
// odd shards: dpos-era). The history is the compressed-era bootstrap script
// (producers, CR committee, claimed nodes, DPoS v2 activation) interleaved
// with "subjects" — producers, CR candidates and stake addresses that perform
// random deposit / vote operations, and after every operation kind the
// corresponding "too much" variant. Every block goes through c28.mine(), which
// feeds the accepted block to the model (c28_model.go) and evaluates the oracle.
//
// Oracle:
//  (1) invariants through the public getters after every accepted block;
//  (2) node bookkeeping == independent exact-integer model, field by field
//      (a difference in the direction that would allow an over-draw is a
//      violation; a difference in the safe direction is only counted);
//  (3) every over-draw attempt must be rejected by the mempool AND inside a block;
//      after a block that contains a deposit return the deposit address must
//      still hold lock + penalty (computed from the chain's own UTXOs).

func init() {
	kit.Register(&kit.Spec{
		ID:   "C28",
		Rule: "one seeded history per shard on a full node (even shards dposv2-era, odd shards dpos-era): register v1/v2 producers and CR candidates, top-ups, inactive penalties (SetOffline), cancel/unregister, lock-up, DPoS v2 activation, StakeUntil expiry, partial/repeated/with-change deposit returns with varied output shapes (plain address, own deposit address change, FOREIGN deposit addresses of another producer / a CR candidate / nobody, mixtures), stake, vote, renew, vote expiry, ReturnVotes, plus for every kind the over-draw variant through mempool and through a hand-assembled confirmed block, and same-block combinations; a case = one submitted operation (honest or over-draw) identified by (shard era, subject, kind, height); non-trivial = the operation reached the type's SpecialContextCheck (honest: accepted; over-draw: rejected for the over-draw reason or accepted)",
		Shards: func(tier string) int {
			if tier == "thorough" {
				return 96
			}
			return 16
		},
		Run: runC28,
		Require: []string{"blocks", "era_reached:public-dpos", "era_reached:cr-committee", "era_reached:dposv2-active",
			"accepted:RegisterProducer-v1", "accepted:RegisterProducer-v2", "accepted:TopUp-producer", "accepted:CancelProducer",
			"accepted:ReturnDepositCoin", "accepted:RegisterCR", "accepted:UnregisterCR", "accepted:ReturnCRDepositCoin",
			"accepted:ExchangeVotes", "accepted:Voting", "accepted:VotingRenew", "accepted:ReturnVotes",
			"penalties_applied", "vote_expiries", "lock_released:lockup", "lock_released:v2-activation", "lock_released:stake-until",
			"overdraw_attempts:return-deposit", "overdraw_attempts:return-cr-deposit", "overdraw_attempts:voting", "overdraw_attempts:return-votes",
			"overdraw_right_reason:return-deposit", "overdraw_right_reason:return-cr-deposit", "overdraw_right_reason:voting", "overdraw_right_reason:return-votes",
			"overdraw_rejected_mempool:return-deposit", "overdraw_rejected_mempool:return-cr-deposit", "overdraw_rejected_mempool:voting", "overdraw_rejected_mempool:return-votes",
			"overdraw_rejected_block:return-deposit", "overdraw_rejected_block:return-cr-deposit", "overdraw_rejected_block:voting", "overdraw_rejected_block:return-votes",
			"overdraw_attempts_kind:return-deposit:locked", "overdraw_attempts_kind:return-deposit:beyond-topup", "overdraw_attempts_kind:return-deposit:beyond-penalty",
			"overdraw_attempts_kind:return-votes:in-use", "overdraw_attempts_kind:voting:beyond-rights",
			"return_deposit_to_foreign_deposit_address_cases", "return_deposit_to_foreign_deposit_address_honest_accepted",
			"return_deposit_to_foreign_deposit_address_overdraw_cases", "return_deposit_to_foreign_deposit_address_overdraw_with_positive_available",
			"return_deposit_to_foreign_deposit_address_dest:producer", "return_deposit_to_foreign_deposit_address_dest:cr", "return_deposit_to_foreign_deposit_address_dest:unregistered",
			"return_deposit_to_foreign_deposit_address_mixed_outputs",
			"overdraw_rejected_mempool_kind:return-deposit:foreign-deposit-output", "overdraw_rejected_block_kind:return-deposit:foreign-deposit-output",
			"overdraw_rejected_mempool_kind:return-cr-deposit:foreign-deposit-output", "overdraw_rejected_block_kind:return-cr-deposit:foreign-deposit-output",
			"same_block_attempts", "same_block_attempts:return-deposit:same-block-double", "same_block_attempts:voting:same-block:vote+return",
			"model_compares:producer", "model_compares:cr", "model_compares:stake", "returns_with_penalty",
			"penalties_applied:inactive", "penalties_applied:illegal", "accepted:UpdateProducer-to-v1v2", "accepted:CancelProducer:at-v2-activation",
			"accepted:ReturnDepositCoin:with-change", "accepted:ReturnDepositCoin:exact-available", "accepted:ReturnDepositCoin:penalised", "accepted:Voting:all-unused", "accepted:ReturnVotes:all-unused"},
		Assumptions: []string{
			"compressed-era regnet parameters (kit/node/eras.go) with InactivePenalty=100 ELA, IllegalPenalty=150 ELA, DPoSV2IllegalPenalty=200 ELA, CR DutyPeriod=400",
			"the model takes three facts from the node that are not under test: DPoSV2ActiveHeight, the member list after a committee change, and the height at which a producer is punished (state becomes Inactive/Illegal); CR member penalties (floating point in the repo) are mirrored, only checked for sign and monotonicity",
			"payload.DetailedVoteInfo.ReferKey is used as the identifier of a vote (hash only)",
		},
		TimeoutS: func(tier string) int { return 600 },
	})
}

const (
	c28InactivePenalty  = 100 * 100000000
	c28IllegalPenalty   = 150 * 100000000
	c28V2IllegalPenalty = 200 * 100000000
)

type c28 struct {
	c       *kit.Ctx
	nd      *node.Node
	era     *node.Era
	eraName string
	v2      bool
	w       *node.Wallet
	r       *rand.Rand
	m       *c28Model
	pend    []interfaces.Transaction
	fatal   bool
	trf     *os.File

	prods      []*c28Prod
	crs        []*c28CR
	stakers    []*c28Staker
	noted      map[string]bool
	noteBudget map[string]int
	sameBudget map[string]int
	tainted    map[string]bool // subject ids whose bookkeeping is known to be broken by an ACCEPTED over-draw

	baseOwners, baseNodes []*account.Account
	baseCRs, baseCRNodes  []*account.Account
	voters                []*account.Account
	v2Owners, v2Nodes     []*account.Account
	lastCommitteeHeight   uint32
	subjectsOn            bool
}

func (k *c28) trace(f string, a ...interface{}) {
	if k.trf != nil {
		fmt.Fprintf(k.trf, "[h=%d] "+f+"\n", append([]interface{}{k.nd.Height()}, a...)...)
	}
}

func runC28(c *kit.Ctx) {
	name := "dposv2-era"
	if c.Shard%2 == 1 {
		name = "dpos-era"
	}
	nd, err := node.Start(node.Options{Dir: c.WorkDir, CoinbaseMaturity: 2, Tweak: func(cfg *config.Configuration) {
		node.EraTweak(name)(cfg)
		cfg.DPoSConfiguration.InactivePenalty = c28InactivePenalty
		cfg.DPoSConfiguration.IllegalPenalty = c28IllegalPenalty
		cfg.DPoSConfiguration.DPoSV2IllegalPenalty = c28V2IllegalPenalty
		cfg.CRConfiguration.DutyPeriod = 400 // the first committee outlives the history (no second election needed)
	}})
	if err != nil {
		c.Inconclusive("node start (%s): %v", name, err)
		return
	}
	defer nd.Close()
	defer nd.UnhookEvents()
	e := node.EraOf(name)
	k := &c28{c: c, nd: nd, era: e, eraName: name, v2: e.DPoSV2Start != math.MaxUint32, r: c.Rand("c28"),
		m: newC28Model(e.DepositLockup), tainted: map[string]bool{}, noted: map[string]bool{}, noteBudget: map[string]int{}, sameBudget: map[string]int{}}
	if d := os.Getenv("C28_TRACE"); d != "" {
		k.trf, _ = os.Create(fmt.Sprintf("%s/c28-%d-%s.log", d, c.Shard, name))
		defer k.trf.Close()
	}
	panicked, val, stack := kit.Guard(func() { k.script() })
	if panicked {
		c.Inconclusive("%s: script panicked at height %d: %v\n%s", name, nd.Height(), val, stack)
	}
	c.Max("max:height:"+name, int64(nd.Height()))
	c.Count("vote_expiries", int64(k.m.expiries))
	k.sample()
}

func (k *c28) sample() {
	type row struct {
		ID                               string
		Total, Lock, Penalty, Returned   int64
		NodeTotal, NodeLock, NodePenalty int64
	}
	var rows []row
	st := k.nd.Chain.GetState()
	for _, p := range k.m.sortedProds() {
		pub, _ := hex.DecodeString(p.id)
		if np := st.GetProducer(pub); np != nil && (p.returned != 0 || p.penalty != 0) {
			rows = append(rows, row{"producer:" + p.id[:10], p.total(k.m), p.lock, p.penalty, p.returned, int64(np.TotalAmount()), int64(np.DepositAmount()), int64(np.Penalty())})
		}
		if len(rows) >= 4 {
			break
		}
	}
	type srow struct {
		Stake                                     string
		Rights, Used, Staked, Returned, LiveVotes int64
	}
	var srows []srow
	for _, a := range k.m.sortedStakes() {
		s := k.m.stakes[a]
		ad, _ := a.ToAddress()
		srows = append(srows, srow{ad, s.rights, s.used, s.staked, s.returned, int64(len(s.votes))})
		if len(srows) >= 4 {
			break
		}
	}
	k.c.Sample(map[string]interface{}{"era": k.eraName, "height": k.nd.Height(), "dposv2_active_height": k.nd.Arbiters.GetDPoSV2ActiveHeight(),
		"deposits": rows, "stakes": srows})
}

// ---------- mining + oracle ----------

func (k *c28) submitHonest(kind string, tx interfaces.Transaction, subj string) bool {
	k.c.Inc("submitted:" + kind)
	if err := k.nd.TxPool.AppendToTxPool(tx); err != nil {
		k.c.Inc("honest_rejected:" + kind)
		k.c.Case(fmt.Sprintf("%d:%s:%s:%s:%d:rej", k.c.Shard, k.eraName, subj, kind, k.nd.Height()), false)
		k.trace("HONEST REJECT %s %s: %v", subj, kind, err)
		if k.noteBudget[kind] < 2 {
			k.noteBudget[kind]++
			k.c.Note("%s h=%d %s: mempool rejected honest %s: %v", k.eraName, k.nd.Height()+1, subj, kind, err)
		}
		return false
	}
	k.pend = append(k.pend, tx)
	k.c.Inc("accepted:" + kind)
	k.c.Case(fmt.Sprintf("%d:%s:%s:%s:%d", k.c.Shard, k.eraName, subj, kind, k.nd.Height()), true)
	k.trace("pool accepted %s %s %s", subj, kind, tx.Hash().String()[:12])
	return true
}

func (k *c28) facts() c28BlockFacts {
	return c28BlockFacts{v2Active: k.nd.Arbiters.GetDPoSV2ActiveHeight()}
}

func (k *c28) mine() bool {
	if k.fatal {
		return false
	}
	pend := k.pend
	k.pend = nil
	f := k.facts()
	b, err := k.nd.MineTipDPoS(pend...)
	if err != nil {
		k.c.Inconclusive("%s: mining height %d failed: %v", k.eraName, k.nd.Height()+1, err)
		k.trace("MINE FAILED: %v", err)
		k.fatal = true
		return false
	}
	k.afterBlock(b, f)
	return true
}

func (k *c28) afterBlock(b *types.Block, f c28BlockFacts) {
	k.c.Inc("blocks")
	if k.nd.NeedsConfirm(b.Height) {
		k.c.Inc("blocks_confirmed")
	}
	if k.trf != nil {
		line := fmt.Sprintf("BLOCK %d:", b.Height)
		for _, tx := range b.Transactions[1:] {
			line += " " + tx.TxType().Name()
		}
		fmt.Fprintln(k.trf, line)
		arbs := ""
		for _, a := range k.nd.Arbiters.GetArbitrators() {
			arbs += fmt.Sprintf(" %x/%v", a.NodePublicKey[1:4], a.IsNormal)
		}
		fmt.Fprintf(k.trf, "   pow=%v arbs=%d [%s] v2active=%d\n", k.nd.InPOWMode(), len(k.nd.Arbiters.GetArbitrators()), arbs, k.nd.Arbiters.GetDPoSV2ActiveHeight())
	}
	pre := map[string]int64{}
	for id, p := range k.m.prods {
		pre[id] = p.lock
	}
	k.m.apply(b, f)
	// committee change (input to the model)
	if lh := k.nd.Committee.LastCommitteeHeight; lh != k.lastCommitteeHeight {
		k.lastCommitteeHeight = lh
		members := map[string]bool{}
		for _, mb := range k.nd.Committee.GetAllMembersCopy() {
			members[hex.EncodeToString(mb.Info.CID.Bytes())] = true
		}
		k.m.election(b.Height, func(cid string) bool { return members[cid] })
		k.c.Inc("committee_changes")
	}
	for id, p := range k.m.prods {
		if l0, ok := pre[id]; ok && p.lock < l0 {
			switch {
			case b.Height == f.v2Active:
				k.c.Inc("lock_released:v2-activation")
			case p.cancelH != 0 && b.Height-p.cancelH == k.m.lockup:
				k.c.Inc("lock_released:lockup")
			default:
				k.c.Inc("lock_released:stake-until")
			}
		}
	}
	k.oracle(b)
	for _, p := range k.prods {
		p.busy = false
	}
	for _, p := range k.crs {
		p.busy = false
	}
	for _, p := range k.stakers {
		p.busy = false
	}
}

func (k *c28) nameOf(ownerHex string) string {
	for _, p := range k.prods {
		if p.ownerHex == ownerHex {
			return "(" + p.name + ")"
		}
	}
	for i, a := range k.baseOwners {
		if node.PubHex(a) == ownerHex {
			return fmt.Sprintf("(P%d)", i)
		}
	}
	for i, a := range k.v2Owners {
		if node.PubHex(a) == ownerHex {
			return fmt.Sprintf("(V%d)", i)
		}
	}
	return ""
}

func (k *c28) violate(sig, detail string, cas interface{}) {
	k.trace("VIOLATION %s: %s", sig, detail)
	k.c.Violate(sig, detail, cas)
}

// diff reports a node-vs-model difference. unsafe = the node's value would
// allow taking out more than the model permits.
func (k *c28) diff(field, who string, nodeV, modelV int64, nodeHigherIsUnsafe bool, h uint32) {
	if nodeV == modelV {
		return
	}
	unsafe := (nodeV > modelV) == nodeHigherIsUnsafe
	cas := map[string]interface{}{"era": k.eraName, "height": h, "subject": who, "field": field, "node": nodeV, "model": modelV}
	if unsafe {
		k.violate("model-diff:"+field, fmt.Sprintf("%s h=%d %s: node %s=%d, model=%d (node is more permissive)", k.eraName, h, who, field, nodeV, modelV), cas)
	} else {
		k.c.Inc("conservative_diff:" + field)
		if k.noted[field+who] {
			return
		}
		k.noted[field+who] = true
		k.trace("conservative diff %s %s node=%d model=%d", field, who, nodeV, modelV)
		k.c.Note("%s h=%d %s: node %s=%d, model=%d (node is stricter than the model; not an over-draw)", k.eraName, h, who, field, nodeV, modelV)
	}
}

func (k *c28) oracle(b *types.Block) {
	h := b.Height
	st := k.nd.Chain.GetState()
	// ---- producers ----
	seenProd := map[string]int{}
	for _, np := range st.GetAllProducers() {
		np := np
		id := hex.EncodeToString(np.OwnerPublicKey())
		who := "producer:" + id[:10] + k.nameOf(id)
		if k.tainted["producer:"+id] {
			k.c.Inc("tainted_skips")
			continue
		}
		tot, lock, pen := int64(np.TotalAmount()), int64(np.DepositAmount()), int64(np.Penalty())
		cas := map[string]interface{}{"era": k.eraName, "height": h, "producer": id, "total": tot, "deposit": lock, "penalty": pen, "state": np.State().String(), "identity": int(np.Identity())}
		if tot < 0 {
			k.violate("invariant:producer-total-negative", fmt.Sprintf("%s h=%d %s TotalAmount=%d", k.eraName, h, who, tot), cas)
		}
		if lock < 0 {
			cas["listed_times_by_GetAllProducers"] = seenProd[id] + 1
			k.violate("invariant:producer-deposit-amount-negative", fmt.Sprintf("%s h=%d %s DepositAmount=%d", k.eraName, h, who, lock), cas)
			k.tainted["producer:"+id] = true
			continue
		}
		seenProd[id]++
		if seenProd[id] > 1 {
			k.c.Inc("producer_listed_twice")
			continue
		}
		if pen < 0 {
			k.violate("invariant:producer-penalty-negative", fmt.Sprintf("%s h=%d %s Penalty=%d", k.eraName, h, who, pen), cas)
		}
		if tot-lock < 0 && lock >= 0 {
			k.violate("invariant:producer-total-below-lock", fmt.Sprintf("%s h=%d %s TotalAmount=%d < required DepositAmount=%d", k.eraName, h, who, tot, lock), cas)
		}
		k.c.Inc("invariant_checks:producer")
		mp := k.m.prods[id]
		if mp == nil {
			continue
		}
		// punishments observed (input), amounts from the configuration
		ns := np.State().String()
		if ns != mp.lastState {
			if np.State() == state.Inactive && np.InactiveSince() == h && h >= k.era.ChangeCommitteeNewCR {
				mp.penalty += c28InactivePenalty
				k.c.Inc("penalties_applied")
				k.c.Inc("penalties_applied:inactive")
			}
			mp.lastState = ns
		}
		if np.State() == state.Illegal && np.IllegalHeight() == h {
			switch {
			case h >= k.nd.Arbiters.GetDPoSV2ActiveHeight():
				mp.penalty += c28V2IllegalPenalty
			case h >= k.era.ChangeCommitteeNewCR:
				mp.penalty += c28IllegalPenalty
			}
			k.c.Inc("penalties_applied")
			k.c.Inc("penalties_applied:illegal")
		}
		k.c.Inc("model_compares:producer")
		k.diff("producer-total", who, tot, mp.total(k.m), true, h)
		k.diff("producer-deposit-lock", who, lock, mp.lock, false, h)
		k.diff("producer-penalty", who, pen, mp.penalty, false, h)
		if mp.blkReturnTxs > 0 {
			// (3) after a block with returns the address must still hold lock + penalty (penalty as before the block)
			left := mp.total(k.m) - mp.lock - mp.blkPenalty0
			if mp.blkPenalty0 > 0 {
				k.c.Inc("returns_with_penalty")
			}
			if left < 0 {
				path := "single"
				if mp.blkReturnTxs > 1 {
					path = "same-block-multi"
				}
				k.violate("overdraw:return-deposit-accepted:chain:"+path, fmt.Sprintf("%s h=%d %s: %d return tx(s) took %d out; deposit address now holds %d < lock %d + penalty %d",
					k.eraName, h, who, mp.blkReturnTxs, mp.blkReturnNet, mp.total(k.m), mp.lock, mp.blkPenalty0), cas)
				k.tainted["producer:"+id] = true
			}
		}
	}
	// ---- CR candidates / members ----
	for _, mc := range k.m.sortedCRs() {
		cidb, _ := hex.DecodeString(mc.id)
		cid, _ := common.Uint168FromBytes(cidb)
		who := "cr:" + mc.id[:10]
		if k.tainted["cr:"+mc.id] {
			k.c.Inc("tainted_skips")
			continue
		}
		if !k.nd.Committee.Exist(*cid) {
			k.violate("model-diff:cr-unknown", fmt.Sprintf("%s h=%d %s registered on chain but unknown to the committee", k.eraName, h, who), nil)
			continue
		}
		avail, pen, lock, tot, err := k.nd.Committee.GetDepositAmountByID(*cid)
		if err != nil {
			// members are looked up by DID
			av := k.nd.Committee.GetAvailableDepositAmount(*cid)
			pen = k.nd.Committee.GetPenalty(*cid)
			tot = k.nd.Committee.GetState().GetTotalAmount(*cid)
			lock = k.nd.Committee.GetState().GetDepositAmount(*cid)
			avail = av
		}
		cas := map[string]interface{}{"era": k.eraName, "height": h, "cid": mc.id, "total": int64(tot), "deposit": int64(lock), "penalty": int64(pen), "available": int64(avail)}
		if tot < 0 {
			k.violate("invariant:cr-total-negative", fmt.Sprintf("%s h=%d %s TotalAmount=%d", k.eraName, h, who, tot), cas)
		}
		if lock < 0 {
			k.violate("invariant:cr-deposit-amount-negative", fmt.Sprintf("%s h=%d %s DepositAmount=%d", k.eraName, h, who, lock), cas)
			k.tainted["cr:"+mc.id] = true
			continue
		}
		if pen < 0 {
			k.violate("invariant:cr-penalty-negative", fmt.Sprintf("%s h=%d %s Penalty=%d", k.eraName, h, who, pen), cas)
		}
		if tot-lock < 0 && lock >= 0 {
			k.violate("invariant:cr-total-below-lock", fmt.Sprintf("%s h=%d %s TotalAmount=%d < required DepositAmount=%d", k.eraName, h, who, tot, lock), cas)
		}
		if int64(avail) != int64(tot)-int64(lock)-int64(pen) {
			k.violate("invariant:cr-available-inconsistent", fmt.Sprintf("%s h=%d %s available=%d != total-lock-penalty", k.eraName, h, who, avail), cas)
		}
		k.c.Inc("invariant_checks:cr")
		// CR penalties are mirrored (floating point in the repo); sign + monotonicity only
		if int64(pen) < mc.penalty {
			k.violate("invariant:cr-penalty-decreased", fmt.Sprintf("%s h=%d %s penalty %d -> %d", k.eraName, h, who, mc.penalty, pen), cas)
		}
		if int64(pen) > mc.penalty {
			k.c.Inc("penalties_applied:cr")
			mc.penalty = int64(pen)
		}
		k.c.Inc("model_compares:cr")
		k.diff("cr-total", who, int64(tot), mc.total(k.m), true, h)
		k.diff("cr-deposit-lock", who, int64(lock), mc.lock, false, h)
		if mc.blkReturnTxs > 0 {
			left := mc.total(k.m) - mc.lock - mc.blkPenalty0
			if left < 0 {
				path := "single"
				if mc.blkReturnTxs > 1 {
					path = "same-block-multi"
				}
				k.violate("overdraw:return-cr-deposit-accepted:chain:"+path, fmt.Sprintf("%s h=%d %s: %d return tx(s) took %d out; deposit address now holds %d < lock %d + penalty %d",
					k.eraName, h, who, mc.blkReturnTxs, mc.blkReturnNet, mc.total(k.m), mc.lock, mc.blkPenalty0), cas)
				k.tainted["cr:"+mc.id] = true
			}
		}
	}
	// ---- vote rights ----
	if h < k.nd.Cfg.DPoSV2StartHeight {
		return
	}
	seen := map[common.Uint168]bool{}
	check := func(a common.Uint168) {
		if seen[a] {
			return
		}
		seen[a] = true
		ad, _ := a.ToAddress()
		who := "stake:" + ad
		if k.tainted["stake:"+ad] {
			k.c.Inc("tainted_skips")
			return
		}
		rights, used := int64(st.DposV2VoteRights[a]), int64(st.UsedDposV2Votes[a])
		var detailed int64
		nd := 0
		for _, dv := range st.GetDetailedDPoSV2Votes(&a) {
			for _, i := range dv.Info {
				detailed += int64(i.Votes)
				nd++
			}
		}
		cas := map[string]interface{}{"era": k.eraName, "height": h, "stake": ad, "rights": rights, "used": used, "detailed_votes_sum": detailed}
		if rights < 0 {
			k.violate("invariant:vote-rights-negative", fmt.Sprintf("%s h=%d %s DposV2VoteRights=%d", k.eraName, h, who, rights), cas)
		}
		if used < 0 {
			k.violate("invariant:used-votes-negative", fmt.Sprintf("%s h=%d %s UsedDposV2Votes=%d", k.eraName, h, who, used), cas)
		}
		if used > rights {
			k.violate("invariant:used-votes-exceed-rights", fmt.Sprintf("%s h=%d %s UsedDposV2Votes=%d > DposV2VoteRights=%d", k.eraName, h, who, used, rights), cas)
			k.tainted["stake:"+ad] = true
		}
		if detailed > rights {
			k.violate("invariant:live-votes-exceed-rights", fmt.Sprintf("%s h=%d %s live DPoS v2 votes=%d > DposV2VoteRights=%d", k.eraName, h, who, detailed, rights), cas)
			k.tainted["stake:"+ad] = true
		}
		k.c.Inc("invariant_checks:stake")
		ms := k.m.stakes[a]
		if ms == nil {
			ms = &c28Stake{}
		}
		k.c.Inc("model_compares:stake")
		k.diff("vote-rights", who, rights, ms.rights, true, h)
		k.diff("used-votes", who, used, ms.used, false, h)
		k.diff("live-votes", who, detailed, ms.used, true, h)
		k.c.Max("max:live_votes_per_stake", int64(nd))
	}
	for a := range st.DposV2VoteRights {
		check(a)
	}
	for a := range st.UsedDposV2Votes {
		check(a)
	}
	for _, a := range k.m.sortedStakes() {
		check(a)
	}
}

// ---------- over-draw attempts ----------

var c28RightReason = map[string][]string{
	"return-deposit":    {"overspend deposit"},
	"return-cr-deposit": {"candidate overspend deposit"},
	"voting":            {"vote rights not enough", "has no vote rights"},
	"return-votes":      {"vote rights not enough"},
}

func c28Family(kind string) string {
	if i := strings.Index(kind, ":"); i >= 0 {
		return kind[:i]
	}
	return kind
}

// expectReject submits an over-draw transaction to the mempool and inside a
// hand-assembled confirmed block; both must refuse it.
func (k *c28) expectReject(kind, subj, taint string, tx interfaces.Transaction, cas map[string]interface{}) {
	fam := c28Family(kind)
	k.c.Inc("overdraw_attempts:" + fam)
	k.c.Inc("overdraw_attempts_kind:" + kind)
	cas["era"], cas["kind"], cas["subject"], cas["height"] = k.eraName, kind, subj, k.nd.Height()+1
	verr := k.nd.CheckTx(tx, 0)
	right := false
	if verr != nil {
		for _, s := range c28RightReason[fam] {
			if strings.Contains(verr.Error(), s) {
				right = true
			}
		}
		if right {
			k.c.Inc("overdraw_right_reason:" + fam)
		} else {
			k.c.Inc("overdraw_other_reason:" + kind)
			k.c.Note("%s h=%d %s: over-draw %s refused for another reason: %v", k.eraName, k.nd.Height()+1, subj, kind, verr)
		}
	}
	k.c.Case(fmt.Sprintf("%d:%s:%s:%s:%d:overdraw", k.c.Shard, k.eraName, subj, kind, k.nd.Height()), right || verr == nil)
	k.trace("overdraw %s %s checktx=%v", subj, kind, verr)
	// mempool
	inPool := false
	if err := k.nd.TxPool.AppendToTxPool(tx); err == nil {
		k.violate("overdraw:"+kind+"-accepted:mempool", fmt.Sprintf("%s h=%d %s: mempool accepted over-draw %s", k.eraName, k.nd.Height()+1, subj, kind), cas)
		inPool = true
	} else {
		k.c.Inc("overdraw_rejected_mempool:" + fam)
		k.c.Inc("overdraw_rejected_mempool_kind:" + kind)
	}
	// block
	accepted := k.blockAttempt(kind, subj, taint, cas, tx)
	if inPool && !accepted {
		k.c.Note("%s: over-draw tx stays in the mempool (no public eviction)", k.eraName)
	}
}

// blockAttempt assembles the next block with the pending honest txs plus txs,
// confirms it honestly and hands it to the BlockPool. Returns whether the tip moved.
func (k *c28) blockAttempt(kind, subj, taint string, cas map[string]interface{}, txs ...interfaces.Transaction) bool {
	if k.fatal {
		return false
	}
	fam := c28Family(kind)
	all := append(append([]interfaces.Transaction{}, k.pend...), txs...)
	f := k.facts()
	b, err := k.nd.AssembleTip(all...)
	if err != nil {
		k.c.Inc("overdraw_block_assemble_failed")
		k.c.Note("%s h=%d: assembling the over-draw block (%s) failed: %v", k.eraName, k.nd.Height()+1, kind, err)
		return false
	}
	tip0 := k.nd.Tip()
	perr := k.nd.ProcessConfirmed(b)
	if k.nd.Tip().IsEqual(tip0) {
		k.c.Inc("overdraw_rejected_block:" + fam)
		k.c.Inc("overdraw_rejected_block_kind:" + kind)
		if prev, ok := k.nd.Chain.LookupNodeInIndex(&b.Header.Previous); ok {
			if e := k.nd.Chain.CheckBlockContext(b, prev); e != nil {
				k.trace("block with %s refused: %v", kind, e)
			} else {
				k.trace("block with %s refused: %v (context check passes?)", kind, perr)
			}
		}
		return false
	}
	// the node connected a block containing an over-draw
	k.nd.PostBlock(b)
	k.nd.Chain.UTXOCache.CleanTxCache()
	k.nd.BlockPool.CleanFinalConfirmedBlock(b.Height)
	k.pend = nil
	if cas == nil {
		cas = map[string]interface{}{}
	}
	cas["block_height"] = b.Height
	var kinds []string
	for _, tx := range txs {
		kinds = append(kinds, tx.TxType().Name())
	}
	cas["block_txs"] = kinds
	over, post := k.postState(taint)
	cas["state_after_block"] = post
	if over {
		k.violate("overdraw:"+kind+"-accepted:block", fmt.Sprintf("%s h=%d %s: a confirmed block containing over-draw %s (%v) was connected; afterwards %v", k.eraName, b.Height, subj, kind, kinds, post), cas)
		if taint != "" {
			k.tainted[taint] = true
		}
	} else {
		k.c.Inc("overdraw_block_connected_without_overdraw:" + kind)
		k.c.Note("%s h=%d %s: block with %s connected but the balances are not overdrawn afterwards: %v", k.eraName, b.Height, subj, kind, post)
	}
	k.afterBlock(b, f)
	return true
}

// postState reads the node's balances of a subject right after a block and says whether they are overdrawn.
func (k *c28) postState(taint string) (bool, map[string]interface{}) {
	st := k.nd.Chain.GetState()
	switch {
	case strings.HasPrefix(taint, "producer:"):
		pub, _ := hex.DecodeString(taint[len("producer:"):])
		p := st.GetProducer(pub)
		if p == nil {
			return true, map[string]interface{}{"producer": "unknown"}
		}
		var utxo int64
		if addr, ok := c28DepositAddrOfPub(p.OwnerPublicKey()); ok {
			for _, u := range k.w.UTXOs(addr) {
				utxo += int64(u.Value)
			}
		}
		return p.AvailableAmount() < 0 || p.TotalAmount() < p.DepositAmount() || utxo < int64(p.DepositAmount()+p.Penalty()), map[string]interface{}{"total": int64(p.TotalAmount()), "deposit": int64(p.DepositAmount()),
			"penalty": int64(p.Penalty()), "available": int64(p.AvailableAmount()), "deposit_address_utxo_sum": utxo}
	case strings.HasPrefix(taint, "cr:"):
		b, _ := hex.DecodeString(taint[len("cr:"):])
		cid, _ := common.Uint168FromBytes(b)
		av := k.nd.Committee.GetAvailableDepositAmount(*cid)
		cs := k.nd.Committee.GetState()
		return av < 0, map[string]interface{}{"total": int64(cs.GetTotalAmount(*cid)), "deposit": int64(cs.GetDepositAmount(*cid)), "penalty": int64(k.nd.Committee.GetPenalty(*cid)), "available": int64(av)}
	case strings.HasPrefix(taint, "stake:"):
		a, err := common.Uint168FromAddress(taint[len("stake:"):])
		if err != nil {
			return true, nil
		}
		r, u := int64(st.DposV2VoteRights[*a]), int64(st.UsedDposV2Votes[*a])
		return u > r || r < 0 || u < 0, map[string]interface{}{"vote_rights": r, "used_dposv2_votes": u}
	}
	return true, nil
}

// ---------- helpers ----------

func (k *c28) feeIn(a *account.Account, min common.Fixed64) (node.UTXORef, bool) {
	return k.w.Take(a, min+node.DefaultFee)
}

func (k *c28) ela(lo, hi int) common.Fixed64 {
	// random amount in [lo, hi] ELA with a random sela fraction
	v := int64(lo)*100000000 + k.r.Int63n(int64(hi-lo)*100000000+1)
	return common.Fixed64(v)
}

func (k *c28) runTo(h uint32) bool {
	for k.nd.Height() < h {
		if !k.step() {
			return false
		}
	}
	return true
}

func (k *c28) runN(n int) bool { return k.runTo(k.nd.Height() + uint32(n)) }

// step = subjects act, then one block.
func (k *c28) step() bool {
	if k.fatal {
		return false
	}
	if k.subjectsOn {
		k.actSubjects()
	}
	if k.fatal {
		return false
	}
	return k.mine()
}

func (k *c28) baseSubmit(kind string, tx interfaces.Transaction) bool {
	if err := k.nd.TxPool.AppendToTxPool(tx); err != nil {
		k.c.Inconclusive("%s h=%d: base script: mempool rejected %s: %v", k.eraName, k.nd.Height()+1, kind, err)
		k.fatal = true
		return false
	}
	k.pend = append(k.pend, tx)
	return true
}

func (k *c28) mustTake(a *account.Account, min common.Fixed64) node.UTXORef {
	r, ok := k.w.Take(a, min+node.DefaultFee)
	if !ok {
		panic(fmt.Sprintf("no spendable utxo >= %d for %s at height %d", int64(min), a.Address, k.nd.Height()))
	}
	return r
}

// ---------- the history ----------

const (
	c28NBase   = 7 // base producers (3 elected + 3 candidates + 1)
	c28NBaseCR = 5
	c28NSubjP  = 8
	c28NSubjCR = 4
	c28NStaker = 6
	c28NSubjV2 = 4
)

func (k *c28) script() {
	nd, e := k.nd, k.era
	// ---- accounts + funding ----
	var idx []int
	for i := 0; i < c28NBase; i++ {
		k.baseOwners = append(k.baseOwners, node.Key(node.KeyProducerOwner+i))
		k.baseNodes = append(k.baseNodes, node.Key(node.KeyProducerNode+i))
		idx = append(idx, node.KeyProducerOwner+i)
	}
	for i := 0; i < c28NBaseCR; i++ {
		k.baseCRs = append(k.baseCRs, node.Key(node.KeyCR+i))
		k.baseCRNodes = append(k.baseCRNodes, node.Key(node.KeyCRNode+i))
		idx = append(idx, node.KeyCR+i)
	}
	for i := 0; i < 6; i++ {
		k.voters = append(k.voters, node.Key(node.KeyVoter+i))
		idx = append(idx, node.KeyVoter+i)
	}
	for i := 0; i < c28NSubjP+c28NSubjV2; i++ {
		idx = append(idx, node.KeyProducerOwner+30+i)
	}
	for i := 0; i < c28NSubjCR; i++ {
		idx = append(idx, node.KeyCR+20+i)
	}
	for i := 0; i < c28NStaker; i++ {
		idx = append(idx, node.KeyVoter+20+i)
	}
	if _, err := nd.Fund(idx, 10, node.ELA(6000)); err != nil {
		k.c.Inconclusive("%s: fund: %v", k.eraName, err)
		return
	}
	k.w = nd.Wallet()
	// blocks mined by Fund are fed to the model here (nothing of interest in them)
	for h := uint32(1); h <= nd.Height(); h++ {
		hash, _ := nd.Chain.GetBlockHash(h)
		b, err := nd.Chain.GetBlockByHash(hash)
		if err != nil {
			k.c.Inconclusive("%s: reading block %d: %v", k.eraName, h, err)
			return
		}
		k.m.apply(b, c28BlockFacts{v2Active: math.MaxUint32})
	}
	for i := 0; i < c28NSubjP; i++ {
		role := ""
		if k.v2 {
			role = []string{"", "", "", "cancel-when-activating", "upgrade-v1v2", "upgrade-v1v2", "cancel-at-activation", "v1-until-activation"}[i%8]
		} else if i == 3 {
			role = "cancel-when-activating"
		}
		k.prods = append(k.prods, &c28Prod{name: fmt.Sprintf("S%d", i), owner: node.Key(node.KeyProducerOwner + 30 + i), nodeKey: node.Key(node.KeyProducerNode + 30 + i), role: role})
	}
	for i := 0; i < c28NSubjV2; i++ {
		k.prods = append(k.prods, &c28Prod{name: fmt.Sprintf("T%d", i), owner: node.Key(node.KeyProducerOwner + 30 + c28NSubjP + i), nodeKey: node.Key(node.KeyProducerNode + 30 + c28NSubjP + i), wantV2: true})
	}
	for i := 0; i < c28NSubjCR; i++ {
		k.crs = append(k.crs, &c28CR{name: fmt.Sprintf("X%d", i), acc: node.Key(node.KeyCR + 20 + i)})
	}
	for i := 0; i < c28NStaker; i++ {
		a := node.Key(node.KeyVoter + 20 + i)
		k.stakers = append(k.stakers, &c28Staker{name: fmt.Sprintf("K%d", i), acc: a, addr: node.StakeAddr(a)})
	}
	for _, p := range k.prods {
		p.ownerHex = node.PubHex(p.owner)
		p.addr = node.DepositAddr(p.owner)
	}
	for _, c := range k.crs {
		c.cid = node.CIDOf(c.acc)
		c.cidHex = hex.EncodeToString(c.cid.Bytes())
		c.addr = node.CRDepositAddr(c.acc)
	}

	// ---- DPoS v1 producers ----
	if !k.runTo(e.VoteStart) {
		return
	}
	for i := range k.baseOwners {
		if !k.baseSubmit("RegisterProducer", node.RegisterProducer(k.mustTake(k.baseOwners[i], node.ELA(5000)), k.baseOwners[i], k.baseNodes[i], fmt.Sprintf("producer-%d", i), node.ELA(5000))) {
			return
		}
	}
	if !k.mine() {
		return
	}
	k.subjectsOn = true
	if !k.runN(6) {
		return
	}
	var pubs [][]byte
	for _, a := range k.baseOwners {
		pubs = append(pubs, node.Pub(a))
	}
	if !k.baseSubmit("VoteProducers", node.VoteProducers(k.mustTake(k.voters[0], node.ELA(3000)), node.ELA(3000), pubs...)) {
		return
	}
	if !k.runTo(e.PublicDPOS + 1) {
		return
	}
	if got := len(nd.Arbiters.GetArbitrators()); got != e.CRCArbiters+e.NormalArbiters {
		k.c.Inconclusive("%s: %d arbiters after PublicDPOSHeight, want %d", k.eraName, got, e.CRCArbiters+e.NormalArbiters)
		return
	}
	k.c.Inc("era_reached:public-dpos")

	// ---- CR committee ----
	if !k.runTo(e.CRVotingStart) {
		return
	}
	for i, cr := range k.baseCRs {
		if !k.baseSubmit("RegisterCR", node.RegisterCR(k.mustTake(cr, node.ELA(5000)), cr, fmt.Sprintf("cr-%d", i), node.ELA(5000))) {
			return
		}
	}
	if !k.baseSubmit("fund-cr-assets", node.BuildTx(node.TxSpec{Type: common2.TransferAsset, Payload: &payload.TransferAsset{}, Ins: []node.UTXORef{k.mustTake(k.voters[2], node.ELA(5000))},
		Outs: []*common2.Output{node.StdOut(*nd.Cfg.CRConfiguration.CRAssetsProgramHash, node.ELA(5000))}})) {
		return
	}
	if !k.runN(7) {
		return
	}
	votes := map[common.Uint168]common.Fixed64{}
	for i, cr := range k.baseCRs {
		votes[node.CIDOf(cr)] = node.ELA(int64(500 - 20*i))
	}
	if !k.baseSubmit("VoteCRs", node.VoteCRs(k.mustTake(k.voters[1], node.ELA(5500)), node.ELA(5500), votes)) {
		return
	}
	if !k.runTo(e.CRCommitteeStart + 2) {
		return
	}
	if !nd.Committee.IsInElectionPeriod() {
		k.c.Inconclusive("%s: committee not elected at height %d", k.eraName, nd.Height())
		return
	}
	k.c.Inc("era_reached:cr-committee")
	var members []int
	for i, cr := range k.baseCRs {
		if m := nd.Committee.GetMember(node.DIDOf(cr)); m != nil {
			members = append(members, i)
		}
	}
	// the base candidate that lost the election becomes a subject (its 5000 ELA were released by the election)
	for i, cr := range k.baseCRs {
		if nd.Committee.GetMember(node.DIDOf(cr)) == nil {
			cid := node.CIDOf(cr)
			k.crs = append(k.crs, &c28CR{name: fmt.Sprintf("C%d", i), acc: cr, cid: cid, cidHex: hex.EncodeToString(cid.Bytes()), addr: node.CRDepositAddr(cr), registered: true, lost: true})
		}
	}

	// ---- members claim their DPoS nodes ----
	if !k.runTo(e.CRClaimDPOSNodeStart) {
		return
	}
	for _, i := range members {
		if !k.baseSubmit("CRCouncilMemberClaimNode", node.CRCouncilMemberClaimNode(k.mustTake(k.baseCRs[i], node.ELA(1)), k.baseCRs[i], k.baseCRNodes[i], payload.CurrentCRClaimDPoSNodeVersion)) {
			return
		}
	}
	if !k.runTo(e.ChangeCommitteeNewCR + 2) {
		return
	}

	// ---- inactive penalty: one elected base producer goes offline ----
	k.penaltyScript()
	if k.fatal {
		return
	}

	if !k.v2 {
		k.runTo(e.ChangeCommitteeNewCR + uint32(k.c.N(75, 110)))
		return
	}

	// ---- DPoS v2 ----
	if !k.runTo(e.DPoSV2Start) {
		return
	}
	nV2 := e.NormalArbiters*3/2 + 2
	stakeUntil := nd.Height() + 300000
	payer := k.voters[5]
	for i := 0; i < nV2; i++ {
		ow, nk := node.Key(node.KeyProducerOwner+c28NBase+i), node.Key(node.KeyProducerNode+c28NBase+i)
		k.v2Owners = append(k.v2Owners, ow)
		k.v2Nodes = append(k.v2Nodes, nk)
		if !k.baseSubmit("RegisterProducerV2", node.RegisterProducerV2(k.mustTake(payer, node.ELA(2000)), ow, nk, fmt.Sprintf("producer-v2-%d", i), node.ELA(2000), stakeUntil)) {
			return
		}
	}
	baseStaker := k.voters[4]
	if !k.baseSubmit("ExchangeVotes", node.ExchangeVotes(k.mustTake(baseStaker, node.ELA(5000)), node.ELA(5000))) {
		return
	}
	if !k.runN(7) {
		return
	}
	lock := nd.Height() + 1 + 10*e.V2VoteLock
	var vs []node.V2Vote
	for _, ow := range k.v2Owners {
		vs = append(vs, node.V2Vote{OwnerPub: node.Pub(ow), Votes: node.ELA(4800 / int64(nV2)), LockTime: lock})
	}
	if !k.baseSubmit("Voting", node.Voting(k.mustTake(baseStaker, node.ELA(1)), node.V2Votes(vs...))) {
		return
	}
	for i := 0; i < 8*(e.CRCArbiters+e.NormalArbiters) && nd.Arbiters.GetDPoSV2ActiveHeight() == math.MaxUint32; i++ {
		if !k.step() {
			return
		}
	}
	act := nd.Arbiters.GetDPoSV2ActiveHeight()
	if act == math.MaxUint32 {
		k.c.Inconclusive("%s: DPoSV2ActiveHeight not set by height %d (%d effective v2 producers)", k.eraName, nd.Height(), len(nd.Chain.GetState().DposV2EffectedProducers))
		return
	}
	k.trace("DPoSV2ActiveHeight = %d", act)
	if !k.runTo(act + 2) {
		return
	}
	if !nd.InPOWMode() {
		k.c.Inc("era_reached:dposv2-active")
	}
	// DPoSV2IllegalPenalty: one elected v2 producer signs two proposals for the same height
	if k.runN(3) {
		for i, nk := range k.v2Nodes {
			if k.isArbiter(nk) {
				if tx := k.illegalProposalTx(nk); k.submitHonest("IllegalProposalEvidence-v2", tx, fmt.Sprintf("V%d", i)) {
					k.mine()
				}
				break
			}
		}
	}
	// tail: expiry of votes, StakeUntil of the subjects, returns after the activation release
	k.runTo(act + uint32(k.c.N(50, 80)))
}

// penaltyScript drives one elected base producer Inactive (penalty), then hands
// it over to the subject scheduler (it will top up / activate / cancel / return).
func (k *c28) penaltyScript() {
	nd := k.nd
	arbs := nd.Arbiters.GetArbitrators()
	var offs []int
	for i := 0; i < c28NBase && len(offs) < 2; i++ {
		for _, a := range arbs {
			if string(a.NodePublicKey) == string(node.Pub(k.baseNodes[i])) {
				offs = append(offs, i)
			}
		}
	}
	if len(offs) == 0 {
		k.c.Note("%s: no base producer among the arbiters at height %d", k.eraName, nd.Height())
		return
	}
	if len(offs) == 2 {
		// the second elected producer is punished for signing two proposals (IllegalPenalty)
		ill := offs[1]
		offs = offs[:1]
		if k.submitHonest("IllegalProposalEvidence", k.illegalProposalTx(k.baseNodes[ill]), fmt.Sprintf("P%d", ill)) {
			if !k.mine() {
				return
			}
			if p := nd.Chain.GetState().GetProducer(node.Pub(k.baseOwners[ill])); p != nil && p.State() == state.Illegal {
				k.c.Inc("producer_became_illegal")
				sp := &c28Prod{name: fmt.Sprintf("P%d", ill), owner: k.baseOwners[ill], nodeKey: k.baseNodes[ill], registered: true, penalised: true}
				sp.ownerHex = node.PubHex(sp.owner)
				sp.addr = node.DepositAddr(sp.owner)
				k.prods = append(k.prods, sp)
			}
		}
	}
	for _, off := range offs {
		nd.SetOffline(false, k.baseNodes[off])
	}
	became := map[int]bool{}
	for j := 0; j < 100 && len(became) < len(offs); j++ {
		if !k.step() {
			return
		}
		for _, off := range offs {
			if p := nd.Chain.GetState().GetProducer(node.Pub(k.baseOwners[off])); p != nil && p.State() == state.Inactive && !became[off] {
				became[off] = true
				nd.SetOffline(true, k.baseNodes[off])
				k.c.Inc("producer_became_inactive")
				p := &c28Prod{name: fmt.Sprintf("P%d", off), owner: k.baseOwners[off], nodeKey: k.baseNodes[off], registered: true, penalised: true}
				p.ownerHex = node.PubHex(p.owner)
				p.addr = node.DepositAddr(p.owner)
				k.prods = append(k.prods, p)
			}
		}
	}
	for _, off := range offs {
		nd.SetOffline(true, k.baseNodes[off])
		if !became[off] {
			k.c.Note("%s: base producer %d did not become inactive", k.eraName, off)
		}
	}
}

func (k *c28) isArbiter(nodeKey *account.Account) bool {
	for _, a := range k.nd.Arbiters.GetArbitrators() {
		if bytes.Equal(a.NodePublicKey, node.Pub(nodeKey)) {
			return true
		}
	}
	return false
}

// illegalProposalTx: evidence that the arbiter with this node key signed two
// different proposals for the height of the current tip.
func (k *c28) illegalProposalTx(nodeKey *account.Account) interfaces.Transaction {
	tip := k.nd.TipBlock()
	mk := func(d uint32) payload.ProposalEvidence {
		h := tip.Header
		h.Nonce += d
		buf := new(bytes.Buffer)
		h.Serialize(buf)
		prop := payload.DPOSProposal{Sponsor: node.Pub(nodeKey), BlockHash: h.Hash(), ViewOffset: 0}
		prop.Sign = node.DetSign(nodeKey, prop.Data())
		return payload.ProposalEvidence{Proposal: prop, BlockHeader: buf.Bytes(), BlockHeight: h.Height}
	}
	e1, e2 := mk(1), mk(2)
	if e1.Proposal.Hash().Compare(e2.Proposal.Hash()) > 0 {
		e1, e2 = e2, e1
	}
	return functions.CreateTransaction(common2.TxVersion09, common2.IllegalProposalEvidence, payload.IllegalProposalVersion,
		&payload.DPOSIllegalProposals{Evidence: e1, CompareEvidence: e2}, []*common2.Attribute{}, []*common2.Input{}, []*common2.Output{}, 0, []*pg.Program{})
}

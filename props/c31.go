package props

import (
	"fmt"
	"math"
	"math/rand"
	"sort"
	"strings"
	"time"

	"github.com/elastos/Elastos.ELA/common"
	"github.com/elastos/Elastos.ELA/common/config"
	"github.com/elastos/Elastos.ELA/core"
	"github.com/elastos/Elastos.ELA/core/contract"
	pg "github.com/elastos/Elastos.ELA/core/contract/program"
	"github.com/elastos/Elastos.ELA/core/transaction"
	common2 "github.com/elastos/Elastos.ELA/core/types/common"
	"github.com/elastos/Elastos.ELA/core/types/functions"
	"github.com/elastos/Elastos.ELA/core/types/interfaces"
	"github.com/elastos/Elastos.ELA/core/types/outputpayload"
	"github.com/elastos/Elastos.ELA/core/types/payload"
	elaerr "github.com/elastos/Elastos.ELA/errors"

	"verif/kit"
	"verif/kit/node"
)

// C31 — cross-chain UTXO spending follows the emergency policy.
//
// A1: table model of the policy (derived from the property statement) against
//     the real helper checkTransactionCrossChainUTXO (build-tagged export):
//     every constructible tx type x payload version x reference mix x height
//     band x threshold pair, plus seeded random cases.
// A2: the same model against DefaultChecker.ContextCheck on a live node
//     (planted references and real X-prefixed UTXOs), and end to end through
//     the mempool and ProcessBlock while the chain is mined across both
//     thresholds; a recorded-history scan of the node's chain closes it.
// B : SetupConfig in a fresh sub-process per configuration file (c31_config.go).

func init() {
	kit.Register(&kit.Spec{
		ID:       "C31",
		Rule:     "A1: all tx types accepted by transaction.GetTransaction x payload versions {0..4,0xff} x 20 reference-prefix mixes (none / only X / X+standard / X+multisig / X+deposit / X+other, 0-6 refs) x heights {0,F-1,F,F+1,R-1,R,R+1,max} x 9 (F,R) pairs incl. mainnet constants, F==R, both disabled, plus seeded random tuples; A2: the same tuples at the node's own (F,R) through BlockChain.CheckTransactionContext with references planted in the UTXO cache or real mined X-address outputs, then per mined height X-spending / mixed / honest transfers through AppendToTxPool and ProcessBlock; B: generated config.json (36 ActiveNet spellings x 12 override kinds + seeded mutations) through Settings.SetupConfig in a fresh sub-process. distinct = distinct input tuple / file; non-trivial = the tx references at least one X-prefixed output at a height where the policy is active (A) / the file overrides a policy field or uses a non-canonical name (B)",
		Shards:   func(tier string) int { return 8 },
		TimeoutS: func(tier string) int { return 2400 }, // sub-process spawning is slow on a loaded box; firing = inconclusive
		Run:      runC31,
		Require: []string{"A1_helper_calls", "A1_must_reject_checked", "A1_must_allow_checked", "A1_types_covered", "A1_window_rejects", "A1_restricted_rejects", "A1_withdraw_allowed", "A1_return_allowed",
			"A2_ctx_calls", "A2_ctx_policy_stage_reached", "A2_ctx_policy_rejects", "A2_ctx_passed_policy", "A2_real_utxo_ctx_calls", "A2_pool_submissions", "A2_block_submissions", "A2_pool_policy_rejects", "A2_block_policy_rejects",
			"A2_prefreeze_passed_policy", "A2_honest_accepted", "A2_history_scans", "A2_x_utxos_mined",
			"B_configs_run", "B_mainnet_identity_checked", "B_other_identity_checked", "B_mainnet_constants_held", "B_other_disabled_held", "B_mainnet_identity_with_height_override", "B_own_magic_unknown_name_checked", "B_own_magic_disabled_held"},
		Assumptions: []string{
			"statement reading: a supported-version side-chain withdrawal may mix X and other inputs (no verdict either way); 'spending only cross-chain UTXOs' binds the legacy deposit return",
			"threshold pairs with freeze > restriction are outside the statement (SetupConfig can never produce them, checked in B): observed, not judged",
			"network identity = (p2p magic, genesis block hash, foundation address); files that override these identity fields themselves are recorded but not judged",
			"pre-freeze and post-restriction acceptance of bridge transactions is observed up to the policy stage only (valid arbiter multi-signatures are not forged); end-to-end acceptance is shown with honest standard transfers",
		},
	})
}

const (
	pfxX   = byte(contract.PrefixCrossChain)
	pfxStd = byte(contract.PrefixStandard)
	pfxMS  = byte(contract.PrefixMultiSig)
	pfxDep = byte(contract.PrefixDeposit)
)

// ---- the table model (from the property statement; imports nothing of the policy code) ----

type polVerdict int

const (
	polFree polVerdict = iota
	polMustAllow
	polMustReject
)

const (
	txTypeWithdrawFromSideChain      = 0x07
	txTypeReturnSideChainDepositCoin = 0x51
)

// modelCrossChain returns the verdict and a stable class name.
func modelCrossChain(txType, payloadVersion byte, prefixes []byte, h, freeze, restriction uint32) (polVerdict, string) {
	hasX, allX := false, true
	for _, p := range prefixes {
		if p == pfxX {
			hasX = true
		} else {
			allX = false
		}
	}
	if !hasX {
		return polMustAllow, "no-crosschain-input"
	}
	if freeze > restriction {
		return polFree, "inverted-thresholds"
	}
	if h < freeze {
		return polMustAllow, "before-freeze"
	}
	if h < restriction {
		return polMustReject, "freeze-window"
	}
	switch txType {
	case txTypeWithdrawFromSideChain:
		if payloadVersion > 2 {
			return polMustReject, "withdraw-unsupported-version"
		}
		if allX {
			return polMustAllow, "withdraw-supported"
		}
		return polFree, "withdraw-supported-mixed-inputs"
	case txTypeReturnSideChainDepositCoin:
		if payloadVersion != 0 {
			return polMustReject, "return-nonlegacy"
		}
		if !allX {
			return polMustReject, "return-mixed-inputs"
		}
		return polMustAllow, "return-legacy-only-x"
	}
	return polMustReject, "other-type"
}

// ---- case construction ----

func c31TxTypes() []byte {
	var ts []byte
	for t := 0; t < 256; t++ {
		if _, err := transaction.GetTransaction(common2.TxType(t)); err == nil {
			ts = append(ts, byte(t))
		}
	}
	return ts
}

var c31Versions = []byte{0, 1, 2, 3, 4, 0xff}

var c31Mixes = [][]byte{
	{}, {pfxStd}, {pfxStd, pfxStd}, {pfxDep}, {pfxMS}, {pfxStd, pfxDep},
	{pfxX}, {pfxX, pfxX}, {pfxX, pfxX, pfxX},
	{pfxX, pfxStd}, {pfxStd, pfxX}, {pfxX, pfxStd, pfxX}, {pfxX, pfxMS}, {pfxStd, pfxStd, pfxStd, pfxStd, pfxStd, pfxX},
	{pfxX, pfxDep}, {pfxDep, pfxX},
	{pfxX, 0x67}, {pfxX, 0x3f}, {pfxX, 0x00}, {0x4a, 0x4c},
}

func c31Heights(f, r uint32) []uint32 {
	set := map[uint32]bool{0: true, math.MaxUint32: true, f: true, r: true}
	if f > 0 {
		set[f-1] = true
	}
	if f < math.MaxUint32 {
		set[f+1] = true
	}
	if r > 0 {
		set[r-1] = true
	}
	if r < math.MaxUint32 {
		set[r+1] = true
	}
	if r > f {
		set[f+(r-f)/2] = true
	}
	var hs []uint32
	for h := range set {
		hs = append(hs, h)
	}
	sort.Slice(hs, func(i, j int) bool { return hs[i] < hs[j] })
	return hs
}

// mkPolicyTx builds a transaction of the given type/payload version.
func mkPolicyTx(t, pv byte, inputs []*common2.Input, outputs []*common2.Output) interfaces.Transaction {
	pl, _ := interfaces.GetPayload(common2.TxType(t), pv)
	return functions.CreateTransaction(common2.TxVersion09, common2.TxType(t), pv, pl, []*common2.Attribute{}, inputs, outputs, 0, []*pg.Program{})
}

func randHash168(r *rand.Rand, prefix byte) common.Uint168 {
	var u common.Uint168
	r.Read(u[:])
	u[0] = prefix
	return u
}

func randHash256(r *rand.Rand) common.Uint256 {
	var u common.Uint256
	r.Read(u[:])
	return u
}

// mkRefsByPrefix builds inputs and a reference map with the given owner prefixes.
func mkRefsByPrefix(r *rand.Rand, prefixes []byte) ([]*common2.Input, map[*common2.Input]common2.Output) {
	refs := map[*common2.Input]common2.Output{}
	var ins []*common2.Input
	for i, p := range prefixes {
		in := &common2.Input{Previous: common2.OutPoint{TxID: randHash256(r), Index: uint16(i)}}
		ins = append(ins, in)
		refs[in] = common2.Output{AssetID: core.ELAAssetID, Value: 100000000, ProgramHash: randHash168(r, p), Type: common2.OTNone, Payload: &outputpayload.DefaultOutput{}}
	}
	return ins, refs
}

func stdOutput(to common.Uint168, v common.Fixed64) *common2.Output {
	return &common2.Output{AssetID: core.ELAAssetID, Value: v, ProgramHash: to, Type: common2.OTNone, Payload: &outputpayload.DefaultOutput{}}
}

type c31State struct {
	c          *kit.Ctx
	policyMsgs map[string]bool // every distinct rejection text of the helper (attribution only)
	types      map[byte]bool
	sampled    int
}

// judgeHelper calls the real helper and compares with the model.
func (s *c31State) judgeHelper(t, pv byte, prefixes []byte, tx interfaces.Transaction, refs map[*common2.Input]common2.Output, h, f, r uint32) {
	c := s.c
	var err error
	p, pval, _ := kit.Guard(func() { err = transaction.VerifCheckTransactionCrossChainUTXO(tx, refs, h, f, r) })
	c.Inc("A1_helper_calls")
	want, class := modelCrossChain(t, pv, prefixes, h, f, r)
	c.Case(fmt.Sprintf("A1:%02x:%02x:%x:%d:%d:%d", t, pv, prefixes, h, f, r), want == polMustReject || (want == polMustAllow && class != "no-crosschain-input" && class != "before-freeze"))
	cas := map[string]interface{}{"type": common2.TxType(t).Name(), "type_byte": t, "payload_version": pv, "ref_prefixes": fmt.Sprintf("%x", prefixes), "height": h, "freeze": f, "restriction": r, "class": class}
	if p {
		c.Violate("panic:checkTransactionCrossChainUTXO", fmt.Sprintf("helper panicked: %v (%v)", pval, cas), cas)
		return
	}
	s.types[t] = true
	if err != nil {
		s.policyMsgs[err.Error()] = true
	}
	if s.sampled < 1 && want == polMustReject && s.c.Shard == 0 && t == 0x02 {
		s.sampled++
		cas2 := map[string]interface{}{"kind": "A1", "helper_error": fmt.Sprint(err)}
		for k, v := range cas {
			cas2[k] = v
		}
		c.Sample(cas2)
	}
	switch want {
	case polMustReject:
		c.Inc("A1_must_reject_checked")
		if class == "freeze-window" {
			c.Inc("A1_window_rejects")
		} else {
			c.Inc("A1_restricted_rejects")
		}
		if err == nil {
			sig := "policy:restricted-spend-allowed:" + class
			if class == "freeze-window" {
				sig = "policy:freeze-window-spend-allowed"
			}
			c.Violate(sig, fmt.Sprintf("checkTransactionCrossChainUTXO returned nil for %v", cas), cas)
		}
	case polMustAllow:
		c.Inc("A1_must_allow_checked")
		switch class {
		case "withdraw-supported":
			c.Inc("A1_withdraw_allowed")
		case "return-legacy-only-x":
			c.Inc("A1_return_allowed")
		}
		if err != nil {
			c.Violate("policy:rejects-permitted:"+class, fmt.Sprintf("checkTransactionCrossChainUTXO returned %q for %v", err, cas), cas)
		}
	default:
		c.Inc("A1_unjudged:" + class)
	}
}

var c31Pairs = [][2]uint32{
	{100, 200}, {100, 101}, {100, 100}, {0, 0}, {0, 1}, {1, 1},
	{2256110, 2256724}, // the coordinated mainnet constants
	{math.MaxUint32, math.MaxUint32}, {math.MaxUint32 - 1, math.MaxUint32},
	{200, 100}, // inverted: observed only
}

func runC31(c *kit.Ctx) {
	node.InitGlobals(c.WorkDir)
	t0 := time.Now()
	r := c.Rand("c31")
	s := &c31State{c: c, policyMsgs: map[string]bool{}, types: map[byte]bool{}}
	types := c31TxTypes()

	// ---------- A1: exhaustive table (types split over shards) ----------
	for ti, t := range types {
		if ti%c.Shards != c.Shard {
			continue
		}
		for _, pv := range c31Versions {
			for _, mix := range c31Mixes {
				for _, pr := range c31Pairs {
					for _, h := range c31Heights(pr[0], pr[1]) {
						ins, refs := mkRefsByPrefix(r, mix)
						tx := mkPolicyTx(t, pv, ins, []*common2.Output{stdOutput(randHash168(r, pfxStd), 1)})
						s.judgeHelper(t, pv, mix, tx, refs, h, pr[0], pr[1])
					}
				}
			}
		}
	}
	// seeded random tuples
	pfxPool := []byte{pfxX, pfxX, pfxX, pfxStd, pfxStd, pfxMS, pfxDep, 0x67, 0x3f, 0x00, 0x4a, 0x4c}
	for i, n := 0, c.N(20000, 200000); i < n; i++ {
		t := types[r.Intn(len(types))]
		switch r.Intn(5) {
		case 0:
			t = txTypeWithdrawFromSideChain
		case 1:
			t = txTypeReturnSideChainDepositCoin
		}
		pv := byte(r.Intn(6))
		if r.Intn(6) == 0 {
			pv = byte(r.Intn(256))
		}
		mix := make([]byte, r.Intn(7))
		for j := range mix {
			mix[j] = pfxPool[r.Intn(len(pfxPool))]
			if r.Intn(20) == 0 {
				mix[j] = byte(r.Intn(256))
			}
		}
		var f, rr uint32
		switch r.Intn(4) {
		case 0:
			f = r.Uint32() >> uint(r.Intn(32))
			rr = f + r.Uint32()>>uint(8+r.Intn(24))
			if rr < f {
				rr = math.MaxUint32
			}
		case 1:
			f, rr = config.MainNetCrossChainUTXOFreezeHeight, config.MainNetCrossChainUTXORestrictionHeight
		case 2:
			f = uint32(r.Intn(1000))
			rr = f + uint32(r.Intn(3))
		default:
			f, rr = math.MaxUint32, math.MaxUint32
		}
		hs := c31Heights(f, rr)
		h := hs[r.Intn(len(hs))]
		if r.Intn(4) == 0 {
			h = r.Uint32() >> uint(r.Intn(32))
		}
		ins, refs := mkRefsByPrefix(r, mix)
		tx := mkPolicyTx(t, pv, ins, []*common2.Output{stdOutput(randHash168(r, pfxStd), 1)})
		s.judgeHelper(t, pv, mix, tx, refs, h, f, rr)
	}
	c.Count("A1_types_covered", int64(len(s.types)))
	c.Max("max:A1_tx_types_constructible", int64(len(types)))
	c.Max("max:A1_distinct_policy_messages", int64(len(s.policyMsgs)))

	t1 := time.Now()
	c.Max("max:info_wall_ms_A1", t1.Sub(t0).Milliseconds()) // informational only, never part of a verdict

	// ---------- A2: live node ----------
	runC31Live(c, s, types)
	t2 := time.Now()
	c.Max("max:info_wall_ms_A2", t2.Sub(t1).Milliseconds())

	// ---------- B: configuration ----------
	runConfigPart(c, "C31")
	c.Max("max:info_wall_ms_B", time.Since(t2).Milliseconds())
}

// ---- A2 ----

type xUTXO struct {
	ref    node.UTXORef
	script []byte
	owner  common.Uint168
}

func isPolicyErr(s *c31State, err elaerr.ELAError) bool {
	if err == nil || err.Code() != elaerr.ErrTxInvalidInput || err.InnerError() == nil {
		return false
	}
	return s.policyMsgs[err.InnerError().Error()]
}

// stageBeforePolicy: the ContextCheck stages that run before the policy check.
func stageBeforePolicy(err elaerr.ELAError) bool {
	if err == nil {
		return false
	}
	switch err.Code() {
	case elaerr.ErrTxHeightVersion, elaerr.ErrTxDuplicate, elaerr.ErrTxUnknownReferredTx:
		return true
	}
	return false
}

func runC31Live(c *kit.Ctx, s *c31State, types []byte) {
	r := c.Rand("c31-live")
	F := uint32(8 + r.Intn(3))
	R := F + 2 + uint32(r.Intn(3))
	nd, err := node.Start(node.Options{Dir: c.WorkDir, CoinbaseMaturity: 2, Tweak: func(cfg *config.Configuration) {
		cfg.CrossChainUTXOFreezeHeight = F
		cfg.CrossChainUTXORestrictionHeight = R
	}})
	if err != nil {
		c.Inconclusive("node start: %v", err)
		return
	}
	defer nd.Close()
	if nd.Cfg.CrossChainUTXOFreezeHeight != F || nd.Cfg.CrossChainUTXORestrictionHeight != R {
		c.Inconclusive("node thresholds not applied")
		return
	}
	if err := nd.MineN(3); err != nil {
		c.Inconclusive("mining: %v", err)
		return
	}
	// fund: X-address outputs + standard outputs
	g := nd.GenesisUTXO()
	const nX, nStd = 40, 60
	per := common.Fixed64(10 * 1e8)
	var outs []node.Out
	var xs []*xUTXO
	for i := 0; i < nX; i++ {
		script := contract.CreateCrossChainRedeemScript(randHash256(r))
		ph := common.ToProgramHash(pfxX, script)
		xs = append(xs, &xUTXO{script: script, owner: *ph})
		outs = append(outs, node.Out{To: *ph, Value: per})
	}
	for i := 0; i < nStd; i++ {
		outs = append(outs, node.Out{To: node.Key(2 + i%2).ProgramHash, Value: per})
	}
	outs = append(outs, node.Out{To: nd.Found.ProgramHash, Value: g.Value - per*common.Fixed64(len(outs)) - 1000})
	fund := node.Transfer([]node.UTXORef{g}, outs, common2.TxVersion09)
	if e := nd.TxPool.AppendToTxPool(fund); e != nil {
		c.Inconclusive("funding tx (pays to X addresses before the freeze) rejected: %v", e)
		return
	}
	if _, e := nd.MineTip(fund); e != nil {
		c.Inconclusive("funding block rejected: %v", e)
		return
	}
	for i, x := range xs {
		x.ref = node.UTXORef{TxID: fund.Hash(), Index: uint16(i), Value: per}
	}
	c.Count("A2_x_utxos_mined", nX)
	var stds []node.UTXORef
	for i := 0; i < nStd; i++ {
		stds = append(stds, node.UTXORef{TxID: fund.Hash(), Index: uint16(nX + i), Value: per, Owner: node.Key(2 + i%2)})
	}
	xi, si := 0, 0
	takeX := func() *xUTXO {
		if xi >= len(xs) {
			return nil
		}
		xi++
		return xs[xi-1]
	}
	takeS := func() *node.UTXORef {
		if si >= len(stds) {
			return nil
		}
		si++
		return &stds[si-1]
	}

	// --- (i) ContextCheck sweep at the node's own thresholds ---
	ctxCheck := func(kind string, t, pv byte, prefixes []byte, tx interfaces.Transaction, refs map[*common2.Input]common2.Output, h uint32) {
		var cerr elaerr.ELAError
		p, _, _ := kit.Guard(func() { _, cerr = nd.Chain.CheckTransactionContext(h, tx, 0, 0) })
		c.Inc("A2_ctx_calls")
		if kind == "real" {
			c.Inc("A2_real_utxo_ctx_calls")
		}
		want, class := modelCrossChain(t, pv, prefixes, h, F, R)
		c.Case(fmt.Sprintf("A2:%s:%02x:%02x:%x:%d:%d:%d", kind, t, pv, prefixes, h, F, R), want == polMustReject)
		cas := map[string]interface{}{"path": "ContextCheck/" + kind, "type": common2.TxType(t).Name(), "payload_version": pv, "ref_prefixes": fmt.Sprintf("%x", prefixes), "height": h, "freeze": F, "restriction": R, "class": class}
		if p {
			// a panic is a rejection of the transaction by the caller's recover at
			// best; it is some other property's business. It is never an accept.
			c.Inc("A2_ctx_panicked")
			return
		}
		early := stageBeforePolicy(cerr)
		pol := isPolicyErr(s, cerr)
		if early {
			c.Inc("A2_ctx_stopped_before_policy")
		} else {
			c.Inc("A2_ctx_policy_stage_reached")
			if pol {
				c.Inc("A2_ctx_policy_rejects")
			} else {
				c.Inc("A2_ctx_passed_policy")
			}
			// wiring: ContextCheck must hand the helper exactly (tx, references, height, configured thresholds)
			herr := transaction.VerifCheckTransactionCrossChainUTXO(tx, refs, h, F, R)
			if (herr != nil) != pol {
				c.Violate("contextcheck:differs-from-helper", fmt.Sprintf("ContextCheck policy rejection=%v (err %v) but helper on the same inputs says %v: %v", pol, cerr, herr, cas), cas)
			}
		}
		switch want {
		case polMustReject:
			if cerr == nil {
				c.Violate("contextcheck:must-reject-accepted:"+class, fmt.Sprintf("ContextCheck returned nil for %v", cas), cas)
			}
		case polMustAllow:
			if pol {
				c.Violate("contextcheck:policy-rejects-permitted:"+class, fmt.Sprintf("ContextCheck policy stage rejected (%v) %v", cerr.InnerError(), cas), cas)
			}
		}
	}
	hs := c31Heights(F, R)
	for ti, t := range types {
		if common2.TxType(t) == common2.CoinBase {
			continue // coinbase has its own ContextCheck and no inputs to reference
		}
		key := common2.TxType(t) == common2.WithdrawFromSideChain || common2.TxType(t) == common2.ReturnSideChainDepositCoin || common2.TxType(t) == common2.TransferAsset
		for vi, pv := range c31Versions {
			for mi, mix := range c31Mixes {
				if len(mix) == 0 {
					continue
				}
				// the bridge types and TransferAsset: the full grid on every shard.
				// other types: every shard sees every type; in the quick tier the
				// (version, mix) grid of a type is spread over the shards
				if !key && c.Quick() && (ti+vi+mi)%c.Shards != c.Shard {
					continue
				}
				for _, h := range hs {
					ins, refs := mkRefsByPrefix(r, mix)
					for in, o := range refs {
						oc := o
						nd.Chain.UTXOCache.InsertReference(in, &oc)
					}
					tx := mkPolicyTx(t, pv, ins, []*common2.Output{stdOutput(node.Key(2).ProgramHash, 1)})
					ctxCheck("planted", t, pv, mix, tx, refs, h)
				}
			}
		}
	}
	// real mined X outputs (not consumed: ContextCheck does not spend)
	for _, t := range []byte{0x02, txTypeWithdrawFromSideChain, txTypeReturnSideChainDepositCoin, 0x08, 0x03} {
		for _, pv := range c31Versions {
			for _, h := range hs {
				for _, mixed := range []bool{false, true} {
					x := xs[r.Intn(len(xs))]
					ins := []*common2.Input{{Previous: common2.OutPoint{TxID: x.ref.TxID, Index: x.ref.Index}}}
					refs := map[*common2.Input]common2.Output{ins[0]: *fund.Outputs()[x.ref.Index]}
					mix := []byte{pfxX}
					if mixed {
						sref := stds[r.Intn(len(stds))]
						in2 := &common2.Input{Previous: common2.OutPoint{TxID: sref.TxID, Index: sref.Index}}
						ins = append(ins, in2)
						refs[in2] = *fund.Outputs()[sref.Index]
						mix = []byte{pfxX, pfxStd}
					}
					tx := mkPolicyTx(t, pv, ins, []*common2.Output{stdOutput(node.Key(2).ProgramHash, per-1000)})
					ctxCheck("real", t, pv, mix, tx, refs, h)
				}
			}
		}
	}

	// --- (ii) end to end while the chain crosses both thresholds ---
	fee := common.Fixed64(1000)
	bogus := func(x *xUTXO) *pg.Program {
		return &pg.Program{Code: x.script, Parameter: append([]byte{0x40}, make([]byte, 64)...)}
	}
	buildX := func(x *xUTXO, withStd *node.UTXORef, t byte, pv byte) interfaces.Transaction {
		ins := []*common2.Input{{Previous: common2.OutPoint{TxID: x.ref.TxID, Index: x.ref.Index}}}
		total := x.ref.Value
		if withStd != nil {
			ins = append(ins, &common2.Input{Previous: common2.OutPoint{TxID: withStd.TxID, Index: withStd.Index}})
			total += withStd.Value
		}
		pl, _ := interfaces.GetPayload(common2.TxType(t), pv)
		if t == 0x02 {
			pl = &payload.TransferAsset{}
		}
		tx := functions.CreateTransaction(common2.TxVersion09, common2.TxType(t), pv, pl, []*common2.Attribute{}, ins,
			[]*common2.Output{stdOutput(node.Key(3).ProgramHash, total-fee)}, 0, []*pg.Program{})
		if withStd != nil {
			node.SignStd(tx, withStd.Owner)
			tx.SetPrograms(append(tx.Programs(), bogus(x)))
		} else {
			tx.SetPrograms([]*pg.Program{bogus(x)})
		}
		return tx
	}
	lastH := R + 2
	for nd.Height()+1 <= lastH {
		t := nd.Height() + 1 // height the next block / a pool tx is validated at
		type attempt struct {
			kind string
			tx   interfaces.Transaction
			typ  byte
			pv   byte
			mix  []byte
		}
		var atts []attempt
		if x := takeX(); x != nil {
			atts = append(atts, attempt{"transfer-only-x", buildX(x, nil, 0x02, 0), 0x02, 0, []byte{pfxX}})
		}
		if x, sr := takeX(), takeS(); x != nil && sr != nil {
			atts = append(atts, attempt{"transfer-x-plus-standard", buildX(x, sr, 0x02, 0), 0x02, 0, []byte{pfxX, pfxStd}})
		}
		if x := takeX(); x != nil && t >= F {
			// a withdrawal of an unsupported payload version
			atts = append(atts, attempt{"withdraw-v-unsupported", buildX(x, nil, txTypeWithdrawFromSideChain, 3), txTypeWithdrawFromSideChain, 3, []byte{pfxX}})
		}
		for _, a := range atts {
			want, class := modelCrossChain(a.typ, a.pv, a.mix, t, F, R)
			cas := map[string]interface{}{"kind": a.kind, "height": t, "freeze": F, "restriction": R, "class": class}
			c.Begin("A2 e2e %s at height %d (F=%d R=%d)", a.kind, t, F, R)
			// mempool
			c.Inc("A2_pool_submissions")
			c.Case(fmt.Sprintf("A2:e2e:pool:%s:%d:%d:%d", a.kind, t, F, R), want == polMustReject)
			perr := nd.TxPool.AppendToTxPool(a.tx)
			if perr == nil {
				nd.TxPool.RemoveTransaction(a.tx)
			}
			if want == polMustReject {
				if perr == nil {
					c.Violate("live:x-spend-accepted:mempool", fmt.Sprintf("AppendToTxPool accepted %v", cas), cas)
				} else if isPolicyErr(s, perr) {
					c.Inc("A2_pool_policy_rejects")
				} else {
					c.Inc("A2_pool_rejected_elsewhere")
				}
			} else if want == polMustAllow {
				if isPolicyErr(s, perr) {
					c.Violate("live:policy-rejects-permitted:mempool", fmt.Sprintf("AppendToTxPool policy rejection %v for %v", perr.InnerError(), cas), cas)
				} else if perr != nil {
					c.Inc("A2_prefreeze_passed_policy") // stopped later (forged signature), as expected
				}
			}
			// block
			c.Inc("A2_block_submissions")
			c.Case(fmt.Sprintf("A2:e2e:block:%s:%d:%d:%d", a.kind, t, F, R), want == polMustReject)
			blk, aerr := nd.Assemble(node.BlockSpec{Txs: []interfaces.Transaction{a.tx}, Fees: fee})
			if aerr != nil {
				c.Note("assemble failed: %v", aerr)
				continue
			}
			h0 := nd.Height()
			_, _, berr := nd.Process(blk)
			accepted := nd.Height() == h0+1 && nd.Tip().IsEqual(blk.Hash())
			if accepted {
				nd.PostBlock(blk)
			}
			if c.Shard == 0 && a.kind == "transfer-only-x" && (t == F || t == F-1) {
				c.Sample(map[string]interface{}{"kind": "A2-e2e", "attempt": a.kind, "height": t, "freeze": F, "restriction": R, "pool_error": fmt.Sprint(perr), "block_error": errChain(berr), "block_accepted": accepted})
			}
			if want == polMustReject {
				if accepted {
					c.Violate("live:x-spend-accepted:block", fmt.Sprintf("ProcessBlock connected a block at height %d containing %v", t, cas), cas)
				} else if berr != nil && containsAny(errChain(berr), s.policyMsgs) {
					c.Inc("A2_block_policy_rejects")
				} else {
					c.Inc("A2_block_rejected_elsewhere")
				}
			} else if want == polMustAllow && berr != nil && containsAny(errChain(berr), s.policyMsgs) {
				c.Violate("live:policy-rejects-permitted:block", fmt.Sprintf("ProcessBlock policy rejection %v for %v", berr, cas), cas)
			}
			if accepted {
				break // the height moved; rebuild attempts for the next height
			}
		}
		if nd.Height()+1 != t {
			continue
		}
		// honest standard transfer: accepted by the pool and mined (positive control) — advances the chain
		sr := takeS()
		if sr == nil {
			c.Inconclusive("ran out of standard UTXOs")
			return
		}
		honest := node.Transfer([]node.UTXORef{*sr}, []node.Out{{To: node.Key(4).ProgramHash, Value: sr.Value - fee}}, common2.TxVersion09)
		if e := nd.TxPool.AppendToTxPool(honest); e != nil {
			c.Violate("live:honest-rejected", fmt.Sprintf("honest standard transfer rejected by the pool at height %d (F=%d R=%d): %v", t, F, R, e), nil)
			if nd.MineN(1) != nil {
				return
			}
			continue
		}
		if _, e := nd.MineTip(honest); e != nil {
			c.Violate("live:honest-rejected", fmt.Sprintf("block with an honest standard transfer rejected at height %d (F=%d R=%d): %v", t, F, R, e), nil)
			nd.TxPool.RemoveTransaction(honest)
			if nd.MineN(1) != nil {
				return
			}
			continue
		}
		c.Inc("A2_honest_accepted")
	}
	c.Max("max:A2_final_height", int64(nd.Height()))

	// --- (iii) recorded history: no X output is consumed at height >= F by anything the policy forbids ---
	l := nd.Replay()
	c.Inc("A2_history_scans")
	owner := map[node.OutKey]common.Uint168{}
	for _, b := range l.Blocks {
		for _, tx := range b.Transactions {
			for i, o := range tx.Outputs() {
				owner[node.OutKey{TxID: tx.Hash(), Index: uint16(i)}] = o.ProgramHash
			}
		}
	}
	for _, b := range l.Blocks {
		for _, tx := range b.Transactions {
			if tx.IsCoinBaseTx() {
				continue
			}
			var mix []byte
			for _, in := range tx.Inputs() {
				mix = append(mix, owner[node.OutKey{TxID: in.Previous.TxID, Index: in.Previous.Index}][0])
			}
			c.Inc("A2_history_txs_scanned")
			if want, class := modelCrossChain(byte(tx.TxType()), tx.PayloadVersion(), mix, b.Height, F, R); want == polMustReject {
				c.Violate("history:x-spend-in-chain", fmt.Sprintf("block %d of the node's chain contains tx %s (%s) spending an X output; class %s F=%d R=%d", b.Height, tx.Hash(), tx.TxType().Name(), class, F, R), nil)
			}
		}
	}
}

// errChain flattens an error and all its ELAError inner errors (the outer
// Error() of a wrapped block error shows only its own message).
func errChain(err error) string {
	var parts []string
	for i := 0; err != nil && i < 8; i++ {
		parts = append(parts, err.Error())
		ee, ok := err.(elaerr.ELAError)
		if !ok {
			break
		}
		err = ee.InnerError()
	}
	return strings.Join(parts, " <- ")
}

func containsAny(s string, set map[string]bool) bool {
	for m := range set {
		if strings.Contains(s, m) {
			return true
		}
	}
	return false
}

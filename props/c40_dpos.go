package props

import (
	"encoding/json"
	"fmt"
	"math"
	"runtime"
	"sort"
	"sync"
	"sync/atomic"

	"github.com/elastos/Elastos.ELA/account"
	"github.com/elastos/Elastos.ELA/common"
	"github.com/elastos/Elastos.ELA/common/config"
	"github.com/elastos/Elastos.ELA/core/types/interfaces"
	"github.com/elastos/Elastos.ELA/core/types/payload"
	"github.com/elastos/Elastos.ELA/servers"
	serrors "github.com/elastos/Elastos.ELA/servers/errors"

	"verif/kit"
	"verif/kit/node"
)

// C40 — DPoS / CR era storms.
//
// Shards whose era (c40EraOf) is "dpos-era" or "dposv2-era" bootstrap a
// compressed-era chain (node.Bootstrap: producers elected, CR committee in
// office with claimed nodes; dposv2: two blocks past DPoSV2ActiveHeight), the
// producer role mines through MineTipDPoS (node-generated txs + confirms), and
// the roles below join the storm:
//
//   - dpos-submit (3 goroutines): pre-signed producer / vote / CR / proposal /
//     stake / Voting / ReturnVotes / reward-claim transactions to AppendToTxPool,
//     whose SpecialContextCheck reads DPoS and CR state while blocks change it;
//   - dpos-rpc (3 goroutines): the DPoS / CR servers handlers with
//     internal-consistency invariants on every single response.
//
// All transactions are built and signed before the storm (single threaded):
// the kit wallet is not meant for concurrent use and the storm time is spent
// in the node, not in the harness.

type c40Job struct {
	kind string
	tx   interfaces.Transaction
}

type c40DposPlan struct {
	era       string
	boot      *node.Boot
	lists     [][]c40Job
	proposals []common.Uint256
	stakers   []*account.Account
	owners    []*account.Account
}

var c40Plan *c40DposPlan
var c40Quiescent bool
var (
	c40DupMu        sync.Mutex
	c40DupStorm     = map[string]string{}
	c40DupQuiescent = map[string]bool{}
)

func init() {
	c40EraOf = func(c *kit.Ctx) (era string, cross720 bool) {
		if c.Quick() {
			// quick: one shard per chain kind; the 720-block checkpoint save is crossed on
			// the pow shards and (cost under -race permitting) on shard 3 in the DPoS v1 era
			switch c.Shard % 4 {
			case 1:
				return "dpos-era", false
			case 2:
				return "dposv2-era", false
			case 3:
				return "dpos-era", c40Cross720Quick
			}
			return "", true
		}
		switch c.Shard % 6 {
		case 1, 4:
			return "dpos-era", c.Shard%6 == 4
		case 2:
			return "dposv2-era", false
		case 5:
			return "dposv2-era", true
		}
		return "", true
	}
	c40EraTweak = func(era string) func(cfg *config.Configuration) {
		return func(cfg *config.Configuration) {
			node.EraTweak(era)(cfg)
			cfg.CRConfiguration.DutyPeriod = 1000000                      // the first committee stays in office
			cfg.CRConfiguration.CRCProposalDraftDataStartHeight = 1000000 // proposal payload v0 throughout (txs are pre-signed)
		}
	}
	c40Prepare = append(c40Prepare, c40PrepareDpos)
	c40Extra = append(c40Extra, c40DposRoles)
	c40AfterStorm = append(c40AfterStorm, func(c *kit.Ctx, nd *node.Node) {
		// the same response invariants once more with nothing else running: a failure
		// here is a state defect, a failure only during the storm a torn read
		if c40Plan == nil {
			return
		}
		c40Quiescent = true
		for _, q := range c40DposQueries(c, nd, c40Plan) {
			for n := 0; n < 8; n++ {
				q.f(n)
			}
		}
		c.Inc("quiescent_response_checks")
		var owners []string
		for o := range c40DupStorm {
			owners = append(owners, o)
		}
		sort.Strings(owners)
		for _, o := range owners {
			if !c40DupQuiescent[o] {
				c.Inc("torn_response|listproducers:duplicate-owner")
				c.Violate("inconsistent-response:family:torn-read-during-block-processing", "listproducers:duplicate-owner: "+c40DupStorm[o], nil)
			}
		}
	})
}

// c40Cross720Quick: a DPoS-era chain of 720+ blocks under -race costs about as
// much as the rest of the quick run (measured, see report); quick keeps it on.
var c40Cross720Quick = true

func c40PrepareDpos(c *kit.Ctx, nd *node.Node) {
	b := c40Boot
	if b == nil {
		return
	}
	w := nd.Wallet()
	p := &c40DposPlan{era: b.Era.Name, boot: b}
	v2 := b.Era.DPoSV2Start != math.MaxUint32 && nd.Arbiters.GetDPoSV2ActiveHeight() != math.MaxUint32
	fee := func(a *account.Account) (node.UTXORef, bool) { return w.Take(a, node.ELA(1)+node.DefaultFee) }
	h := nd.Height()
	rounds := c.N(4, 10)
	var prod, votes, cr []c40Job
	add := func(l *[]c40Job, kind string, tx interfaces.Transaction) { *l = append(*l, c40Job{kind, tx}) }

	// ---- producers: updates of the registered ones, new registrations, later cancellations, activation requests
	type reg struct{ o, n *account.Account }
	var regs []reg
	owners := append([]*account.Account{}, b.Owners...)
	nodes := append([]*account.Account{}, b.Nodes...)
	stakeUntil := uint32(0)
	if v2 {
		owners, nodes = append(owners, b.V2Owners...), append(nodes, b.V2Nodes...)
		stakeUntil = h + 300000
	}
	p.owners = owners
	for i := 0; i < 4; i++ {
		o, n := node.Key(node.KeyProducerOwner+40+i), node.Key(node.KeyProducerNode+40+i)
		payer := b.Voters[i%len(b.Voters)]
		if v2 {
			if in, ok := w.Take(payer, node.ELA(2000)+node.DefaultFee); ok {
				add(&prod, "RegisterProducer", node.RegisterProducerV2(in, o, n, fmt.Sprintf("storm-%d", i), node.ELA(2000), stakeUntil))
			}
		} else if in, ok := w.Take(payer, node.ELA(5000)+node.DefaultFee); ok {
			add(&prod, "RegisterProducer", node.RegisterProducer(in, o, n, fmt.Sprintf("storm-%d", i), node.ELA(5000)))
			regs = append(regs, reg{o, n})
		}
	}
	for rd := 0; rd < rounds; rd++ {
		for j, o := range owners {
			in, ok := fee(o)
			if !ok {
				continue
			}
			su := uint32(0)
			if j >= len(b.Owners) { // DPoS v2 producer: keep its stake
				if pr := nd.Chain.GetState().GetProducer(node.Pub(o)); pr != nil {
					su = pr.Info().StakeUntil
				}
			}
			add(&prod, "UpdateProducer", node.UpdateProducer(in, o, nodes[j], fmt.Sprintf("p%d-r%d", j, rd), fmt.Sprintf("http://p%d/%d", j, rd), su))
			if (rd+j)%3 == 0 {
				add(&prod, "ActivateProducer", node.ActivateProducer(nodes[j]))
			}
		}
	}
	// (cancel requests of the storm's own v1 registrations; the payer of the fee is a voter: only the payload signature must be the owner's)
	for i, rg := range regs {
		if in, ok := fee(b.Voters[i%len(b.Voters)]); ok {
			tx := node.CancelProducer(in, rg.o)
			add(&prod, "CancelProducer", tx)
		}
	}

	// ---- votes / stake
	if !v2 {
		for rd := 0; rd < rounds*3; rd++ {
			vt := b.Voters[rd%len(b.Voters)]
			in, ok := w.Take(vt, node.ELA(20)+node.DefaultFee)
			if !ok {
				continue
			}
			var pubs [][]byte
			for j, o := range b.Owners {
				if (j+rd)%2 == 0 {
					pubs = append(pubs, node.Pub(o))
				}
			}
			add(&votes, "VoteProducers", node.VoteProducers(in, node.ELA(20), pubs...))
			if rd%4 == 3 { // CR votes outside a voting period: refused by the validators, which still read CR state
				if in2, ok := w.Take(vt, node.ELA(20)+node.DefaultFee); ok {
					add(&votes, "VoteCRs", node.VoteCRs(in2, node.ELA(20), map[common.Uint168]common.Fixed64{node.CIDOf(b.CRs[0]): node.ELA(1)}))
				}
			}
		}
	} else {
		p.stakers = []*account.Account{b.Staker, b.Voters[0], b.Voters[1]}
		lock := h + 10*b.Era.V2VoteLock
		for rd := 0; rd < rounds*3; rd++ {
			s := p.stakers[rd%len(p.stakers)]
			if in, ok := w.Take(s, node.ELA(60)+node.DefaultFee); ok {
				add(&votes, "ExchangeVotes", node.ExchangeVotes(in, node.ELA(int64(20+rd%30))))
			}
			if in, ok := fee(s); ok {
				var vs []node.V2Vote
				for j, ow := range b.V2Owners {
					if (j+rd)%2 == 0 {
						vs = append(vs, node.V2Vote{OwnerPub: node.Pub(ow), Votes: node.ELA(int64(1 + rd%3)), LockTime: lock + uint32(rd)})
					}
				}
				add(&votes, "Voting", node.Voting(in, node.V2Votes(vs...)))
			}
			if rd%3 == 2 {
				if in, ok := fee(s); ok {
					add(&votes, "ReturnVotes", node.ReturnVotes(in, node.ELA(1)))
				}
				if in, ok := fee(s); ok {
					add(&votes, "DposV2ClaimReward", node.DposV2ClaimReward(in, nd.Cfg.CRConfiguration.RealWithdrawSingleFee+common.Fixed64(1+rd)))
				}
			}
		}
	}

	// ---- CR: proposals by the council members, reviews of them, updates / registrations outside the voting period
	budgets := []payload.Budget{{Type: payload.Imprest, Stage: 0, Amount: node.ELA(1)}, {Type: payload.NormalPayment, Stage: 1, Amount: node.ELA(1)}, {Type: payload.FinalPayment, Stage: 2, Amount: node.ELA(1)}}
	owner := b.Voters[len(b.Voters)-3]
	var props []interfaces.Transaction
	for rd := 0; rd < rounds*2; rd++ {
		m := b.Members[rd%len(b.Members)]
		in, ok := fee(owner)
		if !ok {
			continue
		}
		tx := node.CRCProposalNormal(in, owner, m, []byte(fmt.Sprintf("storm-draft-%d-%d", c.Shard, rd)), budgets, owner.ProgramHash, payload.CRCProposalVersion)
		props = append(props, tx)
		p.proposals = append(p.proposals, node.ProposalHash(tx))
		add(&cr, "CRCProposal", tx)
		// reviews of the proposal submitted two rounds earlier (mined by now, most of the time)
		if rd >= 2 {
			for _, mm := range b.Members {
				if in, ok := fee(mm); ok {
					add(&cr, "CRCProposalReview", node.CRCProposalReview(in, mm, node.ProposalHash(props[rd-2]), payload.Approve, []byte("fine"), payload.CRCProposalReviewVersion))
				}
			}
		}
		if rd%3 == 1 {
			if in, ok := fee(b.CRs[rd%len(b.CRs)]); ok {
				add(&cr, "UpdateCR", node.UpdateCR(in, b.CRs[rd%len(b.CRs)], fmt.Sprintf("cr-storm-%d", rd), "http://cr"))
			}
		}
	}
	// each member claims one fresh, unique node key once (the confirm signer knows every harness key)
	for i, m := range b.Members {
		if i >= 2 {
			break
		}
		if in, ok := fee(m); ok {
			add(&cr, "CRCouncilMemberClaimNode", node.CRCouncilMemberClaimNode(in, m, node.Key(node.KeyCRNode+30+i), payload.CurrentCRClaimDPoSNodeVersion))
		}
	}
	p.lists = [][]c40Job{prod, votes, cr}
	for _, l := range p.lists {
		c.Count("dpos_jobs_prepared", int64(len(l)))
	}
	c40Plan = p
}

func c40DposRoles(c *kit.Ctx, nd *node.Node, stop *int32, wg *sync.WaitGroup, guard func(role string, f func())) {
	p := c40Plan
	if p == nil {
		return
	}
	// ---- submitters of pre-signed DPoS / CR transactions ----
	for li, l := range p.lists {
		li, l := li, l
		c40Start("dpos-submit", func() {
			for pass := 0; atomic.LoadInt32(stop) == 0 && len(l) > 0; pass++ {
				for _, j := range l {
					if atomic.LoadInt32(stop) != 0 {
						break
					}
					guard("dpos-submit:"+j.kind, func() {
						if e := nd.TxPool.AppendToTxPool(j.tx); e == nil {
							c.Inc("pool_admitted")
							c.Inc("dpos_admitted:" + j.kind)
						} else {
							c.Inc("dpos_refused:" + j.kind)
						}
						c.Inc("dpos_submissions")
						c40Op("dpos-submit", j.kind)
					})
					runtime.Gosched()
				}
				c.Inc(fmt.Sprintf("dpos_submit_passes:%d", li))
			}
		})
	}
	// ---- RPC queriers with single-response invariants ----
	qs := c40DposQueries(c, nd, p)
	for qi := 0; qi < 3; qi++ {
		qi := qi
		c40Start("dpos-rpc", func() {
			qr := c.Rand(fmt.Sprintf("dposrpc%d", qi))
			for atomic.LoadInt32(stop) == 0 {
				q := qs[qr.Intn(len(qs))]
				guard("dpos-rpc:"+q.name, func() {
					q.f(qr.Intn(1 << 20))
					c.Inc("rpc_queries")
					c.Inc("dpos_rpc_queries")
					c.Inc("rpc:" + q.name)
					c40Op("dpos-rpc", q.name)
				})
				runtime.Gosched()
			}
		})
	}
}

type c40Query struct {
	name string
	f    func(n int)
}

func c40Fixed(s string) (common.Fixed64, bool) {
	v, err := common.StringToFixed64(s)
	if err != nil {
		return 0, false
	}
	return *v, true
}

// c40JSON round-trips an RPC result into generic JSON (as a client would see it).
func c40JSON(res map[string]interface{}) (interface{}, bool) {
	if res == nil || res["Result"] == nil {
		return nil, false
	}
	if code, ok := res["Error"].(serrors.ServerErrCode); ok && code != serrors.Success {
		return nil, false
	}
	b, err := json.Marshal(res["Result"])
	if err != nil {
		return nil, false
	}
	var v interface{}
	if json.Unmarshal(b, &v) != nil {
		return nil, false
	}
	return v, true
}

func c40DposQueries(c *kit.Ctx, nd *node.Node, p *c40DposPlan) []c40Query {
	bad := func(q, what, format string, a ...interface{}) {
		if c40Quiescent {
			c.Violate("inconsistent-state-at-quiescence:"+q+":"+what, fmt.Sprintf(format, a...), nil)
			return
		}
		// during the storm a single response may be torn by the unlocked handler reads
		// (known finding, same root cause as the rpc-handler race family); the exact
		// invariant is counted, and judged exactly at quiescence (above).
		c.Inc("torn_response|" + q + ":" + what)
		c.Violate("inconsistent-response:family:torn-read-during-block-processing", q+":"+what+": "+fmt.Sprintf(format, a...)+fmt.Sprintf(" (during the storm, tip height %d)", nd.Height()), nil)
	}
	checked := func(q string) { c.Inc("response_invariants_checked:" + q) }
	listProducers := func(st string) func(int) {
		return func(int) {
			res := servers.ListProducers(servers.Params{"state": st})
			info, ok := res["Result"].(*servers.RPCProducersInfo)
			if !ok || info == nil {
				return
			}
			q := "listproducers"
			var sum common.Fixed64
			seen := map[string]bool{}
			for i, pr := range info.ProducerInfoSlice {
				v, ok := c40Fixed(pr.Votes)
				if !ok {
					bad(q, "votes-format", "producer %s has votes %q", pr.OwnerPublicKey, pr.Votes)
				}
				sum += v
				if seen[pr.OwnerPublicKey] {
					states := ""
					for _, x := range info.ProducerInfoSlice {
						if x.OwnerPublicKey == pr.OwnerPublicKey {
							states += fmt.Sprintf(" [%s %s registered %d cancelled %d inactive %d]", x.Nickname, x.State, x.RegisterHeight, x.CancelHeight, x.InactiveHeight)
						}
					}
					// a duplicate that is still there at quiescence is a state defect, one that
					// only shows during the storm a torn read: decided after the storm
					c40DupMu.Lock()
					if c40Quiescent {
						c40DupQuiescent[pr.OwnerPublicKey] = true
					} else if _, ok := c40DupStorm[pr.OwnerPublicKey]; !ok {
						c40DupStorm[pr.OwnerPublicKey] = fmt.Sprintf("state=%s: owner key %s listed twice:%s (during the storm, tip height %d)", st, pr.OwnerPublicKey, states, nd.Height())
					}
					c40DupMu.Unlock()
					if c40Quiescent {
						bad(q, "duplicate-owner", "state=%s: owner key %s listed twice:%s", st, pr.OwnerPublicKey, states)
					}
				}
				seen[pr.OwnerPublicKey] = true
				if pr.Index != uint64(i) {
					bad(q, "index", "state=%s: entry %d has index %d", st, i, pr.Index)
				}
				if pr.Active != (pr.State == "Active") {
					bad(q, "active-flag", "state=%s: producer %s active=%v state=%s", st, pr.OwnerPublicKey, pr.Active, pr.State)
				}
			}
			if tot, ok := c40Fixed(info.TotalDPoSV1Votes); !ok || tot != sum {
				bad(q, "totalvotes", "state=%s: totaldposv1votes %s != sum of the listed votes %s", st, info.TotalDPoSV1Votes, sum.String())
			}
			if info.TotalCounts != uint64(len(info.ProducerInfoSlice)) {
				bad(q, "totalcounts", "state=%s: totalcounts %d, %d producers listed", st, info.TotalCounts, len(info.ProducerInfoSlice))
			}
			checked(q)
		}
	}
	stakeAddrs := func() []interface{} {
		var l []interface{}
		accs := append([]*account.Account{}, p.boot.Voters...)
		for _, a := range accs {
			l = append(l, node.StakeAddrString(a))
		}
		return l
	}()
	qs := []c40Query{
		{"listproducers-all", listProducers("all")},
		{"listproducers-active", listProducers("active")},
		{"listproducers-default", listProducers("")},
		{"listproducers-pending", listProducers("pending")},
		{"listproducers-inactive", listProducers("inactive")},
		{"listproducers-canceled", listProducers("canceled")},
		{"listcrcandidates", func(int) {
			res := servers.ListCRCandidates(servers.Params{"state": "all"})
			info, ok := res["Result"].(*servers.RPCCRCandidatesInfo)
			if !ok || info == nil {
				return
			}
			q := "listcrcandidates"
			var sum common.Fixed64
			seen := map[string]bool{}
			for _, cd := range info.CRCandidateInfoSlice {
				v, _ := c40Fixed(cd.Votes)
				sum += v
				if seen[cd.CID] {
					bad(q, "duplicate-cid", "cid %s listed twice", cd.CID)
				}
				seen[cd.CID] = true
			}
			if tot, ok := c40Fixed(info.TotalVotes); !ok || tot != sum {
				bad(q, "totalvotes", "totalvotes %s != sum of the listed votes %s", info.TotalVotes, sum.String())
			}
			if info.TotalCounts != uint64(len(info.CRCandidateInfoSlice)) {
				bad(q, "totalcounts", "totalcounts %d, %d candidates listed", info.TotalCounts, len(info.CRCandidateInfoSlice))
			}
			checked(q)
		}},
		{"listcurrentcrs", func(int) {
			res := servers.ListCurrentCRs(servers.Params{})
			info, ok := res["Result"].(*servers.RPCCRMembersInfo)
			if !ok || info == nil {
				return
			}
			q := "listcurrentcrs"
			seen := map[string]bool{}
			for _, m := range info.CRMemberInfoSlice {
				if seen[m.DID] {
					bad(q, "duplicate-did", "member %s listed twice", m.DID)
				}
				seen[m.DID] = true
			}
			if info.TotalCounts != uint64(len(info.CRMemberInfoSlice)) {
				bad(q, "totalcounts", "totalcounts %d, %d members listed", info.TotalCounts, len(info.CRMemberInfoSlice))
			}
			if n := uint32(len(info.CRMemberInfoSlice)); n != 0 && n != nd.Cfg.CRConfiguration.MemberCount {
				bad(q, "member-count", "%d members listed, committee size is %d", n, nd.Cfg.CRConfiguration.MemberCount)
			}
			checked(q)
		}},
		{"listnextcrs", func(int) { servers.ListNextCRs(servers.Params{}) }},
		{"getarbitersinfo", func(int) {
			v, ok := c40JSON(servers.GetArbitersInfo(servers.Params{}))
			if !ok {
				return
			}
			m, _ := v.(map[string]interface{})
			q := "getarbitersinfo"
			arbs, _ := m["arbiters"].([]interface{})
			cur, _ := m["currentturnstartheight"].(float64)
			next, _ := m["nextturnstartheight"].(float64)
			if len(arbs) > 0 && int(next-cur) != len(arbs) {
				bad(q, "turn-length", "nextturnstartheight-currentturnstartheight = %d but %d arbiters are listed", int(next-cur), len(arbs))
			}
			seen := map[string]bool{}
			for _, a := range arbs {
				s, _ := a.(string)
				if s != "" && seen[s] {
					bad(q, "duplicate-arbiter", "arbiter %s listed twice", s)
				}
				seen[s] = true
			}
			if od, _ := m["ondutyarbiter"].(string); od != "" && len(arbs) > 0 && !seen[od] && !seen[""] {
				bad(q, "onduty-not-an-arbiter", "on-duty arbiter %s is not among the %d listed arbiters", od, len(arbs))
			}
			checked(q)
		}},
		{"getcrrelatedstage", func(int) {
			res := servers.GetCRRelatedStage(servers.Params{})
			st, ok := res["Result"].(*servers.RPCCRRelatedStage)
			if !ok || st == nil {
				return
			}
			q := "getcrrelatedstage"
			if st.OnDuty && st.OnDutyEndHeight < st.OnDutyStartHeight {
				bad(q, "onduty-range", "on duty from %d to %d", st.OnDutyStartHeight, st.OnDutyEndHeight)
			}
			if !st.OnDuty && (st.OnDutyStartHeight != 0 || st.OnDutyEndHeight != 0) {
				bad(q, "onduty-range", "not on duty but range %d..%d", st.OnDutyStartHeight, st.OnDutyEndHeight)
			}
			if st.InVoting && st.VotingEndHeight < st.VotingStartHeight {
				bad(q, "voting-range", "voting from %d to %d", st.VotingStartHeight, st.VotingEndHeight)
			}
			checked(q)
		}},
		{"getvoterights", func(n int) {
			v, ok := c40JSON(servers.GetVoteRights(servers.Params{"stakeaddresses": []interface{}{stakeAddrs[n%len(stakeAddrs)], stakeAddrs[(n/7)%len(stakeAddrs)]}}))
			if !ok {
				return
			}
			q := "getvoterights"
			l, _ := v.([]interface{})
			for _, e := range l {
				m, _ := e.(map[string]interface{})
				tot, _ := c40Fixed(fmt.Sprint(m["totalvotesright"]))
				rem, _ := m["remainvoteright"].([]interface{})
				for i, r := range rem {
					rv, ok := c40Fixed(fmt.Sprint(r))
					if ok && rv > tot {
						bad(q, "remain-exceeds-total", "stake address %v: remaining vote right [%d] %s > total %s", m["stakeaddress"], i, rv.String(), tot.String())
					}
				}
			}
			checked(q)
		}},
		{"getalldetaileddposv2votes", func(int) {
			v, ok := c40JSON(servers.GetAllDetailedDPoSV2Votes(servers.Params{}))
			if !ok {
				return
			}
			q := "getalldetaileddposv2votes"
			l, _ := v.([]interface{})
			seen := map[string]bool{}
			for _, e := range l {
				m, _ := e.(map[string]interface{})
				k := fmt.Sprint(m["producerownerkey"], "/", m["referkey"])
				if seen[k] {
					bad(q, "duplicate-vote", "vote %s listed twice", k)
				}
				seen[k] = true
			}
			checked(q)
		}},
		{"dposv2rewardinfo-one", func(n int) {
			v, ok := c40JSON(servers.DposV2RewardInfo(servers.Params{"address": fmt.Sprint(stakeAddrs[n%len(stakeAddrs)])}))
			if !ok {
				return
			}
			m, _ := v.(map[string]interface{})
			for _, f := range []string{"claimable", "claiming", "claimed"} {
				if x, ok := c40Fixed(fmt.Sprint(m[f])); ok && x < 0 {
					bad("dposv2rewardinfo", "negative", "%s = %s", f, x.String())
				}
			}
			checked("dposv2rewardinfo")
		}},
		{"dposv2rewardinfo-all", func(int) { servers.DposV2RewardInfo(servers.Params{}) }},
		{"getdposv2info", func(int) { servers.GetDPosV2Info(servers.Params{}) }},
		{"getdepositcoin", func(n int) {
			o := p.owners[n%len(p.owners)]
			v, ok := c40JSON(servers.GetDepositCoin(servers.Params{"ownerpublickey": node.PubHex(o)}))
			if !ok {
				return
			}
			m, _ := v.(map[string]interface{})
			for _, f := range []string{"available", "deducted", "deposit", "assets"} {
				if _, ok := c40Fixed(fmt.Sprint(m[f])); !ok {
					bad("getdepositcoin", "format", "%s = %v", f, m[f])
				}
			}
			checked("getdepositcoin")
		}},
		{"getcrdepositcoin", func(n int) {
			servers.GetCRDepositCoin(servers.Params{"id": func() string { a, _ := node.CIDOf(p.boot.CRs[n%len(p.boot.CRs)]).ToAddress(); return a }()})
		}},
		{"getcrproposalstate", func(n int) {
			if len(p.proposals) == 0 {
				return
			}
			ph := p.proposals[n%len(p.proposals)]
			res := servers.GetCRProposalState(servers.Params{"proposalhash": common.ToReversedString(ph)})
			info, ok := res["Result"].(*servers.RPCCRProposalStateInfo)
			if !ok || info == nil {
				return
			}
			q := "getcrproposalstate"
			if info.ProposalState.ProposalHash != common.ToReversedString(ph) {
				bad(q, "other-proposal", "asked for %s, got %s", common.ToReversedString(ph), info.ProposalState.ProposalHash)
			}
			if len(info.ProposalState.CRVotes) > int(nd.Cfg.CRConfiguration.MemberCount) {
				bad(q, "too-many-votes", "%d council votes", len(info.ProposalState.CRVotes))
			}
			checked(q)
		}},
		{"listcrproposalbasestate", func(int) {
			res := servers.ListCRProposalBaseState(servers.Params{"state": "all"})
			info, ok := res["Result"].(*servers.RPCCRProposalBaseStateInfo)
			if !ok || info == nil {
				return
			}
			q := "listcrproposalbasestate"
			seen := map[string]bool{}
			for _, s := range info.ProposalBaseStates {
				if seen[s.ProposalHash] {
					bad(q, "duplicate-proposal", "proposal %s listed twice", s.ProposalHash)
				}
				seen[s.ProposalHash] = true
			}
			if info.TotalCounts != uint64(len(info.ProposalBaseStates)) {
				bad(q, "totalcounts", "totalcounts %d, %d proposals listed", info.TotalCounts, len(info.ProposalBaseStates))
			}
			checked(q)
		}},
		{"producerstatus", func(n int) {
			servers.ProducerStatus(servers.Params{"publickey": node.PubHex(p.owners[n%len(p.owners)])})
		}},
		{"votestatus", func(n int) {
			servers.VoteStatus(servers.Params{"address": p.boot.Voters[n%len(p.boot.Voters)].Address})
		}},
		{"getsecretarygeneral", func(int) { servers.GetSecretaryGeneral(servers.Params{}) }},
		{"getcommitteecanuseamount", func(int) { servers.GetCommitteeCanUseAmount(servers.Params{}) }},
		{"getproducerinfo", func(n int) {
			servers.GetProducerInfo(servers.Params{"publickey": node.PubHex(p.owners[n%len(p.owners)])})
		}},
	}
	sort.SliceStable(qs, func(i, j int) bool { return qs[i].name < qs[j].name })
	return qs
}

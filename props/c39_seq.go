package props

import (
	"bytes"
	"fmt"
	"math"
	"math/rand"
	"strings"

	"github.com/elastos/Elastos.ELA/common"
	common2 "github.com/elastos/Elastos.ELA/core/types/common"
	"github.com/elastos/Elastos.ELA/core/types/interfaces"
	"github.com/elastos/Elastos.ELA/dpos/state"
	"github.com/elastos/Elastos.ELA/elanet/bloom"
	"github.com/elastos/Elastos.ELA/elanet/filter"
	"github.com/elastos/Elastos.ELA/elanet/filter/customidfilter"
	"github.com/elastos/Elastos.ELA/elanet/filter/nextturndposfilter"
	"github.com/elastos/Elastos.ELA/elanet/filter/returnsidechaindepositcoinfilter"
	"github.com/elastos/Elastos.ELA/elanet/filter/sidefilter"
	"github.com/elastos/Elastos.ELA/elanet/filter/upgradefilter"
	"github.com/elastos/Elastos.ELA/p2p/msg"

	"verif/kit"
)

// C39, sequence families (state carried by ONE filter object over many calls).
//
// L (lifecycle): one *bloom.Filter instance driven through random
//    interleavings of NewFilter / LoadFilter / Reload / Unload / Add /
//    AddHash / AddOutPoint / IsLoaded / Matches / MatchesOutPoint /
//    MatchTxAndUpdate, the reference model (refBloom, refMatchTx) replayed
//    alongside. After every state-changing call every element of the query
//    pool is looked up: whatever the model (and the bit array the node itself
//    exposes at that moment) contains must match.
// O (order): one tx set (parents paying watched program hashes, children
//    spending those outputs, grand-children, unrelated txs, txs that only
//    match after a filteradd) presented in several orders and repeatedly
//    through the objects the server uses: bloom.TxFilter, filter.Filter built
//    by the server's factory for every filter type embedding bloom.TxFilter,
//    filter.NewMerkleBlock. At each presentation the answer must be true
//    whenever the protocol model, given the filter state at that moment, matches.

// ---------------------------------------------------------------- lifecycle

type lcElem struct {
	kind int // 0 bytes, 1 hash, 2 outpoint, 3 program hash (bytes, usable as a tx output)
	data []byte
	hash common.Uint256
	op   common2.OutPoint
	ph   common.Uint168
}

func lcRandElem(r *rand.Rand, kind int) lcElem {
	e := lcElem{kind: kind}
	switch kind {
	case 0:
		e.data = c39Elem(r)
	case 1:
		r.Read(e.hash[:])
		e.data = append([]byte(nil), e.hash[:]...)
	case 2:
		e.op = randOutPoint(r)
		e.data = refOutPoint(e.op.TxID, e.op.Index)
	default:
		e.ph = randPH(r)
		e.data = append([]byte(nil), e.ph[:]...)
	}
	return e
}

type lcSeq struct {
	c *kit.Ctx
	r *rand.Rand
	f *bloom.Filter

	cur   *refBloom // model of the loaded message; nil = nothing loaded
	types []byte    // tx types of the loaded message (side-chain filters)
	pool  []lcElem  // query pool: everything ever inserted by client or node in this sequence (+ inserted outpoints)

	blank    bool   // the instance holds (or, when unloaded, last held) an all-zero bit array nothing was added to
	blankWhy string // how it got blank
	lastOp   string // last state-changing call
	trace    []string
	dead     bool
	decided  int     // must-match lookups decided by real bits
	lastPaid *lcElem // outpoint inserted by the last matching tx
	txTypes  []common2.TxType
}

func (s *lcSeq) log(format string, a ...interface{}) {
	s.trace = append(s.trace, fmt.Sprintf(format, a...))
}

func (s *lcSeq) witness() map[string]interface{} {
	w := map[string]interface{}{"ops": append([]string(nil), s.trace...)}
	if s.cur != nil {
		w["size"], w["hash_funcs"], w["tweak"] = len(s.cur.bits), s.cur.k, s.cur.tweak
	}
	return w
}

func traceDigest(trace []string) []byte {
	d := refSha256d([]byte(strings.Join(trace, "\n")))
	return d[:10]
}

func allZero(b []byte) bool {
	for _, x := range b {
		if x != 0 {
			return false
		}
	}
	return true
}

// genMsg is the reference SPV client building a filterload message.
func (s *lcSeq) genMsg(populated bool) (*refBloom, []common2.TxType, []byte) {
	r := s.r
	var size int
	switch r.Intn(10) {
	case 0:
		size = 1 + r.Intn(4)
	case 1:
		size = 16 + r.Intn(64)
	case 2:
		size = 100 + r.Intn(1900)
		if r.Intn(3) == 0 {
			size = 0
		}
	default:
		size = 100 + r.Intn(1900)
	}
	k := uint32(1 + r.Intn(20))
	if size <= 4 {
		k = uint32(1 + r.Intn(3))
	}
	if r.Intn(12) == 0 {
		k = 0
	}
	tweak := r.Uint32()
	var tts []common2.TxType
	var rts []byte
	switch r.Intn(10) {
	case 0:
		tweak = math.MaxUint32
		for _, t := range s.txTypes {
			if r.Intn(4) == 0 {
				tts = append(tts, t)
				rts = append(rts, byte(t))
			}
		}
	case 1:
		tweak = 0
	default:
		if tweak == math.MaxUint32 {
			tweak = 11
		}
	}
	ref := newRefBloom(size, k, tweak)
	if populated {
		n := 1 + r.Intn(6)
		for j := 0; j < n; j++ {
			kind := r.Intn(4)
			if j == 0 {
				kind = 3
			}
			e := lcRandElem(r, kind)
			ref.add(e.data)
			s.pool = append(s.pool, e)
		}
	}
	return ref, tts, rts
}

// wire turns the client's filter into what the node receives.
func (s *lcSeq) wire(ref *refBloom, tts []common2.TxType) *msg.FilterLoad {
	fl := &msg.FilterLoad{Filter: append([]byte(nil), ref.bits...), HashFuncs: ref.k, Tweak: ref.tweak, Flags: uint8(s.r.Intn(3)), TxTypes: tts}
	if s.r.Intn(2) == 0 {
		return fl
	}
	buf := new(bytes.Buffer)
	if err := fl.Serialize(buf); err != nil {
		return fl
	}
	var w msg.FilterLoad
	if err := w.Deserialize(bytes.NewReader(buf.Bytes())); err != nil {
		return fl
	}
	return &w
}

func (s *lcSeq) guard(op string, f func()) bool {
	p, pv, _ := kit.Guard(f)
	if p {
		sig := "panic:bloom.Filter.lifecycle:" + op
		if s.cur != nil && len(s.cur.bits) == 0 {
			sig = "panic:bloom.Filter:empty-bit-array"
		}
		s.c.Violate(sig, fmt.Sprintf("%s panicked after %d lifecycle calls: %v; calls: %s", op, len(s.trace), pv, strings.Join(s.trace, " ; ")), s.witness())
		s.dead = true
	}
	return !p
}

// lookup asks the real instance for one element and judges the answer.
func (s *lcSeq) lookup(e *lcElem) {
	if s.dead {
		return
	}
	var got bool
	opName := "Matches"
	if e.kind == 2 {
		opName = "MatchesOutPoint"
	}
	if !s.guard(opName, func() {
		if e.kind == 2 {
			got = s.f.MatchesOutPoint(&e.op)
		} else {
			got = s.f.Matches(e.data)
		}
	}) {
		return
	}
	s.c.Inc("lifecycle_membership_checks")
	wantModel := s.cur != nil && s.cur.contains(e.data)
	wantBits := false
	if m := s.f.GetFilterLoadMsg(); m != nil {
		now := refBloom{bits: m.Filter, k: m.HashFuncs, tweak: m.Tweak}
		wantBits = now.contains(e.data)
	}
	if wantModel {
		s.c.Inc("lifecycle_must_match_checks")
		if len(s.cur.bits) > 0 && s.cur.k > 0 {
			s.decided++
		}
	}
	switch {
	case got:
		if !wantModel {
			s.c.Inc("lifecycle_extra_positive_vs_model")
		}
	case wantModel:
		s.log("%s(kind %d, len %d) = false", opName, e.kind, len(e.data))
		s.c.Violate("false-negative:lifecycle:after-"+s.lastOp,
			fmt.Sprintf("an element (kind %d, len %d) contained in the loaded filter{size=%d,k=%d,tweak=%d} does not match on this instance; last state change: %s; calls: %s",
				e.kind, len(e.data), len(s.cur.bits), s.cur.k, s.cur.tweak, s.lastOp, strings.Join(s.trace, " ; ")), s.witness())
		s.dead = true
	case wantBits:
		s.log("%s(kind %d, len %d) = false", opName, e.kind, len(e.data))
		s.c.Violate("false-negative:lifecycle:bits-set-but-no-match:after-"+s.lastOp,
			fmt.Sprintf("every bit the reference client computes for an element (kind %d, len %d) is set in the bit array the instance holds, Matches says no; last state change: %s; calls: %s",
				e.kind, len(e.data), s.lastOp, strings.Join(s.trace, " ; ")), s.witness())
		s.dead = true
	default:
		s.c.Inc("lifecycle_true_negatives")
	}
}

// sweep looks up the whole query pool (bounded).
func (s *lcSeq) sweep() {
	n := len(s.pool)
	for j := 0; j < n && !s.dead; j++ {
		if n > 24 && j >= 4 && j < n-20 {
			continue
		}
		s.lookup(&s.pool[j])
	}
}

func (s *lcSeq) setLoaded(ref *refBloom, rts []byte, why string) {
	s.cur = ref
	s.types = rts
	s.blank = ref != nil && allZero(ref.bits)
	s.blankWhy = why
	s.lastPaid = nil
}

func (s *lcSeq) opReload(populated bool) {
	ref, tts, rts := s.genMsg(populated)
	fl := s.wire(ref, tts)
	kind := "blank"
	if populated {
		kind = "populated"
	}
	s.log("Reload(%s size=%d k=%d tweak=%d)", kind, len(ref.bits), ref.k, ref.tweak)
	if !s.guard("Reload", func() { s.f.Reload(fl) }) {
		return
	}
	s.c.Inc("lifecycle_reload")
	if populated && !allZero(ref.bits) {
		if s.blank {
			s.c.Inc("lifecycle_reload_on_blank_instance")
			s.c.Inc("lifecycle_reload_on_blank_instance:" + s.blankWhy)
		} else if s.cur == nil {
			s.c.Inc("lifecycle_reload_populated_after_unload")
		} else {
			s.c.Inc("lifecycle_reload_populated_over_populated")
		}
	}
	if s.cur == nil {
		s.c.Inc("lifecycle_unload_then_reload")
	}
	s.setLoaded(ref, rts, "reload-blank")
	s.lastOp = "reload"
}

func (s *lcSeq) opUnload() {
	s.log("Unload()")
	if !s.guard("Unload", func() { s.f.Unload() }) {
		return
	}
	s.c.Inc("lifecycle_unload")
	if s.blank && !strings.HasSuffix(s.blankWhy, "+unload") {
		s.blankWhy += "+unload"
	}
	s.cur = nil
	s.types = nil
	s.lastPaid = nil
	s.lastOp = "unload"
}

func (s *lcSeq) opAdd() {
	e := lcRandElem(s.r, s.r.Intn(4))
	// sometimes re-add something already in the pool
	if len(s.pool) > 0 && s.r.Intn(5) == 0 {
		e = s.pool[s.r.Intn(len(s.pool))]
	}
	name := [...]string{"Add", "AddHash", "AddOutPoint", "Add"}[e.kind]
	s.log("%s(kind %d, len %d)", name, e.kind, len(e.data))
	if !s.guard(name, func() {
		switch e.kind {
		case 1:
			s.f.AddHash(&e.hash)
		case 2:
			s.f.AddOutPoint(&e.op)
		default:
			s.f.Add(e.data)
		}
	}) {
		return
	}
	s.c.Inc("lifecycle_add")
	if s.cur != nil {
		s.cur.add(e.data)
		if len(s.cur.bits) > 0 && s.cur.k > 0 {
			s.blank = false
		}
		s.lastOp = "add"
	} else {
		s.c.Inc("lifecycle_add_while_unloaded")
	}
	s.pool = append(s.pool, e)
}

func (s *lcSeq) opIsLoaded() {
	var got bool
	if !s.guard("IsLoaded", func() { got = s.f.IsLoaded() }) {
		return
	}
	s.c.Inc("lifecycle_isloaded")
	if got != (s.cur != nil) {
		// not a membership answer; visible in the evidence
		s.c.Inc("lifecycle_isloaded_disagrees_with_model")
		s.c.Note("IsLoaded()=%v, the model has loaded=%v; calls: %s", got, s.cur != nil, strings.Join(s.trace, " ; "))
	}
}

// opMatchTx shows a transaction to the loaded instance.
func (s *lcSeq) opMatchTx() {
	if s.cur == nil {
		return
	}
	r := s.r
	var phs, ops []*lcElem
	for j := range s.pool {
		switch s.pool[j].kind {
		case 3:
			phs = append(phs, &s.pool[j])
		case 2:
			ops = append(ops, &s.pool[j])
		}
	}
	nOut := 1 + r.Intn(3)
	outs := make([]common.Uint168, nOut)
	for j := range outs {
		outs[j] = randPH(r)
	}
	ins := []common2.OutPoint{randOutPoint(r)}
	what := "unrelated"
	wi := -1
	switch choice := r.Intn(6); {
	case choice <= 2 && len(phs) > 0:
		wi = r.Intn(nOut)
		outs[wi] = phs[r.Intn(len(phs))].ph
		what = "pays a pooled program hash"
	case choice == 3 && len(ops) > 0:
		ins = append(ins, ops[r.Intn(len(ops))].op)
		what = "spends a pooled outpoint"
	case choice == 4 && s.lastPaid != nil:
		ins = append(ins, s.lastPaid.op)
		what = "spends the outpoint of the last matched output"
	}
	tt := common2.TransferAsset
	if r.Intn(3) == 0 && len(s.txTypes) > 0 {
		tt = s.txTypes[r.Intn(len(s.txTypes))]
	}
	tx, rt := filterTx(tt, common2.TxVersion09, ins, outs, r.Uint32())
	s.log("MatchTxAndUpdate(tx %s)", what)
	var got bool
	if !s.guard("MatchTxAndUpdate", func() { got = s.f.MatchTxAndUpdate(tx) }) {
		return
	}
	s.c.Inc("lifecycle_matchtx")
	want := refMatchTx(s.cur, s.types, rt)
	if want {
		s.c.Inc("lifecycle_matchtx_must_match")
		if len(s.cur.bits) > 0 && s.cur.k > 0 {
			s.decided++
		}
	}
	if want && !got {
		s.trace[len(s.trace)-1] += " = false"
		s.c.Violate("false-negative:lifecycle:tx:after-"+s.lastOp,
			fmt.Sprintf("tx that %s: the protocol model on the loaded filter{size=%d,k=%d,tweak=%d} matches, MatchTxAndUpdate on this instance returned false; last state change: %s; calls: %s",
				what, len(s.cur.bits), s.cur.k, s.cur.tweak, s.lastOp, strings.Join(s.trace, " ; ")), s.witness())
		s.dead = true
		return
	}
	if got && !want {
		s.c.Inc("lifecycle_extra_positive_vs_model")
	}
	if s.cur.tweak != math.MaxUint32 {
		// outpoints of outputs the model matched are now members
		h := tx.Hash()
		for j := range outs {
			op := common2.OutPoint{TxID: h, Index: uint16(j)}
			d := refOutPoint(op.TxID, op.Index)
			if j == wi || s.cur.contains(d) {
				e := lcElem{kind: 2, op: op, data: d}
				s.pool = append(s.pool, e)
				if j == wi && want {
					paid := e
					s.lastPaid = &paid
				}
			}
		}
		if want {
			if len(s.cur.bits) > 0 && s.cur.k > 0 && wi >= 0 {
				s.blank = false
			}
			s.lastOp = "matchtx"
		}
	}
}

func c39LifecycleSeq(c *kit.Ctx, r *rand.Rand, i int, txTypes []common2.TxType) {
	s := &lcSeq{c: c, r: r, txTypes: txTypes}
	template := i % 4
	// ---- constructor
	ctor := r.Intn(4)
	switch template {
	case 0:
		ctor = r.Intn(2) // blank instance
	case 1:
		ctor = 2 // populated
	}
	switch ctor {
	case 0:
		n := uint32(1 + r.Intn(200))
		if r.Intn(8) == 0 {
			n = 0
		}
		tweak := r.Uint32()
		if tweak == math.MaxUint32 {
			tweak = 5
		}
		fp := logUniform(r, 1e-9, 0.5)
		s.log("NewFilter(%d,%d,%g)", n, tweak, fp)
		if !s.guard("NewFilter", func() { s.f = bloom.NewFilter(n, tweak, fp) }) {
			return
		}
		m := s.f.GetFilterLoadMsg()
		s.setLoaded(newRefBloom(len(m.Filter), m.HashFuncs, m.Tweak), nil, "newfilter")
		s.lastOp = "newfilter"
		c.Inc("lifecycle_ctor_newfilter")
	case 1, 2:
		ref, tts, rts := s.genMsg(ctor == 2)
		fl := s.wire(ref, tts)
		s.log("LoadFilter(%s size=%d k=%d tweak=%d)", map[bool]string{false: "blank", true: "populated"}[ctor == 2], len(ref.bits), ref.k, ref.tweak)
		if !s.guard("LoadFilter", func() { s.f = bloom.LoadFilter(fl) }) {
			return
		}
		s.setLoaded(ref, rts, "loadfilter-blank")
		s.lastOp = "loadfilter"
		if ctor == 2 {
			c.Inc("lifecycle_ctor_loadfilter_populated")
		} else {
			c.Inc("lifecycle_ctor_loadfilter_blank")
		}
	default:
		s.log("LoadFilter(nil)")
		if !s.guard("LoadFilter", func() { s.f = bloom.LoadFilter(nil) }) {
			return
		}
		s.setLoaded(nil, nil, "")
		s.lastOp = "loadfilter"
		c.Inc("lifecycle_ctor_loadfilter_nil")
	}
	c.Inc("lifecycle_ops")
	s.sweep()

	// ---- forced prefix, then random calls
	var prefix []string
	switch template {
	case 0: // blank -> Reload(populated), sometimes via Unload
		if r.Intn(3) == 0 {
			prefix = append(prefix, "unload")
		}
		if r.Intn(4) == 0 {
			prefix = append(prefix, "isloaded")
		}
		prefix = append(prefix, "reload+")
	case 1: // populated -> Reload(blank) -> Reload(populated)
		prefix = append(prefix, "reload0")
		if r.Intn(3) == 0 {
			prefix = append(prefix, "unload")
		}
		prefix = append(prefix, "reload+")
	case 2: // Unload -> Reload
		prefix = append(prefix, "unload", "reload+")
	}
	nOps := 6 + r.Intn(30)
	for j := 0; j < nOps && !s.dead; j++ {
		var op string
		if j < len(prefix) {
			op = prefix[j]
		} else {
			switch x := r.Intn(24); {
			case x < 3:
				op = "reload+"
			case x < 5:
				op = "reload0"
			case x < 7:
				op = "unload"
			case x < 13:
				op = "add"
			case x < 15:
				op = "isloaded"
			case x < 19:
				op = "matchtx"
			default:
				op = "lookup"
			}
		}
		c.Inc("lifecycle_ops")
		switch op {
		case "reload+":
			s.opReload(true)
		case "reload0":
			s.opReload(false)
		case "unload":
			s.opUnload()
		case "add":
			s.opAdd()
		case "isloaded":
			s.opIsLoaded()
			continue
		case "matchtx":
			s.opMatchTx()
		default:
			// a fresh non-member and a pool member
			e := lcRandElem(r, r.Intn(4))
			s.lookup(&e)
			if len(s.pool) > 0 {
				s.lookup(&s.pool[r.Intn(len(s.pool))])
			}
			continue
		}
		s.sweep()
	}
	id := fmt.Sprintf("L:%d:%x", template, traceDigest(s.trace))
	c.Case(id, s.decided > 0)
	c.Inc("lifecycle_sequences")
	if i < 1 {
		c.Sample(map[string]interface{}{"kind": "lifecycle", "calls": s.trace, "lookups_decided_by_bits": s.decided})
	}
}

// -------------------------------------------------------------------- order

// ordFilter is one of the objects a server peer holds.
type ordFilter struct {
	name        string
	load        func(fl *msg.FilterLoad) error
	add         func(data []byte) error
	confirmed   func(tx interfaces.Transaction) bool
	unconfirmed func(tx interfaces.Transaction) bool                           // nil: the path does not consult the bloom filter
	block       func(txs []interfaces.Transaction) (matched []uint32, ok bool) // nil: no merkle block path
}

func serializeFilterLoad(fl *msg.FilterLoad) ([]byte, error) {
	buf := new(bytes.Buffer)
	if err := fl.Serialize(buf); err != nil {
		return nil, err
	}
	return buf.Bytes(), nil
}

var c39DposState *state.State

// c39ServerFactory is elanet/server.go:newServerPeer's factory.
func c39ServerFactory(typ uint8) filter.TxFilter {
	switch typ {
	case filter.FTBloom:
		return bloom.NewTxFilter()
	case filter.FTDPOS:
		return sidefilter.New(c39DposState)
	case filter.FTNexTTurnDPOSInfo:
		return nextturndposfilter.New()
	case filter.FTCustomID:
		return customidfilter.New()
	case filter.FTUpgrade:
		return upgradefilter.New()
	case filter.FTReturnSidechainDepositCoinFilter:
		return returnsidechaindepositcoinfilter.New()
	}
	return nil
}

func newOrdFilter(which int) *ordFilter {
	switch which {
	case 0: // bare bloom.Filter (no wrapper state): control
		var f *bloom.Filter
		return &ordFilter{name: "bloom.Filter",
			load: func(fl *msg.FilterLoad) error {
				if f == nil {
					f = bloom.LoadFilter(fl)
				} else {
					f.Reload(fl)
				}
				return nil
			},
			add:         func(d []byte) error { f.Add(d); return nil },
			confirmed:   func(tx interfaces.Transaction) bool { return f.MatchTxAndUpdate(tx) },
			unconfirmed: func(tx interfaces.Transaction) bool { return f.MatchTxAndUpdate(tx) },
		}
	case 1: // bloom.TxFilter as the server creates it for FTBloom
		tf := bloom.NewTxFilter()
		return &ordFilter{name: "bloom.TxFilter",
			load: func(fl *msg.FilterLoad) error {
				b, err := serializeFilterLoad(fl)
				if err != nil {
					return err
				}
				return tf.Load(b)
			},
			add:         tf.Add,
			confirmed:   tf.MatchConfirmed,
			unconfirmed: tf.MatchUnconfirmed,
		}
	}
	typ := uint8(which - 2)
	names := map[uint8]string{filter.FTBloom: "filter.Filter/FTBloom", filter.FTDPOS: "filter.Filter/FTDPOS", filter.FTNexTTurnDPOSInfo: "filter.Filter/FTNextTurnDPOSInfo",
		filter.FTCustomID: "filter.Filter/FTCustomID", filter.FTUpgrade: "filter.Filter/FTUpgrade", filter.FTReturnSidechainDepositCoinFilter: "filter.Filter/FTReturnSidechainDepositCoin"}
	pf := filter.New(c39ServerFactory)
	o := &ordFilter{name: names[typ],
		load: func(fl *msg.FilterLoad) error {
			b, err := serializeFilterLoad(fl)
			if err != nil {
				return err
			}
			return pf.Load(&msg.TxFilterLoad{Type: typ, Data: b})
		},
		add:         pf.Add,
		confirmed:   pf.MatchConfirmed,
		unconfirmed: pf.MatchUnconfirmed,
		block: func(txs []interfaces.Transaction) ([]uint32, bool) {
			mb, idx := filter.NewMerkleBlock(txs, pf)
			return idx, mb != nil
		},
	}
	if typ == filter.FTDPOS {
		o.unconfirmed = nil // sidefilter relays by tx type only
	}
	return o
}

type ordTx struct {
	name   string
	tx     interfaces.Transaction
	rt     *refTx
	parent *ordTx

	presented          int
	lastWant           bool
	seenUpd            int
	seenAdd            int
	seenLoad           int
	matched            bool // the model matched it since the last (re)load
	missedBeforeParent bool // presented and missed while its parent had not matched yet
}

type ordSeq struct {
	c       *kit.Ctx
	r       *rand.Rand
	of      *ordFilter
	model   *refBloom
	types   []byte
	upd     int // bumped when a tx match changed the model's bits
	add     int
	load    int
	trace   []string
	dead    bool
	decided int
}

func (s *ordSeq) witness() map[string]interface{} {
	return map[string]interface{}{"object": s.of.name, "size": len(s.model.bits), "hash_funcs": s.model.k, "tweak": s.model.tweak, "tx_types": s.types, "ops": append([]string(nil), s.trace...)}
}

// judge replays one presentation on the model and compares.
func (s *ordSeq) judge(t *ordTx, got bool, via string) {
	class := "first-presentation"
	if t.presented > 0 {
		switch {
		case t.lastWant:
			class = "retest-of-matched-tx"
		case s.load != t.seenLoad:
			class = "retest-after-filterload"
		case s.add != t.seenAdd:
			class = "retest-after-filteradd"
		case s.upd != t.seenUpd:
			class = "retest-after-filter-update"
		default:
			class = "retest-unchanged-filter"
		}
	}
	before := append([]byte(nil), s.model.bits...)
	want := refMatchTx(s.model, s.types, t.rt)
	changed := !bytes.Equal(before, s.model.bits)
	c := s.c
	c.Inc("order_presentations")
	c.Inc("order_class:" + class)
	if want {
		c.Inc("order_must_match")
		c.Inc("order_must_match:" + class)
		if len(s.model.bits) > 0 && s.model.k > 0 {
			s.decided++
		}
	}
	if got {
		c.Inc("order_matched")
	} else {
		c.Inc("order_not_matched")
	}
	if class == "retest-after-filter-update" {
		c.Inc("order_retest_after_filter_update")
	}
	if t.parent != nil && t.parent.matched {
		if t.missedBeforeParent {
			c.Inc("order_child_before_parent_then_retested")
			if want {
				c.Inc("order_child_before_parent_then_retested_must_match")
			}
		} else if t.presented == 0 {
			c.Inc("order_parent_before_child")
		}
	}
	s.trace = append(s.trace, fmt.Sprintf("%s(%s)=%v model=%v", via, t.name, got, want))
	if want && !got {
		c.Violate("false-negative:order:"+class,
			fmt.Sprintf("%s: tx %s (%s) presented via %s: the protocol model on the filter state at this moment matches, the node answered false; presentations: %s",
				s.of.name, t.name, class, via, strings.Join(s.trace, " ; ")), s.witness())
		s.dead = true
		return
	}
	if got && !want {
		c.Inc("order_extra_positive_vs_model")
	}
	if changed {
		s.upd++
	}
	if want {
		t.matched = true
	} else if t.parent != nil && !t.parent.matched {
		t.missedBeforeParent = true
	}
	t.presented++
	t.lastWant = want
	t.seenUpd, t.seenAdd, t.seenLoad = s.upd, s.add, s.load
}

func (s *ordSeq) present(t *ordTx, confirmed bool) {
	if s.dead {
		return
	}
	fn, via := s.of.confirmed, "MatchConfirmed"
	if !confirmed && s.of.unconfirmed != nil {
		fn, via = s.of.unconfirmed, "MatchUnconfirmed"
	}
	var got bool
	p, pv, _ := kit.Guard(func() { got = fn(t.tx) })
	if p {
		s.c.Violate("panic:order:"+via, fmt.Sprintf("%s.%s panicked: %v; presentations: %s", s.of.name, via, pv, strings.Join(s.trace, " ; ")), s.witness())
		s.dead = true
		return
	}
	s.judge(t, got, via)
}

func (s *ordSeq) presentBlock(txs []*ordTx) {
	if s.dead {
		return
	}
	if s.of.block == nil {
		for _, t := range txs {
			s.present(t, true)
		}
		return
	}
	list := make([]interfaces.Transaction, len(txs))
	for j, t := range txs {
		list[j] = t.tx
	}
	var idx []uint32
	p, pv, _ := kit.Guard(func() { idx, _ = s.of.block(list) })
	if p {
		s.c.Violate("panic:order:NewMerkleBlock", fmt.Sprintf("%s NewMerkleBlock panicked: %v; presentations: %s", s.of.name, pv, strings.Join(s.trace, " ; ")), s.witness())
		s.dead = true
		return
	}
	s.c.Inc("order_merkleblocks")
	in := map[uint32]bool{}
	for _, x := range idx {
		in[x] = true
	}
	for j, t := range txs {
		if s.dead {
			return
		}
		s.c.Inc("order_merkleblock_presentations")
		s.judge(t, in[uint32(j)], fmt.Sprintf("NewMerkleBlock[%d/%d]", j, len(txs)))
	}
}

func c39OrderSeq(c *kit.Ctx, r *rand.Rand, i int, txTypes []common2.TxType) {
	which := []int{0, 1, 1, 2, 2, 3, 4, 5, 6, 7}[i%10]
	of := newOrdFilter(which)
	sidechain := (i/10)%8 == 7
	// geometry: mostly roomy (so that "child before parent" really misses first), sometimes crowded
	var size int
	var k uint32
	switch r.Intn(8) {
	case 0:
		size, k = 1+r.Intn(4), uint32(1+r.Intn(3))
	case 1:
		size, k = 16+r.Intn(64), uint32(1+r.Intn(8))
	default:
		size, k = 200+r.Intn(3000), uint32(3+r.Intn(18))
	}
	tweak := r.Uint32()
	if tweak == math.MaxUint32 {
		tweak = 13
	}
	if i%16 == 5 {
		tweak = 0
	}
	var tts []common2.TxType
	var rts []byte
	if sidechain {
		tweak = math.MaxUint32
		for _, t := range txTypes {
			if r.Intn(4) == 0 {
				tts = append(tts, t)
				rts = append(rts, byte(t))
			}
		}
	}
	// the client's watch list
	nW := 1 + r.Intn(3)
	wl := make([]common.Uint168, nW)
	for j := range wl {
		wl[j] = randPH(r)
	}
	var added [][]byte // filteradd data already sent (a re-sent filter may contain it)
	build := func(withAdded bool) *refBloom {
		ref := newRefBloom(size, k, tweak)
		for _, w := range wl {
			ref.add(w[:])
		}
		if withAdded {
			for _, d := range added {
				ref.add(d)
			}
		}
		return ref
	}
	s := &ordSeq{c: c, r: r, of: of, types: rts}
	s.model = build(false)
	fl := &msg.FilterLoad{Filter: append([]byte(nil), s.model.bits...), HashFuncs: k, Tweak: tweak, TxTypes: tts}
	if err := of.load(fl); err != nil {
		c.Violate("filterload-within-limits-rejected", fmt.Sprintf("%s load: %v", of.name, err), nil)
		return
	}
	s.trace = append(s.trace, fmt.Sprintf("%s load(size=%d,k=%d,tweak=%d,types=%v)", of.name, size, k, tweak, rts))

	outs := func(n, watchedAt int) []common.Uint168 {
		o := make([]common.Uint168, n)
		for j := range o {
			o[j] = randPH(r)
		}
		if watchedAt >= 0 {
			o[watchedAt] = wl[r.Intn(len(wl))]
		}
		return o
	}
	ver := common2.TxVersion09
	if i%2 == 0 {
		ver = common2.TxVersionDefault
	}
	mk := func(name string, t common2.TxType, ins []common2.OutPoint, o []common.Uint168, parent *ordTx) *ordTx {
		r.Shuffle(len(ins), func(a, b int) { ins[a], ins[b] = ins[b], ins[a] })
		tx, rt := filterTx(t, ver, ins, o, r.Uint32())
		return &ordTx{name: name, tx: tx, rt: rt, parent: parent}
	}
	anyType := func() common2.TxType {
		if r.Intn(2) == 0 {
			return common2.TransferAsset
		}
		return txTypes[r.Intn(len(txTypes))]
	}
	op := func(t *ordTx, idx int) common2.OutPoint {
		return common2.OutPoint{TxID: t.tx.Hash(), Index: uint16(idx)}
	}

	nOutA := 1 + r.Intn(4)
	wi := r.Intn(nOutA)
	A := mk("A:pays-watched", anyType(), []common2.OutPoint{randOutPoint(r)}, outs(nOutA, wi), nil)
	B := mk("B:spends-A-pays-unwatched", common2.TransferAsset, []common2.OutPoint{op(A, wi), randOutPoint(r)}, outs(1+r.Intn(2), -1), A)
	nOutB2 := 1 + r.Intn(3)
	bw := r.Intn(nOutB2)
	B2 := mk("B2:spends-A-pays-watched", common2.TransferAsset, []common2.OutPoint{op(A, wi)}, outs(nOutB2, bw), nil)
	C := mk("C:spends-B2-pays-unwatched", common2.TransferAsset, []common2.OutPoint{randOutPoint(r), op(B2, bw)}, outs(1, -1), B2)
	C2 := mk("C2:spends-B-pays-unwatched", common2.TransferAsset, []common2.OutPoint{op(B, 0)}, outs(1, -1), nil)
	D := mk("D:unrelated", anyType(), []common2.OutPoint{randOutPoint(r), randOutPoint(r)}, outs(1+r.Intn(3), -1), nil)
	E := mk("E:txid-added-later", anyType(), []common2.OutPoint{randOutPoint(r)}, outs(1, -1), nil)
	opF := randOutPoint(r)
	F := mk("F:spends-outpoint-added-later", common2.TransferAsset, []common2.OutPoint{randOutPoint(r), opF}, outs(1, -1), nil)
	wNew := randPH(r)
	nOutG := 1 + r.Intn(3)
	gi := r.Intn(nOutG)
	og := outs(nOutG, -1)
	og[gi] = wNew
	G := mk("G:pays-address-added-later", anyType(), []common2.OutPoint{randOutPoint(r)}, og, nil)
	H := mk("H:spends-G-pays-unwatched", common2.TransferAsset, []common2.OutPoint{op(G, gi)}, outs(1, -1), G)
	all := []*ordTx{A, B, B2, C, C2, D, E, F, G, H}
	hE := E.tx.Hash()
	addables := map[string][]byte{"E.txid": append([]byte(nil), hE[:]...), "F.outpoint": refOutPoint(opF.TxID, opF.Index), "G.address": append([]byte(nil), wNew[:]...)}

	doAdd := func(what string) {
		if s.dead {
			return
		}
		d := addables[what]
		if d == nil {
			d = c39Elem(r)
			what = "random"
		}
		var err error
		p, pv, _ := kit.Guard(func() { err = of.add(d) })
		if p || err != nil {
			c.Violate("order:filteradd-failed", fmt.Sprintf("%s Add on a loaded filter: panic=%v err=%v", of.name, pv, err), s.witness())
			s.dead = true
			return
		}
		s.model.add(d)
		added = append(added, d)
		s.add++
		c.Inc("order_filteradd")
		s.trace = append(s.trace, "filteradd("+what+")")
	}
	doLoad := func() {
		if s.dead {
			return
		}
		withAdded := r.Intn(2) == 0
		s.model = build(withAdded)
		nfl := &msg.FilterLoad{Filter: append([]byte(nil), s.model.bits...), HashFuncs: k, Tweak: tweak, TxTypes: tts}
		var err error
		p, pv, _ := kit.Guard(func() { err = of.load(nfl) })
		if p || err != nil {
			c.Violate("order:filterload-failed", fmt.Sprintf("%s re-Load: panic=%v err=%v", of.name, pv, err), s.witness())
			s.dead = true
			return
		}
		s.load++
		for _, t := range all {
			t.matched, t.missedBeforeParent = false, false
		}
		c.Inc("order_filterload_again")
		s.trace = append(s.trace, fmt.Sprintf("filterload(again, with_added=%v)", withAdded))
	}
	mode := func() bool { return r.Intn(2) == 0 } // confirmed?

	// ---- scripted prefix: the orders that matter
	script := (i / 10) % 8
	c.Inc(fmt.Sprintf("order_script_%d", script))
	switch script {
	case 0: // child relayed before its parent, then filtered again
		s.present(B, false)
		s.present(A, mode())
		s.present(B, true)
	case 1: // parent first
		s.present(A, mode())
		s.present(B, mode())
		s.present(B, mode())
	case 2: // repeated presentations around the update
		s.present(B, mode())
		s.present(B, mode())
		s.present(D, mode())
		s.present(A, mode())
		s.present(D, mode())
		s.present(B, mode())
		s.present(C2, mode())
	case 3: // grand-child before child
		s.present(C, mode())
		s.present(B2, mode())
		s.present(C, mode())
		s.present(A, mode())
	case 4: // filteradd between the presentations
		s.present(E, mode())
		s.present(H, mode())
		s.present(F, mode())
		doAdd("E.txid")
		s.present(E, mode())
		doAdd("G.address")
		s.present(H, mode()) // still unrelated: G has not been seen
		doAdd("F.outpoint")
		s.present(F, mode())
		s.present(G, mode())
		s.present(H, mode())
	case 5: // reload between the presentations
		s.present(B, mode())
		doLoad()
		s.present(B, mode())
		s.present(A, mode())
		s.present(B, mode())
		doLoad()
		s.present(B, mode())
	case 6: // relay, then the block packing parent and child
		s.present(B, false)
		s.present(C, false)
		s.present(D, false)
		s.presentBlock([]*ordTx{D, A, B, B2, C})
	default: // side-chain / free form
	}
	// ---- random tail
	nOps := 6 + r.Intn(16)
	for j := 0; j < nOps && !s.dead; j++ {
		switch x := r.Intn(20); {
		case x < 13:
			s.present(all[r.Intn(len(all))], mode())
		case x < 15:
			doAdd([]string{"E.txid", "F.outpoint", "G.address", "random"}[r.Intn(4)])
		case x < 16:
			doLoad()
		default:
			perm := r.Perm(len(all))
			n := 2 + r.Intn(5)
			var blk []*ordTx
			for _, pi := range perm[:n] {
				blk = append(blk, all[pi])
			}
			s.presentBlock(blk)
		}
	}
	c.Inc("order_sequences")
	c.Inc("order_via:" + of.name)
	if sidechain {
		c.Inc("order_sidechain_sequences")
	}
	id := fmt.Sprintf("O:%s:%x", of.name, traceDigest(s.trace))
	c.Case(id, s.decided > 0)
	if i < 1 {
		c.Sample(map[string]interface{}{"kind": "order", "object": of.name, "presentations": s.trace})
	}
}

func runC39Sequences(c *kit.Ctx, txTypes []common2.TxType) {
	if c39DposState == nil {
		// sidefilter.MatchConfirmed consults the DPoS state (cancelled votes); an empty state is enough
		p, pv, _ := kit.Guard(func() {
			c39DposState = state.NewState(nil, nil, nil, nil, nil, nil, nil, nil, nil, nil, nil, nil)
		})
		if p {
			c.Inconclusive("state.NewState for the side filter: %v", pv)
			return
		}
	}
	rl := c.Rand("c39-lifecycle")
	nL := c.N(160, 4000)
	for i := 0; i < nL; i++ {
		c.Begin("L %d", i)
		c39LifecycleSeq(c, rl, i, txTypes)
	}
	ro := c.Rand("c39-order")
	nO := c.N(160, 4000)
	for i := 0; i < nO; i++ {
		c.Begin("O %d", i)
		c39OrderSeq(c, ro, i, txTypes)
	}
}

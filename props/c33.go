package props

import (
	"bytes"
	"fmt"
	"math"
	"math/big"
	"math/rand"
	"sort"
	"strings"

	"github.com/elastos/Elastos.ELA/blockchain"
	"github.com/elastos/Elastos.ELA/common"
	pg "github.com/elastos/Elastos.ELA/core/contract/program"
	"github.com/elastos/Elastos.ELA/core/types"
	common2 "github.com/elastos/Elastos.ELA/core/types/common"
	"github.com/elastos/Elastos.ELA/core/types/functions"
	"github.com/elastos/Elastos.ELA/core/types/interfaces"
	"github.com/elastos/Elastos.ELA/core/types/payload"
	crstate "github.com/elastos/Elastos.ELA/cr/state"
	"github.com/elastos/Elastos.ELA/crypto"
	"github.com/elastos/Elastos.ELA/dpos/state"

	"verif/kit"
	"verif/kit/node"
)

// C33 — side-chain withdrawals need the arbiter quorum and are single-use.
//
// A: verdict sweep. The real SpecialContextCheck of WithdrawFromSideChain
//    (payload V0/V1/V2) runs against a controlled arbiter set (the repo's
//    ArbitratorsMock and the real Arbiters object with injected members), with
//    near-valid transactions carrying exactly one defect. Oracle: an accept
//    implies every clause of the quorum/index model.
// B: single-use histories on a live node: record a hash through
//    ChainStore.SaveBlock, offer it again to the context check, the sanity
//    checks, block sanity and the mempool (fully signed transactions spending
//    real X-address outputs), roll the block back, offer it again.

func init() {
	kit.Register(&kit.Spec{
		ID:      "C33",
		Rule:    "A: per case an arbiter set (1..72 cross-chain arbiters: small sets, the 12+24=36 main-net shape, 33/36/40/64/65/72 and random sizes 33..72 as CRC+DPoS or CRC-only lists; some CRC members inactive), an era (heights around SchnorrStartHeight / CRClaimDPOSNodeStartHeight / DPOSNodeCrossChainHeight / CrossChainUTXORestrictionHeight), a payload version and ONE mutation of an otherwise honest withdrawal (signer list length around the threshold, duplicate indexes placed in every index region (0..31, 32..63, >=64, the last index; two copies up to the whole list) / out-of-range indexes (exactly len(arbiters), len+1, 255) / permuted indexes / honest lists of the highest indexes, wrong aggregate, non-Schnorr code, extra program, m/n/key-set changes, non-X input, recorded hash, wrong version for the height); B: per payload version a save/offer-again/rollback/offer-again history with real signatures. distinct = (provider, era, sizes, version, mutation, parameters); non-trivial = the real check returned a verdict (no panic) for a case whose arbiter set has >= 1 member",
		Shards:  func(tier string) int { return 8 },
		Run:     runC33,
		Require: []string{"A_verdicts", "A_accept", "A_reject", "A_honest_accept", "A_provider:mock", "A_provider:real", "A_ver:V0", "A_ver:V1", "A_ver:V2", "A_era:1", "A_era:2", "A_era:3", "A_restriction_on", "A_restriction_off", "A_mut:dup-index", "A_mut:oob-index", "A_mut:dup-index-0-31", "A_mut:dup-index-32-63", "A_mut:dup-index-ge-64", "A_mut:dup-index-last", "A_mut:honest-high-indexes", "arbiter_sets_over_32", "arbiter_sets_over_64", "A_provider_over_32:mock", "A_provider_over_32:real", "honest_index_ge_32_accepted", "duplicate_index_lt_32_cases", "duplicate_index_lt_32_rejected", "duplicate_index_ge_32_cases", "duplicate_index_ge_32_rejected", "duplicate_index_32_63_rejected", "duplicate_index_ge_64_rejected", "duplicate_last_index_over_32_rejected", "whole_list_one_index_ge_32_rejected", "oob_at_len_cases", "oob_at_len_over_32_cases", "oob_at_len_over_32_rejected", "A_mut:short", "A_mut:wrong-aggregate", "A_mut:non-x-input", "A_mut:recorded-hash", "A_mut:m-low", "A_mut:key-replaced", "B_histories", "B_full_context_accept", "B_second_use_offered", "B_second_use_rejected", "B_pool_accept", "B_pool_conflict_rejected", "B_accept_after_rollback", "B_bad_signature_rejected", "B_live_block_with_withdrawal_connected", "B_live_reorgs", "B_live_reincluded_after_reorg", "B_non_x_input_rejected", "B_single_arbiter_index_lt_32_rejected_after_restriction", "B_single_arbiter_index_ge_32_rejected_after_restriction"},
		Assumptions: []string{
			"the arbiter set is injected (ArbitratorsMock, or members written into the real Arbiters object and its height switches); the withdrawal checks read it only through the Arbitrators interface",
			"required number of signers = the era rule stated in the node's own error texts (2/3+1 of CRMemberCount, 2/3 between CRClaimDPOSNodeStartHeight and DPOSNodeCrossChainHeight); for V0/V1 m >= CRAgreementCount resp. NormalArbitratorsCount+1 resp. more than the majority count",
			"below CrossChainUTXORestrictionHeight repeated signer indexes are accepted by design (counted, not flagged); a panic on an out-of-range index there belongs to C03 (counted as panics_seen)",
			"crypto/elliptic P-256 arithmetic of the standard library is the reference for aggregates",
		},
	})
}

type c33Case struct {
	Provider string `json:"provider"`
	Era      int    `json:"era"`
	H        uint32 `json:"height"`
	S        uint32 `json:"schnorr_start"`
	C        uint32 `json:"cr_claim_start"`
	D        uint32 `json:"dpos_crosschain"`
	R        uint32 `json:"restriction"`
	NCRC     int    `json:"n_crc"`
	NDpos    int    `json:"n_dpos"`
	NCC      int    `json:"n_crosschain"`
	Inactive []int  `json:"inactive_crc,omitempty"`
	Ver      int    `json:"payload_version"`
	Mut      string `json:"mutation"`
	Signers  []int  `json:"signers,omitempty"`
	M        int    `json:"m,omitempty"`
	N        int    `json:"n,omitempty"`
	NKeys    int    `json:"keys_in_script,omitempty"`
	NonX     bool   `json:"spends_non_x,omitempty"`
	Recorded bool   `json:"hash_recorded,omitempty"`
	Programs int    `json:"programs"`
}

// c33Env is the injected world of one case.
type c33Env struct {
	cc       []arbKey // what GetCrossChainArbiters returns, in index order
	ccNormal []bool
	eraSet   []bool // normal flags of the list V0/V1 count n against (crc list or all arbiters)
	ccCount  int
	ccMajor  int
	member   uint32
	agree    uint32
	normalN  int
}

func runC33(c *kit.Ctx) {
	nd, err := node.Start(node.Options{Dir: c.WorkDir, CoinbaseMaturity: 1})
	if err != nil {
		c.Inconclusive("node start: %v", err)
		return
	}
	defer nd.Close()
	if err := nd.MineN(3); err != nil {
		c.Inconclusive("mining: %v", err)
		return
	}
	r := c.Rand("c33")
	realArb := blockchain.DefaultLedger.Arbitrators
	defer func() { blockchain.DefaultLedger.Arbitrators = realArb }()

	// hashes recorded in the real Tx3 index for the sweep (one per version)
	recorded := c33Record(c, nd)
	if recorded == nil {
		return
	}
	c33Sweep(c, nd, r, recorded)
	blockchain.DefaultLedger.Arbitrators = realArb
	c33Histories(c, nd, r)
}

// c33Record saves a block with one withdrawal per payload version at store
// level so that the real Tx3 index holds known hashes during the sweep.
func c33Record(c *kit.Ctx, nd *node.Node) map[int]common.Uint256 {
	rec := map[int]common.Uint256{}
	tipB, tipN := nd.TipBlock(), nd.Chain.BestChain
	var txs []interfaces.Transaction
	h := tipB.Height + 1
	cb := nd.CoinbaseTx(nd.Miner.Address, h, 0xC33)
	cb.Outputs()[0].Value, cb.Outputs()[1].Value = 1, 2
	txs = append(txs, cb)
	// the withdrawals here carry no inputs: the save processors only look at payload/outputs.
	for v := 0; v < 3; v++ {
		rec[v] = hashOf(fmt.Sprintf("c33-recorded/%d/%d", c.Shard, v))
		txs = append(txs, withdrawTx(byte(v), nil, node.Key(9).ProgramHash, 1, []common.Uint256{rec[v]}, []uint8{0}, nil))
	}
	blk := &types.Block{Header: common2.Header{Previous: tipB.Hash(), Timestamp: tipB.Timestamp + 1, Bits: nd.Cfg.PowConfiguration.PowLimitBits, Height: h}, Transactions: txs}
	node.Seal(blk, false)
	hash := blk.Hash()
	n := blockchain.NewBlockNode(&blk.Header, &hash)
	n.Parent = tipN
	n.WorkSum = new(big.Int).Add(tipN.WorkSum, n.WorkSum)
	if err := nd.Store.SaveBlock(blk, n, nil, blockchain.CalcPastMedianTime(tipN)); err != nil {
		c.Inconclusive("recording block could not be saved: %v", err)
		return nil
	}
	for v, hh := range rec {
		if !nd.Store.IsSidechainTxHashDuplicate(hh) {
			c.Inconclusive("recorded hash of V%d not visible through IsSidechainTxHashDuplicate", v)
			return nil
		}
	}
	// stays recorded during the sweep; undone afterwards
	c33Undo = func() error {
		return nd.Store.RollbackBlock(blk, n, nil, blockchain.CalcPastMedianTime(tipN))
	}
	return rec
}

var c33Undo func() error

// c33Members caches the member objects (they are only read by the code under
// test; building one decodes its public key, which dominates the cost of a
// case with a 72 member list).
var c33Members = map[string]state.ArbiterMember{}

func members(ks []arbKey, crcFlags []bool, nCRC int) []state.ArbiterMember {
	var ms []state.ArbiterMember
	for i, k := range ks {
		id := fmt.Sprintf("%x/%v/%v", k.Pub, i < nCRC, i < nCRC && crcFlags[i])
		m, ok := c33Members[id]
		if !ok {
			var err error
			if i < nCRC {
				m, err = state.NewCRCArbiter(k.Pub, k.Pub, &crstate.CRMember{}, crcFlags[i])
			} else {
				m, err = state.NewOriginArbiter(k.Pub)
			}
			if err != nil {
				panic(err)
			}
			c33Members[id] = m
		}
		ms = append(ms, m)
	}
	return ms
}

var c33Heights = []uint32{100, 200, 300, 400}

// c33MaxSet is the largest injected cross-chain arbiter list.
const c33MaxSet = 72

// c33LargeTotal draws the size of an arbiter set above 32 members (at least
// min): the main-net 36, the sizes around the 32/64 word boundaries, 72, or
// any size in between.
func c33LargeTotal(r *rand.Rand, min int) int {
	var cand []int
	for _, t := range []int{33, 36, 36, 40, 64, 65, 72} {
		if t >= min {
			cand = append(cand, t)
		}
	}
	if k := r.Intn(len(cand) + 3); k < len(cand) {
		return cand[k]
	}
	return min + r.Intn(c33MaxSet-min+1)
}

func c33Sweep(c *kit.Ctx, nd *node.Node, r *rand.Rand, recorded map[int]common.Uint256) {
	universe := arbKeys(400, c33MaxSet+4)
	outsiders := arbKeys(500, 6)
	nCases := c.N(1600, 30000) // x 8 shards
	saveCfg := *nd.Cfg
	saveCur, saveCRC := nd.Arbiters.CurrentArbitrators, nd.Arbiters.CurrentCRCArbitersMap
	defer func() {
		*nd.Cfg = saveCfg
		nd.Arbiters.CurrentArbitrators, nd.Arbiters.CurrentCRCArbitersMap = saveCur, saveCRC
	}()
	vMuts := map[int][]string{
		2: {"honest", "honest", "permuted", "honest-high-indexes", "short", "short2", "empty-signers", "dup-index", "all-same-index", "dup-index-0-31", "dup-index-32-63", "dup-index-ge-64", "dup-index-last", "dup-index-32-63", "dup-index-last", "oob-index", "oob-index", "oob-len-plus-one", "oob-255", "wrong-aggregate", "aggregate-minus-one", "aggregate-plus-one", "non-schnorr-code", "multisig-code", "extra-wrong-program", "names-inactive", "non-x-input", "recorded-hash", "wrong-version-for-height", "longer-list"},
		1: {"honest", "honest", "keys-permuted", "m-low", "m-zero", "m-above-n", "n-plus", "n-minus", "key-replaced", "key-missing", "key-duplicated", "key-extra", "inactive-key-included", "garbage-code", "extra-wrong-program", "non-x-input", "recorded-hash", "wrong-version-for-height"},
	}
	vMuts[0] = vMuts[1]
	for i := 0; i < nCases; i++ {
		cs := c33Case{}
		cs.Provider = []string{"mock", "real"}[r.Intn(2)]
		cs.Era = 1 + r.Intn(3)
		cs.Ver = r.Intn(3)
		muts := vMuts[cs.Ver]
		cs.Mut = muts[(i/3+r.Intn(2))%len(muts)]
		// sizes
		switch r.Intn(4) {
		case 0:
			cs.NCRC = 12
		case 1:
			cs.NCRC = 1 + r.Intn(4)
		default:
			cs.NCRC = 1 + r.Intn(12)
		}
		if cs.Era == 3 {
			cs.NDpos = r.Intn(25)
			if r.Intn(3) == 0 {
				cs.NDpos = 24
			}
		}
		// sets with more than 32 cross-chain arbiters (main-net shape 12+24 and
		// beyond): always for the mutations that need an index region above 31,
		// for a third of the other cases
		minTotal := 0
		if cs.Ver == 2 {
			switch cs.Mut {
			case "dup-index-32-63", "honest-high-indexes":
				minTotal = 35 // index 32 exists even if two inactive CRC members drop out of the list
			case "dup-index-ge-64":
				minTotal = 67
			case "dup-index-last", "oob-index", "oob-len-plus-one", "all-same-index", "dup-index":
				if r.Intn(3) != 0 {
					minTotal = 33
				}
			}
		}
		if minTotal == 0 && r.Intn(3) == 0 {
			minTotal = 33
		}
		if minTotal > 0 {
			total := c33LargeTotal(r, minTotal)
			shape := r.Intn(4)
			if cs.Era != 3 {
				shape = 3 // before DPOSNodeCrossChainHeight the cross-chain list is the CRC list
			}
			switch shape {
			case 0: // main-net shape: 12 CRC + DPoS arbiters
				cs.NCRC = 12
			case 1:
				cs.NCRC = 1 + r.Intn(12)
			case 2:
				cs.NCRC = 13 + r.Intn(total-12)
			default:
				cs.NCRC = total
			}
			cs.NDpos = total - cs.NCRC
		}
		crcFlags := make([]bool, cs.NCRC)
		for j := range crcFlags {
			crcFlags[j] = true
		}
		if (cs.Mut == "names-inactive" || cs.Mut == "inactive-key-included" || r.Intn(6) == 0) && cs.NCRC >= 4 {
			k := 1 + r.Intn(2)
			for _, j := range r.Perm(cs.NCRC)[:k] {
				crcFlags[j] = false
				cs.Inactive = append(cs.Inactive, j)
			}
			sort.Ints(cs.Inactive)
		}
		// heights: C < D always; S and R anywhere
		hs := append([]uint32{}, c33Heights...)
		cs.C, cs.D = hs[1], hs[2]
		cs.S = []uint32{150, 250, 350, math.MaxUint32, math.MaxUint32}[r.Intn(5)]
		cs.R = []uint32{0, 150, 250, 350, math.MaxUint32}[r.Intn(5)]
		switch cs.Era {
		case 1:
			cs.H = []uint32{cs.C - 50, cs.C - 1, 1, cs.C}[r.Intn(3)] // h < C (h == C is drawn separately below)
		case 2:
			cs.H = []uint32{cs.C, cs.C + 1, cs.D - 1, cs.C + 50}[r.Intn(4)]
		default:
			cs.H = []uint32{cs.D, cs.D + 1, cs.D + 100}[r.Intn(3)]
		}
		if r.Intn(5) == 0 { // sit exactly on the Schnorr / restriction switches
			cand := []uint32{}
			for _, x := range []uint32{cs.S, cs.S + 1, cs.S - 1, cs.R, cs.R - 1, cs.R + 1} {
				if x == 0 || x > 1000 {
					continue
				}
				if (cs.Era == 1 && x < cs.C) || (cs.Era == 2 && x >= cs.C && x < cs.D) || (cs.Era == 3 && x >= cs.D) {
					cand = append(cand, x)
				}
			}
			if len(cand) > 0 {
				cs.H = cand[r.Intn(len(cand))]
			}
		}
		if cs.Mut == "wrong-version-for-height" {
			// V0/V1 above the Schnorr start; (V2 is legal at every height: then this is an honest case)
			if cs.Ver != 2 {
				cs.S = cs.H - 1
			}
		} else if cs.Ver != 2 && cs.H > cs.S {
			cs.S = math.MaxUint32
		}
		keys := append([]arbKey{}, universe[:cs.NCRC+cs.NDpos]...)
		env := c33Inject(c, nd, &cs, keys, crcFlags)
		if env == nil {
			return
		}
		cs.NCC = len(env.cc)
		cfg := *nd.Cfg
		cfg.SchnorrStartHeight = cs.S
		cfg.CRConfiguration.CRClaimDPOSNodeStartHeight = cs.C
		cfg.DPoSConfiguration.DPOSNodeCrossChainHeight = cs.D
		cfg.CrossChainUTXORestrictionHeight = cs.R
		cfg.CRConfiguration.MemberCount = env.member
		cfg.CRConfiguration.CRAgreementCount = env.agree
		cfg.DPoSConfiguration.NormalArbitratorsCount = env.normalN

		tx, refs, claimed := c33Build(r, &cs, env, outsiders, recorded, i)
		para := functions.GetTransactionParameters(tx, cs.H, 0, &cfg, nd.Chain, 0)
		tx.SetParameters(para)
		tx.SetReferences(refs)
		var verdict error
		c.Begin("C33 A case %d %+v", i, cs)
		p, pv, _ := kit.Guard(func() {
			e, _ := tx.SpecialContextCheck()
			if e != nil {
				verdict = e
			}
		})
		id := fmt.Sprintf("A:%s:%d:%d/%d:%v:V%d:%s:%v:%d/%d/%d:%d:%d:%d", cs.Provider, cs.Era, cs.NCRC, cs.NDpos, cs.Inactive, cs.Ver, cs.Mut, cs.Signers, cs.M, cs.N, cs.NKeys, cs.H, cs.S, cs.R)
		if p {
			c.Inc("panics_seen")
			oob := false
			for _, s := range cs.Signers {
				if s >= len(env.cc) {
					oob = true
				}
			}
			if cs.Ver == 2 && oob && cs.H < cs.R {
				c.Inc("panics_seen:oob-index-below-restriction(C03)")
			} else {
				c.Inc("panics_seen:other")
				c.Note("panic outside the known out-of-range case: %v in %+v", pv, cs)
			}
			c.Case(id, false)
			continue
		}
		c.Case(id, len(env.cc) > 0)
		c.Inc("A_verdicts")
		c.Inc("A_provider:" + cs.Provider)
		c.Inc(fmt.Sprintf("A_ver:V%d", cs.Ver))
		c.Inc(fmt.Sprintf("A_era:%d", cs.Era))
		c.Inc("A_mut:" + cs.Mut)
		if cs.H >= cs.R {
			c.Inc("A_restriction_on")
		} else {
			c.Inc("A_restriction_off")
		}
		failed := c33Model(&cs, env, tx, refs, claimed, recorded)
		accept := verdict == nil
		c33Regions(c, &cs, env, failed, verdict)
		if i < 3 && c.Shard == 0 {
			c.Sample(map[string]interface{}{"part": "A", "case": cs, "real_accepts": accept, "model_failed_clauses": failed})
		}
		if accept {
			c.Inc("A_accept")
			if len(failed) > 0 {
				c.Violate(failed[0], fmt.Sprintf("SpecialContextCheck accepts a payload-V%d withdrawal although: %s (mutation %s, height %d, restriction height %d, %d cross-chain arbiters, signers %v)", cs.Ver, strings.Join(failed, "; "), cs.Mut, cs.H, cs.R, len(env.cc), cs.Signers), cs)
			}
			if cs.Mut == "honest" || cs.Mut == "permuted" || cs.Mut == "keys-permuted" || cs.Mut == "honest-high-indexes" {
				c.Inc("A_honest_accept")
			}
			if cs.Ver != 2 && (cs.M > cs.N || cs.N != cs.NKeys) {
				c.Inc("A_special_accept_of_unsatisfiable_script(m>n or n!=keys; refused at the signature step)")
			}
			if cs.Ver == 2 && cs.H < cs.R && hasDup(cs.Signers) {
				c.Inc("A_dup_accepted_below_restriction(by design)")
			}
			if cs.Ver == 2 {
				distinct := map[int]bool{}
				for _, s := range cs.Signers {
					distinct[s] = true
				}
				if len(distinct)*3 < 2*len(env.cc) {
					c.Inc(fmt.Sprintf("A_v2_accept_with_less_than_two_thirds_of_listed_arbiters(note):era%d", cs.Era))
				}
				for _, s := range cs.Signers {
					if s < len(env.ccNormal) && !env.ccNormal[s] {
						c.Inc("A_v2_accept_names_inactive_arbiter(note)")
						break
					}
				}
			}
		} else {
			c.Inc("A_reject")
			if len(failed) == 0 {
				c.Inc("A_reject_though_model_clauses_hold")
				if cs.Mut == "honest" {
					c.Inc("A_honest_rejected")
					c.Note("honest case rejected: %v  %+v", verdict, cs)
				}
			}
		}
	}
}

const c33DupClause = "accept:repeated-or-out-of-range-signer-index-after-restriction-height"

// c33Regions counts (it decides nothing) which arbiter-set sizes and which
// index regions of the signer list the verdicts covered: sets above 32 and 64
// members, repeated indexes below 32 / in 32..63 / from 64 / at the last
// index, and out-of-range indexes exactly at len(arbiters). "rejected" counts
// only cases whose single defect (per the model) is the one named.
func c33Regions(c *kit.Ctx, cs *c33Case, env *c33Env, failed []string, verdict error) {
	n := len(env.cc)
	if n > 32 {
		c.Inc("arbiter_sets_over_32")
		c.Inc("A_provider_over_32:" + cs.Provider)
		c.Inc(fmt.Sprintf("A_ver_over_32:V%d", cs.Ver))
		if n == 36 && cs.NCRC == 12 {
			c.Inc("arbiter_sets_mainnet_shape_12+24")
		}
	}
	if n > 64 {
		c.Inc("arbiter_sets_over_64")
	}
	c.Max("max:cross_chain_arbiters", int64(n))
	if cs.Ver != 2 {
		return
	}
	c.Max("max:signer_list_length", int64(len(cs.Signers)))
	count := map[int]int{}
	oobAtLen, oob, maxIdx := false, false, -1
	for _, s := range cs.Signers {
		if s >= n {
			oob = true
			if s == n {
				oobAtLen = true
			}
			continue
		}
		count[s]++
		if s > maxIdx {
			maxIdx = s
		}
	}
	rejected := verdict != nil
	only := func(clauses ...string) bool { // the model names exactly these clauses
		return fmt.Sprint(failed) == fmt.Sprint(clauses)
	}
	dupLo, dupMid, dupHi, dupLast, whole := false, false, false, false, false
	for idx, k := range count {
		if k < 2 {
			continue
		}
		switch {
		case idx < 32:
			dupLo = true
		case idx < 64:
			dupMid = true
		default:
			dupHi = true
		}
		if idx == n-1 {
			dupLast = true
		}
		if k == len(cs.Signers) && idx >= 32 {
			whole = true
		}
	}
	on := cs.H >= cs.R
	if !on {
		if (dupMid || dupHi) && !rejected {
			c.Inc("duplicate_index_ge_32_accepted_below_restriction(by design)")
		}
		if oobAtLen {
			c.Inc("oob_at_len_below_restriction_cases")
			if rejected {
				c.Inc("oob_at_len_below_restriction_rejected")
			}
		}
		return
	}
	if len(failed) == 0 && !rejected && maxIdx >= 32 {
		c.Inc("honest_index_ge_32_accepted")
		if maxIdx >= 64 {
			c.Inc("honest_index_ge_64_accepted")
		}
		if maxIdx == n-1 {
			c.Inc("honest_last_index_over_32_accepted")
		}
	}
	single := only(c33DupClause)
	dupText := rejected && strings.Contains(verdict.Error(), "duplicate schnorr withdraw signer index")
	tally := func(is bool, name string) {
		if !is || oob {
			return
		}
		c.Inc(name + "_cases")
		if single && rejected {
			c.Inc(name + "_rejected")
			if dupText {
				c.Inc(name + "_rejected_with_the_duplicate_error")
			}
		}
	}
	tally(dupLo, "duplicate_index_lt_32")
	tally(dupMid || dupHi, "duplicate_index_ge_32")
	tally(dupMid, "duplicate_index_32_63")
	tally(dupHi, "duplicate_index_ge_64")
	tally(dupLast && n > 32, "duplicate_last_index_over_32")
	tally(whole, "whole_list_one_index_ge_32")
	if oobAtLen {
		c.Inc("oob_at_len_cases")
		if n > 32 {
			c.Inc("oob_at_len_over_32_cases")
			if rejected && only(c33DupClause, "accept:out-of-range-signer-index") {
				c.Inc("oob_at_len_over_32_rejected")
			}
		}
	}
}

func hasDup(s []int) bool {
	seen := map[int]bool{}
	for _, x := range s {
		if seen[x] {
			return true
		}
		seen[x] = true
	}
	return false
}

// c33Inject installs the arbiter set of the case and returns what the model
// needs to know about it.
func c33Inject(c *kit.Ctx, nd *node.Node, cs *c33Case, keys []arbKey, crcFlags []bool) *c33Env {
	env := &c33Env{}
	nCRC := cs.NCRC
	env.member = uint32(nCRC)
	env.agree = uint32(nCRC * 2 / 3)
	env.normalN = cs.NDpos
	all := members(keys, crcFlags, nCRC)
	crc := all[:nCRC]
	var ccMembers []state.ArbiterMember
	if cs.Era == 3 {
		ccMembers = all
	} else {
		ccMembers = crc
	}
	flagOf := func(i int) bool { return i >= nCRC || crcFlags[i] }
	if cs.Provider == "mock" {
		maj := len(ccMembers) * 2 / 3
		m := state.NewArbitratorsMock(ccMembers, 0, maj)
		m.CRCArbitrators = crc
		blockchain.DefaultLedger.Arbitrators = m
		// the mock leaves inactive CRC members out of GetArbitrators/GetCrossChainArbiters
		for i := range ccMembers {
			if flagOf(i) {
				env.cc = append(env.cc, keys[i])
				env.ccNormal = append(env.ccNormal, true)
			}
		}
		if cs.Era == 3 {
			for range env.cc {
				env.eraSet = append(env.eraSet, true)
			}
		} else {
			for i := 0; i < nCRC; i++ {
				env.eraSet = append(env.eraSet, crcFlags[i])
			}
		}
		env.ccCount, env.ccMajor = len(ccMembers), maj
	} else {
		a := nd.Arbiters
		blockchain.DefaultLedger.Arbitrators = a
		mp := map[common.Uint168]state.ArbiterMember{}
		for _, m := range crc {
			mp[m.GetOwnerProgramHash()] = m
		}
		a.CurrentCRCArbitersMap = mp
		a.CurrentArbitrators = all
		nd.Cfg.CRCOnlyDPOSHeight = 1
		var names []string
		for i := 0; i < nCRC; i++ {
			names = append(names, common.BytesToHexString(keys[i].Pub))
		}
		nd.Cfg.DPoSConfiguration.CRCArbiters = names
		if cs.Era == 3 {
			nd.Cfg.DPoSConfiguration.DPOSNodeCrossChainHeight = 1
			for i := range all {
				env.cc = append(env.cc, keys[i])
				env.ccNormal = append(env.ccNormal, flagOf(i))
				env.eraSet = append(env.eraSet, flagOf(i))
			}
		} else {
			nd.Cfg.DPoSConfiguration.DPOSNodeCrossChainHeight = math.MaxUint32
			idx := make([]int, nCRC)
			for i := range idx {
				idx[i] = i
			}
			sort.Slice(idx, func(x, y int) bool { return bytes.Compare(keys[idx[x]].Pub, keys[idx[y]].Pub) < 0 })
			for _, i := range idx {
				env.cc = append(env.cc, keys[i])
				env.ccNormal = append(env.ccNormal, crcFlags[i])
			}
			for i := 0; i < nCRC; i++ {
				env.eraSet = append(env.eraSet, crcFlags[i])
			}
		}
		env.ccCount = nCRC
		env.ccMajor = int(float64(nCRC) * 2 / 3)
	}
	// cross-check the injection through the interface the checks use
	got := blockchain.DefaultLedger.Arbitrators.GetCrossChainArbiters()
	if len(got) != len(env.cc) {
		c.Inconclusive("injection: GetCrossChainArbiters returns %d members, expected %d (%+v)", len(got), len(env.cc), *cs)
		return nil
	}
	for i := range got {
		if !bytes.Equal(got[i].NodePublicKey, env.cc[i].Pub) || got[i].IsNormal != env.ccNormal[i] {
			c.Inconclusive("injection: GetCrossChainArbiters[%d] differs from the injected member (%+v)", i, *cs)
			return nil
		}
	}
	return env
}

func (e *c33Env) needV2(cs *c33Case) int {
	mc := int(e.member)
	if cs.H <= cs.C {
		return mc*2/3 + 1
	}
	if cs.H < cs.D {
		return mc * 2 / 3
	}
	return mc*2/3 + 1
}

func (e *c33Env) minM(cs *c33Case) int {
	if cs.Ver == 0 && cs.H < cs.C {
		return e.ccMajor + 1
	}
	if cs.H >= cs.D {
		return e.normalN + 1
	}
	return int(e.agree)
}

func (e *c33Env) normalKeys() []arbKey {
	var ks []arbKey
	for i, k := range e.cc {
		if e.ccNormal[i] {
			ks = append(ks, k)
		}
	}
	return ks
}

// c33Build makes the transaction of the case: honest first, then the mutation.
func c33Build(r *rand.Rand, cs *c33Case, env *c33Env, outsiders []arbKey, recorded map[int]common.Uint256, seq int) (interfaces.Transaction, map[*common2.Input]common2.Output, []common.Uint256) {
	nIn := 1 + r.Intn(3)
	var ins []*common2.Input
	refs := map[*common2.Input]common2.Output{}
	for j := 0; j < nIn; j++ {
		in := &common2.Input{Previous: common2.OutPoint{TxID: hashOf(fmt.Sprintf("c33-in/%d/%d", seq, j)), Index: uint16(j)}}
		ins = append(ins, in)
		refs[in] = *defOut(xHash(fmt.Sprint("c33/", j%2)), 1000)
	}
	if cs.Mut == "non-x-input" {
		in := ins[r.Intn(len(ins))]
		refs[in] = *defOut(node.Key(30).ProgramHash, 1000)
		cs.NonX = true
	}
	claimed := []common.Uint256{hashOf(fmt.Sprintf("c33-claim/%d", seq))}
	if r.Intn(3) == 0 {
		claimed = append(claimed, hashOf(fmt.Sprintf("c33-claim/%d/b", seq)))
	}
	if cs.Mut == "recorded-hash" {
		claimed[len(claimed)-1] = recorded[cs.Ver]
		cs.Recorded = true
	}
	var programs []*pg.Program
	var signers []uint8
	nCC := len(env.cc)
	if cs.Ver == 2 {
		need := env.needV2(cs)
		// honest: `need` distinct active members (if there are that many; else everything there is)
		var pool []int
		for i := range env.cc {
			if env.ccNormal[i] {
				pool = append(pool, i)
			}
		}
		r.Shuffle(len(pool), func(i, j int) { pool[i], pool[j] = pool[j], pool[i] })
		if cs.Mut == "honest-high-indexes" {
			// honest list of the highest active indexes (includes the last one)
			sort.Sort(sort.Reverse(sort.IntSlice(pool)))
		}
		var sg []int
		for i := 0; i < need && i < len(pool); i++ {
			sg = append(sg, pool[i])
		}
		sort.Ints(sg)
		if len(sg) < need && (cs.Mut == "honest" || cs.Mut == "honest-high-indexes") {
			cs.Mut = "short" // not enough active members for an honest quorum
		}
		agg := sg
		switch cs.Mut {
		case "permuted":
			r.Shuffle(len(sg), func(i, j int) { sg[i], sg[j] = sg[j], sg[i] })
		case "short":
			if len(sg) >= need && need > 0 {
				sg = sg[:need-1]
			}
			agg = sg
		case "short2":
			if len(sg) >= 2 {
				sg = sg[:len(sg)-2]
			}
			agg = sg
		case "empty-signers":
			sg, agg = nil, nil
		case "longer-list":
			for i := need; i < len(pool) && i < need+3; i++ {
				sg = append(sg, pool[i])
			}
			agg = sg
		case "dup-index":
			if len(sg) >= 2 {
				sg[len(sg)-1] = sg[0]
			} else if len(sg) == 1 {
				sg = append(sg, sg[0])
			}
			agg = sg
		case "dup-index-0-31", "dup-index-32-63", "dup-index-ge-64", "dup-index-last":
			// an otherwise honest list in which ONE index of the wanted region
			// (the highest region the list has, if it is shorter) appears
			// 2..len(list) times; the aggregate is the matching sum
			t := c33DupTarget(r, cs.Mut, env)
			if t >= 0 {
				if len(sg) < 2 {
					sg = []int{t, t}
				} else {
					pos := -1
					for i, x := range sg {
						if x == t {
							pos = i
						}
					}
					if pos < 0 {
						pos = r.Intn(len(sg))
						sg[pos] = t
					}
					copies := 2
					switch r.Intn(4) {
					case 0:
						copies = 2 + r.Intn(len(sg)-1)
					case 1:
						copies = len(sg) // one arbiter stands in for the whole quorum
					}
					for _, q := range r.Perm(len(sg)) {
						if copies <= 1 {
							break
						}
						if q != pos {
							sg[q] = t
							copies--
						}
					}
				}
			}
			agg = sg
		case "all-same-index":
			if len(sg) > 0 && nCC > 32 && r.Intn(2) == 0 {
				sg[0] = sg[len(sg)-1] // the highest index of the list instead of the lowest
			}
			if len(sg) > 0 {
				x := sg[0]
				for i := range sg {
					sg[i] = x
				}
			}
			agg = sg
		case "oob-index":
			if len(sg) > 0 {
				sg[len(sg)-1] = nCC
			}
			agg = sg
		case "oob-len-plus-one":
			if len(sg) > 0 {
				sg[r.Intn(len(sg))] = nCC + 1
			}
			agg = sg
		case "oob-255":
			if len(sg) > 0 {
				sg[0] = 255
			}
			agg = sg
		case "names-inactive":
			for i := range env.cc {
				if !env.ccNormal[i] && len(sg) > 0 {
					sg[0] = i
					if hasDup(sg) {
						sg[0] = agg[0]
					}
					break
				}
			}
			agg = sg
		case "wrong-aggregate":
			// aggregate of a different member set of the same size
			agg = nil
			for i := 0; i < len(sg); i++ {
				agg = append(agg, (sg[i]+1)%maxInt(nCC, 1))
			}
			if fmt.Sprint(sortedInts(agg)) == fmt.Sprint(sortedInts(sg)) {
				agg = nil // same set: use an outsider below
			}
		case "aggregate-minus-one":
			if len(sg) > 1 {
				agg = sg[:len(sg)-1]
			} else {
				agg = nil
			}
		case "aggregate-plus-one":
			agg = append(append([]int{}, sg...), sg[0:minInt(1, len(sg))]...)
		}
		for _, s := range sg {
			signers = append(signers, uint8(s))
		}
		cs.Signers = sg
		var code []byte
		var ks []arbKey
		for _, s := range agg {
			if s < nCC {
				ks = append(ks, env.cc[s])
			}
		}
		if (cs.Mut == "wrong-aggregate" && agg == nil) || len(ks) == 0 {
			ks = []arbKey{outsiders[0]}
		}
		if x, y, ok := sumPoints(ks); ok {
			code = schnorrCode(x, y)
		} else {
			code = schnorrCode(outsiders[1].Acct.PublicKey.X, outsiders[1].Acct.PublicKey.Y)
		}
		switch cs.Mut {
		case "non-schnorr-code":
			code = outsiders[0].Acct.RedeemScript
		case "multisig-code":
			var keys [][]byte
			for _, k := range env.normalKeys() {
				keys = append(keys, k.Pub)
			}
			code = ccScript(maxInt(len(keys)*2/3+1, 1), len(keys), keys)
		}
		programs = []*pg.Program{{Code: code, Parameter: make([]byte, 64)}}
		if cs.Mut == "extra-wrong-program" {
			programs = append(programs, &pg.Program{Code: schnorrCode(outsiders[2].Acct.PublicKey.X, outsiders[2].Acct.PublicKey.Y), Parameter: make([]byte, 64)})
		}
	} else {
		nk := env.normalKeys()
		var keys [][]byte
		for _, k := range nk {
			keys = append(keys, k.Pub)
		}
		n := len(keys)
		m := env.minM(cs)
		if m > n { // no honest script exists: keep the closest one
			m = n
		}
		if m < 1 {
			m = 1
		}
		switch cs.Mut {
		case "keys-permuted":
			r.Shuffle(len(keys), func(i, j int) { keys[i], keys[j] = keys[j], keys[i] })
		case "m-low":
			m = env.minM(cs) - 1
			if m < 1 {
				m = 1
				if env.minM(cs) <= 1 {
					m = 0
				}
			}
		case "m-zero":
			m = 0
		case "m-above-n":
			m = n + 1
		case "n-plus":
			n++
		case "n-minus":
			n--
		case "key-replaced":
			if len(keys) > 0 {
				keys[r.Intn(len(keys))] = outsiders[0].Pub
			}
		case "key-missing":
			if len(keys) > 1 {
				keys = keys[:len(keys)-1]
			}
		case "key-duplicated":
			if len(keys) > 1 {
				keys[len(keys)-1] = keys[0]
			}
		case "key-extra":
			keys = append(keys, outsiders[1].Pub)
		case "inactive-key-included":
			for i, k := range env.cc {
				if !env.ccNormal[i] {
					keys = append(keys, k.Pub)
					n++
					break
				}
			}
		}
		if cs.Mut == "honest" || cs.Mut == "keys-permuted" {
			if len(nk) < 2 {
				cs.Mut = "no-honest-script(single arbiter)"
			} else if cs.Ver == 0 && cs.H < cs.C && len(nk) != env.ccCount {
				cs.Mut = "no-honest-script(inactive arbiter before CR-claim height)"
			} else if env.minM(cs) > len(nk) {
				cs.Mut = "no-honest-script(required count above active arbiters)"
			}
		}
		cs.M, cs.N, cs.NKeys = m, n, len(keys)
		code := ccScript(m, n, keys)
		if cs.Mut == "garbage-code" {
			code = []byte{opPUSH1, 0x21, 1, 2, 3, opPUSH1, opCROSS}
		}
		programs = []*pg.Program{{Code: code, Parameter: []byte{}}}
		if cs.Mut == "extra-wrong-program" {
			programs = append(programs, &pg.Program{Code: ccScript(1, 1, [][]byte{outsiders[0].Pub}), Parameter: []byte{}})
		}
	}
	cs.Programs = len(programs)
	tx := withdrawTx(byte(cs.Ver), ins, node.Key(31).ProgramHash, 100, claimed, signers, programs)
	return tx, refs, claimed
}

// c33DupTarget picks the index a dup-index-<region> mutation repeats: an
// active member of the region if there is one. A list that does not reach the
// region gets the duplicate in its highest region.
func c33DupTarget(r *rand.Rand, mut string, env *c33Env) int {
	n := len(env.cc)
	if n == 0 {
		return -1
	}
	lo, hi := 0, n-1
	switch mut {
	case "dup-index-0-31":
		hi = minInt(31, n-1)
	case "dup-index-32-63":
		lo, hi = 32, minInt(63, n-1)
	case "dup-index-ge-64":
		lo = 64
	case "dup-index-last":
		lo = n - 1
	}
	for lo > hi { // region not present in this list: one region down
		lo -= 32
		if lo < 0 {
			lo = 0
		}
	}
	var active []int
	for i := lo; i <= hi; i++ {
		if env.ccNormal[i] {
			active = append(active, i)
		}
	}
	if len(active) > 0 {
		return active[r.Intn(len(active))]
	}
	return lo + r.Intn(hi-lo+1)
}

func maxInt(a, b int) int {
	if a > b {
		return a
	}
	return b
}
func sortedInts(v []int) []int {
	o := append([]int{}, v...)
	sort.Ints(o)
	return o
}

// c33Model lists the clauses of the property an ACCEPTED withdrawal would
// break (empty = accepting is fine). It looks only at the transaction bytes,
// the injected arbiter set and the heights.
func c33Model(cs *c33Case, env *c33Env, tx interfaces.Transaction, refs map[*common2.Input]common2.Output, claimed []common.Uint256, recorded map[int]common.Uint256) []string {
	var failed []string
	for _, o := range refs {
		if o.ProgramHash[0] != prefixX {
			failed = append(failed, "accept:spends-non-X-utxo")
			break
		}
	}
	if cs.H > cs.S && cs.Ver != 2 {
		failed = append(failed, "accept:non-schnorr-withdrawal-after-SchnorrStartHeight")
	}
	for _, h := range claimed {
		for _, rh := range recorded {
			if h == rh {
				failed = append(failed, fmt.Sprintf("single-use:V%d-context-check-accepts-recorded-hash", cs.Ver))
			}
		}
	}
	if len(tx.Programs()) == 0 {
		failed = append(failed, "accept:no-program")
	}
	if cs.Ver == 2 {
		pl := tx.Payload().(*payload.WithdrawFromSideChain)
		if len(pl.Signers) < env.needV2(cs) {
			failed = append(failed, "accept:signer-list-too-short")
		}
		oob, dup := false, false
		seen := map[uint8]bool{}
		var ks []arbKey
		for _, s := range pl.Signers {
			if int(s) >= len(env.cc) {
				oob = true
				continue
			}
			if seen[s] {
				dup = true
			}
			seen[s] = true
			ks = append(ks, env.cc[s])
		}
		if cs.H >= cs.R && (oob || dup) {
			failed = append(failed, c33DupClause)
		}
		if oob {
			failed = append(failed, "accept:out-of-range-signer-index")
		} else {
			var want []byte
			if x, y, ok := sumPoints(ks); ok {
				want = schnorrCode(x, y)
			}
			for _, p := range tx.Programs() {
				if want == nil || !bytes.Equal(p.Code, want) {
					failed = append(failed, "accept:program-is-not-the-aggregate-of-the-named-arbiters")
					break
				}
			}
		}
		return failed
	}
	// V0 / V1 multi-sign code
	nk := env.normalKeys()
	for _, p := range tx.Programs() {
		code := p.Code
		if len(code) < 3+34 || code[len(code)-1] != opCROSS || (len(code)-3)%34 != 0 {
			failed = append(failed, "accept:multisig-code-malformed")
			break
		}
		m := int(code[0]) - opPUSH1 + 1
		n := int(code[len(code)-2]) - opPUSH1 + 1
		var ks [][]byte
		for off := 1; off+34 <= len(code)-2; off += 34 {
			ks = append(ks, code[off+1:off+34])
		}
		// n != number of keys or m > n make the script unsatisfiable (the
		// signature step refuses it); only the security-relevant clauses count
		_ = n
		if m < env.minM(cs) || m < 1 {
			failed = append(failed, "accept:multisig-m-below-required-count")
		}
		want := map[string]int{}
		for _, k := range nk {
			want[string(k.Pub)]++
		}
		ok := len(ks) == len(nk)
		for _, k := range ks {
			want[string(k)]--
		}
		for _, v := range want {
			if v != 0 {
				ok = false
			}
		}
		if !ok {
			failed = append(failed, "accept:multisig-keys-are-not-the-current-arbiters")
		}
	}
	return failed
}

// ---------------------------------------------------------------- B: histories

func c33Histories(c *kit.Ctx, nd *node.Node, r *rand.Rand) {
	// undo the sweep's recording block first: the three hashes must become free again
	if c33Undo != nil {
		if err := c33Undo(); err != nil {
			c.Violate("rollback:error", fmt.Sprintf("RollbackBlock of the recording block failed: %v", err), nil)
			return
		}
	}
	st := nd.Store
	arbs := arbKeys(600, 12)
	mock := state.NewArbitratorsMock(originMembers(arbs), 0, 8)
	mock.CRCArbitrators = originMembers(arbs)
	blockchain.DefaultLedger.Arbitrators = mock
	saveCfg := *nd.Cfg
	saveAlgo := nd.Arbiters.State.ConsensusAlgorithm
	defer func() {
		*nd.Cfg = saveCfg
		nd.Arbiters.State.ConsensusAlgorithm = saveAlgo
	}()

	// real X-address outputs: fund through a real block
	xph := xHash("c33-live")
	g := nd.GenesisUTXO()
	nX := 30*c.N(2, 6) + 8
	per := common.Fixed64(10 * 1e8)
	var outs []node.Out
	for i := 0; i < nX; i++ {
		outs = append(outs, node.Out{To: xph, Value: per})
	}
	outs = append(outs, node.Out{To: node.Key(5).ProgramHash, Value: per}) // a non-X output
	outs = append(outs, node.Out{To: nd.Found.ProgramHash, Value: g.Value - per*common.Fixed64(nX+1) - 10000})
	fund := node.Transfer([]node.UTXORef{g}, outs, common2.TxVersion09)
	if _, err := nd.MineTip(fund); err != nil {
		c.Inconclusive("B: funding block rejected: %v", err)
		return
	}
	nd.MineN(2)
	next := 0
	takeX := func() node.UTXORef {
		u := node.UTXORef{TxID: fund.Hash(), Index: uint16(next), Value: per}
		next++
		return u
	}
	// era for the live part: after the CR-claim height, before DPoS cross-chain, restriction on
	nd.Cfg.SchnorrStartHeight = math.MaxUint32
	nd.Cfg.NormalSchnorrStartHeight = 1
	nd.Cfg.CRConfiguration.CRClaimDPOSNodeStartHeight = 1
	nd.Cfg.DPoSConfiguration.DPOSNodeCrossChainHeight = math.MaxUint32
	nd.Cfg.CrossChainUTXORestrictionHeight = 1
	nd.Cfg.CRConfiguration.MemberCount = 12
	nd.Cfg.CRConfiguration.CRAgreementCount = 8
	nd.Arbiters.State.ConsensusAlgorithm = state.DPOS

	var keys [][]byte
	for _, a := range arbs {
		keys = append(keys, a.Pub)
	}
	fee := common.Fixed64(10000)
	// build a fully signed withdrawal
	var mkExtra []*common2.Input
	mk := func(ver byte, u node.UTXORef, hashes []common.Uint256, badSig bool) interfaces.Transaction {
		ins := append(inputsOf([]node.UTXORef{u}), mkExtra...)
		each := (u.Value - fee) / common.Fixed64(len(hashes))
		switch ver {
		case 2:
			var signers []uint8
			var ks []arbKey
			for _, i := range r.Perm(12)[:9] {
				signers = append(signers, uint8(i))
				ks = append(ks, arbs[i])
			}
			code, _ := schnorrCodeFor(arbs, signers)
			tx := withdrawTx(ver, ins, node.Key(8).ProgramHash, each, hashes, signers, []*pg.Program{{Code: code, Parameter: make([]byte, 64)}})
			buf := new(bytes.Buffer)
			tx.SerializeUnsigned(buf)
			var privs []*big.Int
			for _, k := range ks {
				privs = append(privs, new(big.Int).SetBytes(k.Acct.PrivKey()))
			}
			if badSig {
				privs = privs[:len(privs)-1]
			}
			sig, err := crypto.AggregateSignatures(privs, common.Sha256D(buf.Bytes()))
			if err != nil {
				panic(err)
			}
			tx.Programs()[0].Parameter = sig[:]
			return tx
		default:
			code := ccScript(8, 12, keys)
			tx := withdrawTx(ver, ins, node.Key(8).ProgramHash, each, hashes, nil, []*pg.Program{{Code: code, Parameter: nil}})
			buf := new(bytes.Buffer)
			tx.SerializeUnsigned(buf)
			var param []byte
			nSig := 8
			if badSig {
				nSig = 7
			}
			for _, i := range r.Perm(12)[:nSig] {
				sig, err := crypto.Sign(arbs[i].Acct.PrivKey(), buf.Bytes())
				if err != nil {
					panic(err)
				}
				param = append(param, byte(len(sig)))
				param = append(param, sig...)
			}
			tx.Programs()[0].Parameter = param
			return tx
		}
	}
	ctxCheck := func(tx interfaces.Transaction) error {
		var res error
		p, pv, _ := kit.Guard(func() {
			_, e := nd.Chain.CheckTransactionContext(nd.Height()+1, tx, 0, 0)
			if e != nil {
				res = e
			}
		})
		if p {
			return fmt.Errorf("panic: %v", pv)
		}
		return res
	}
	sanity := func(tx interfaces.Transaction) error {
		var res error
		kit.Guard(func() {
			if e := nd.Chain.CheckTransactionSanity(nd.Height()+1, tx); e != nil {
				res = e
			}
		})
		return res
	}
	tipB, tipN := nd.TipBlock(), nd.Chain.BestChain
	saveBlock := func(seq int, txs ...interfaces.Transaction) (*types.Block, *blockchain.BlockNode, error) {
		h := tipB.Height + 1
		cb := nd.CoinbaseTx(nd.Miner.Address, h, 0xC33B00+uint64(seq))
		cb.Outputs()[0].Value, cb.Outputs()[1].Value = 1, 2
		blk := &types.Block{Header: common2.Header{Previous: tipB.Hash(), Timestamp: tipB.Timestamp + 1, Bits: nd.Cfg.PowConfiguration.PowLimitBits, Height: h},
			Transactions: append([]interfaces.Transaction{cb}, txs...)}
		node.Seal(blk, false)
		hash := blk.Hash()
		n := blockchain.NewBlockNode(&blk.Header, &hash)
		n.Parent = tipN
		n.WorkSum = new(big.Int).Add(tipN.WorkSum, n.WorkSum)
		return blk, n, st.SaveBlock(blk, n, nil, blockchain.CalcPastMedianTime(tipN))
	}
	rounds := c.N(2, 6)
	for rd := 0; rd < rounds; rd++ {
		for v := byte(0); v < 3; v++ {
			tag := fmt.Sprintf("V%d", v)
			c.Begin("C33 B round %d %s", rd, tag)
			H := hashOf(fmt.Sprintf("c33-live/%d/%d/%d", c.Shard, rd, v))
			H2 := hashOf(fmt.Sprintf("c33-live2/%d/%d/%d", c.Shard, rd, v))
			c.Inc("B_histories")
			c.Case(fmt.Sprintf("B:%d:%s:%s", rd, tag, H.String()[:8]), true)
			w1 := mk(v, takeX(), []common.Uint256{H}, false)
			// positive control: honest, fully signed, accepted by the complete context check
			if err := ctxCheck(w1); err != nil {
				c.Note("B: honest %s withdrawal rejected by CheckTransactionContext: %v", tag, err)
				c.Inc("B_honest_rejected")
				continue
			}
			c.Inc("B_full_context_accept")
			// a wrong signature / a signature short of the quorum must fail in the complete check
			bad := mk(v, takeX(), []common.Uint256{hashOf(fmt.Sprintf("bad/%d/%d", rd, v))}, true)
			if err := ctxCheck(bad); err == nil {
				c.Violate("accept:signatures-below-quorum:"+tag, fmt.Sprintf("CheckTransactionContext accepts a %s withdrawal whose program parameter is not a quorum signature", tag), nil)
			} else {
				c.Inc("B_bad_signature_rejected")
			}
			// a withdrawal that also spends an ordinary (non-X) output
			if rd == 0 {
				mkExtra = []*common2.Input{{Previous: common2.OutPoint{TxID: fund.Hash(), Index: uint16(nX)}}}
				mixed := mk(v, takeX(), []common.Uint256{hashOf(fmt.Sprintf("mixed/%d", v))}, false)
				mkExtra = nil
				if err := ctxCheck(mixed); err == nil {
					c.Violate("accept:spends-non-X-utxo", fmt.Sprintf("CheckTransactionContext accepts a %s withdrawal one of whose inputs is an ordinary address output", tag), nil)
				} else {
					c.Inc("B_non_x_input_rejected")
				}
			}
			// the hash twice inside ONE transaction (sanity: CheckTransactionPayload / CheckDuplicateSidechainTx)
			twice := mk(v, takeX(), []common.Uint256{H2, H2}, false)
			if err := sanity(twice); err == nil {
				c.Inc("B_same_tx_duplicate_passes_sanity:" + tag)
				if err2 := ctxCheck(twice); err2 == nil {
					c.Violate("single-use:same-hash-twice-in-one-transaction-accepted(output-carried hashes)", fmt.Sprintf("a fully signed %s withdrawal that pays out the same side-chain hash in two outputs passes sanity and context checks", tag), nil)
				}
			} else {
				c.Inc("B_same_tx_duplicate_rejected:" + tag)
			}
			// two transactions with the same hash in ONE block (block sanity)
			wa, wb := mk(v, takeX(), []common.Uint256{H2}, false), mk(v, takeX(), []common.Uint256{H2}, false)
			cbx := nd.CoinbaseTx(nd.Miner.Address, tipB.Height+1, 77)
			dupBlk := &types.Block{Header: common2.Header{Previous: tipB.Hash(), Timestamp: tipB.Timestamp + 1, Bits: nd.Cfg.PowConfiguration.PowLimitBits, Height: tipB.Height + 1},
				Transactions: []interfaces.Transaction{cbx, wa, wb}}
			if err := blockchain.CheckDuplicateTx(dupBlk); err == nil {
				ea, eb := ctxCheck(wa), ctxCheck(wb)
				if ea == nil && eb == nil {
					c.Violate("single-use:same-hash-in-two-transactions-of-one-block-accepted(output-carried hashes)", fmt.Sprintf("two fully signed %s withdrawals of the same side-chain hash pass the block duplicate check (CheckDuplicateTx) and each passes the context check against the chain", tag), nil)
				}
			} else {
				c.Inc("B_same_block_duplicate_rejected:" + tag)
			}
			// mempool slot
			if err := nd.TxPool.AppendToTxPool(w1); err != nil {
				c.Note("B: honest %s withdrawal rejected by the mempool: %v", tag, err)
				c.Inc("B_pool_honest_rejected")
			} else {
				c.Inc("B_pool_accept")
				w1b := mk(v, takeX(), []common.Uint256{H}, false)
				if err := nd.TxPool.AppendToTxPool(w1b); err == nil {
					c.Violate("single-use:"+tag+"-mempool-accepts-second-withdrawal-of-same-hash", fmt.Sprintf("the mempool holds two %s withdrawals of side-chain hash %s at once (IsDuplicateSidechainTx=%v)", tag, H.String()[:16], nd.TxPool.IsDuplicateSidechainTx(H)), nil)
					nd.TxPool.RemoveTransaction(w1b)
				} else {
					c.Inc("B_pool_conflict_rejected")
				}
				nd.TxPool.RemoveTransaction(w1)
			}
			// record H on the chain (store level, what connectBlock does)
			blk, n, err := saveBlock(rd*8+int(v), w1)
			if err != nil {
				c.Inconclusive("B: SaveBlock: %v", err)
				return
			}
			if !st.IsSidechainTxHashDuplicate(H) {
				c.Violate("single-use:"+tag+"-hash-not-recorded-on-connect", "after SaveBlock the withdrawn hash is not in the Tx3 index", nil)
			}
			// second use against the chain state
			w2 := mk(v, takeX(), []common.Uint256{H}, false)
			c.Inc("B_second_use_offered")
			if err := ctxCheck(w2); err == nil {
				c.Violate("single-use:"+tag+"-context-check-accepts-recorded-hash", fmt.Sprintf("side-chain hash %s is recorded on the active chain (IsSidechainTxHashDuplicate=true); a second, fully signed %s withdrawal of it passes CheckTransactionContext", H.String()[:16], tag), nil)
			} else {
				c.Inc("B_second_use_rejected")
			}
			if err := nd.TxPool.AppendToTxPool(w2); err == nil {
				c.Inc("B_pool_accepts_recorded_hash:" + tag)
				nd.TxPool.RemoveTransaction(w2)
			}
			// roll back: the hash is free again
			if err := st.RollbackBlock(blk, n, nil, blockchain.CalcPastMedianTime(tipN)); err != nil {
				c.Violate("rollback:error", fmt.Sprintf("RollbackBlock failed: %v", err), nil)
				return
			}
			if st.IsSidechainTxHashDuplicate(H) {
				c.Inc("B_hash_still_recorded_after_rollback:" + tag + "(C13)")
			}
			if err := ctxCheck(w2); err != nil {
				c.Violate("single-use:"+tag+"-not-accepted-again-after-rollback", fmt.Sprintf("after the block was disconnected the withdrawal of %s is still rejected: %v", H.String()[:16], err), nil)
			} else {
				c.Inc("B_accept_after_rollback")
			}
			if c.Shard == 0 && rd == 0 {
				c.Sample(map[string]interface{}{"part": "B", "payload_version": int(v), "hash": H.String(), "steps": "accept, pool, pool-conflict, save, second-use, rollback, accept-again"})
			}
		}
	}
	// the same history through the node's own block processing (ProcessBlock, reorganisation)
	for v := byte(0); v < 3; v++ {
		tag := fmt.Sprintf("V%d", v)
		HL := hashOf(fmt.Sprintf("c33-liveblock/%d/%d", c.Shard, v))
		wL := mk(v, takeX(), []common.Uint256{HL}, false)
		forkParent := nd.TipBlock()
		c.Begin("C33 B live block path %s", tag)
		h0 := nd.Height()
		if _, err := nd.MineTip(wL); err != nil || nd.Height() != h0+1 {
			c.Inc("B_live_block_path_unavailable:" + tag)
			c.Note("B: live block with an honest %s withdrawal not connected: %v", tag, err)
			continue
		}
		c.Inc("B_live_block_with_withdrawal_connected")
		if !st.IsSidechainTxHashDuplicate(HL) {
			c.Violate("single-use:"+tag+"-hash-not-recorded-on-connect", "after ProcessBlock the withdrawn hash is not in the Tx3 index", nil)
		}
		wL2 := mk(v, takeX(), []common.Uint256{HL}, false)
		b2, err := nd.Assemble(node.BlockSpec{Txs: []interfaces.Transaction{wL2}, Fees: fee})
		if err == nil {
			h1 := nd.Height()
			nd.Process(b2)
			if nd.Height() != h1 {
				c.Violate("single-use:"+tag+"-context-check-accepts-recorded-hash", fmt.Sprintf("ProcessBlock connected a block whose %s withdrawal pays out side-chain hash %s a second time on the active chain", tag, HL.String()[:16]), nil)
				// keep going on the longer chain: the fork below must be heavier than it
			} else {
				c.Inc("B_live_second_use_block_rejected")
			}
		}
		// heavier branch without the withdrawal
		parent := forkParent
		need := int(nd.Height()-forkParent.Height) + 1
		okFork := true
		for i := 0; i < need; i++ {
			fb, err := nd.Assemble(node.BlockSpec{Parent: parent, Nonce: 0xF0000 + uint64(v)*100 + uint64(i)})
			if err != nil {
				okFork = false
				break
			}
			if _, _, err := nd.Process(fb); err != nil {
				c.Note("B: fork block rejected: %v", err)
				okFork = false
				break
			}
			nd.PostBlock(fb)
			parent = fb
		}
		if !okFork || nd.Tip() != parent.Hash() {
			c.Inc("B_live_reorg_unavailable:" + tag)
			continue
		}
		c.Inc("B_live_reorgs")
		if st.IsSidechainTxHashDuplicate(HL) {
			c.Inc("B_live_hash_still_recorded_after_reorg:" + tag + "(C13)")
		}
		h2 := nd.Height()
		if _, err := nd.MineTip(wL2); err != nil || nd.Height() != h2+1 {
			c.Violate("single-use:"+tag+"-not-accepted-again-after-rollback", fmt.Sprintf("after the reorganisation away from the withdrawal's block, a block with the %s withdrawal of the same hash is refused: %v", tag, err), nil)
		} else {
			c.Inc("B_live_reincluded_after_reorg")
		}
	}
	// below the restriction height one arbiter can stand in for many (by design,
	// counted); from it on never: with the 12 member list and with the
	// main-net shaped 36 member list, whose indexes 32..35 lie above the first
	// 32 (the lone arbiter really signs: its key times the list length)
	big36 := arbKeys(600, 36)
	for _, lone := range []struct{ set, idx int }{{12, 3}, {36, 3}, {36, 31}, {36, 32}, {36, 33}, {36, 35}} {
		set := big36[:lone.set]
		m := state.NewArbitratorsMock(originMembers(set), 0, lone.set*2/3)
		m.CRCArbitrators = originMembers(set[:12])
		blockchain.DefaultLedger.Arbitrators = m
		nd.Cfg.CrossChainUTXORestrictionHeight = math.MaxUint32
		signers := make([]uint8, 9)
		for i := range signers {
			signers[i] = uint8(lone.idx)
		}
		c.Begin("C33 B lone arbiter %d of %d", lone.idx, lone.set)
		code, _ := schnorrCodeFor(set, signers)
		u := takeX()
		tx := withdrawTx(2, inputsOf([]node.UTXORef{u}), node.Key(8).ProgramHash, u.Value-fee, []common.Uint256{hashOf(fmt.Sprint("lone/", c.Shard, "/", lone.set, "/", lone.idx))}, signers, []*pg.Program{{Code: code, Parameter: make([]byte, 64)}})
		buf := new(bytes.Buffer)
		tx.SerializeUnsigned(buf)
		d := new(big.Int).SetBytes(set[lone.idx].Acct.PrivKey())
		d.Mul(d, big.NewInt(9)).Mod(d, crypto.N)
		sig, err := crypto.AggregateSignatures([]*big.Int{d}, common.Sha256D(buf.Bytes()))
		if err != nil {
			continue
		}
		tx.Programs()[0].Parameter = sig[:]
		region := "lt_32"
		if lone.idx >= 32 {
			region = "ge_32"
		}
		if e := ctxCheck(tx); e == nil {
			c.Inc("B_single_arbiter_repeated_9x_accepted_below_restriction(by design)")
		} else {
			c.Inc("B_single_arbiter_repeated_rejected_below_restriction")
		}
		nd.Cfg.CrossChainUTXORestrictionHeight = 1
		c.Case(fmt.Sprintf("B:lone:%d/%d", lone.idx, lone.set), true)
		if e := ctxCheck(tx); e == nil {
			c.Violate(c33DupClause, fmt.Sprintf("arbiter %d of %d named nine times, signature by 9*d: accepted by the complete context check at/after the restriction height", lone.idx, lone.set), nil)
		} else {
			c.Inc("B_single_arbiter_repeated_rejected_after_restriction")
			c.Inc("B_single_arbiter_index_" + region + "_rejected_after_restriction")
		}
	}
	blockchain.DefaultLedger.Arbitrators = mock
}

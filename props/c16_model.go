package props

import (
	"encoding/hex"
	"fmt"
	"sort"
	"strings"
)

// ---------------------------------------------------------------------------
// C16 reference model: an in-memory ordered map of nested buckets with
// snapshot transactions. It shares no code with ffldb.
// ---------------------------------------------------------------------------

// c16op is one scripted client operation. The script is fixed before it is
// executed, so the same script can be replayed under several cache
// configurations and be shrunk.
type c16op struct {
	Kind string   `json:"op"`
	Tx   int      `json:"tx,omitempty"`  // transaction slot
	Cur  int      `json:"cur,omitempty"` // cursor slot
	Path []string `json:"path,omitempty"`
	Key  string   `json:"key,omitempty"`
	Val  []byte   `json:"val,omitempty"`
	NilV bool     `json:"nilval,omitempty"` // Val is nil (as opposed to empty)
	RW   bool     `json:"rw,omitempty"`
	N    int      `json:"n,omitempty"`
	Ret  string   `json:"ret,omitempty"` // managed: nil | err | commit | rollback | panic
	Sub  []c16op  `json:"sub,omitempty"`
}

func (o c16op) String() string {
	p := "/" + strings.Join(o.Path, "/")
	switch o.Kind {
	case "begin":
		return fmt.Sprintf("tx%d=Begin(rw=%v)", o.Tx, o.RW)
	case "commit", "rollback":
		return fmt.Sprintf("tx%d.%s()", o.Tx, o.Kind)
	case "put":
		v := "x" + hex.EncodeToString(o.Val)
		if o.NilV {
			v = "nil"
		}
		return fmt.Sprintf("tx%d%s.Put(%q,%s)", o.Tx, p, o.Key, v)
	case "get", "del", "mkb", "mkbine", "rmb":
		return fmt.Sprintf("tx%d%s.%s(%q)", o.Tx, p, o.Kind, o.Key)
	case "exists", "foreach", "foreachb":
		return fmt.Sprintf("tx%d%s.%s", o.Tx, p, o.Kind)
	case "foreach-stop":
		return fmt.Sprintf("tx%d%s.ForEach(stop after %d)", o.Tx, p, o.N)
	case "cursor":
		return fmt.Sprintf("c%d=tx%d%s.Cursor()", o.Cur, o.Tx, p)
	case "cseek":
		return fmt.Sprintf("c%d.Seek(%q)", o.Cur, o.Key)
	case "cfirst", "clast", "cnext", "cprev", "cdel", "ckv":
		return fmt.Sprintf("c%d.%s()", o.Cur, o.Kind[1:])
	case "managed":
		var subs []string
		for _, s := range o.Sub {
			subs = append(subs, s.String())
		}
		name := "View"
		if o.RW {
			name = "Update"
		}
		return fmt.Sprintf("%s(tx%d){ %s ; return %s }", name, o.Tx, strings.Join(subs, " ; "), o.Ret)
	}
	return o.Kind
}

// c16step is an op together with what the model predicts.
type c16step struct {
	Op   c16op
	Exp  string
	Skip bool // not legal in the model's current state: not executed
	Sub  []*c16step
	// classification context captured when the model applied the step
	Ctx string
}

type mbucket struct {
	keys map[string][]byte
	subs map[string]*mbucket
}

func newMBucket() *mbucket { return &mbucket{keys: map[string][]byte{}, subs: map[string]*mbucket{}} }

func (b *mbucket) clone() *mbucket {
	n := newMBucket()
	for k, v := range b.keys {
		n.keys[k] = v
	}
	for k, s := range b.subs {
		n.subs[k] = s.clone()
	}
	return n
}

func (b *mbucket) resolve(path []string) *mbucket {
	cur := b
	for _, p := range path {
		cur = cur.subs[p]
		if cur == nil {
			return nil
		}
	}
	return cur
}

func sortedKeys(m map[string][]byte) []string {
	ks := make([]string, 0, len(m))
	for k := range m {
		ks = append(ks, k)
	}
	sort.Strings(ks)
	return ks
}
func sortedSubs(m map[string]*mbucket) []string {
	ks := make([]string, 0, len(m))
	for k := range m {
		ks = append(ks, k)
	}
	sort.Strings(ks)
	return ks
}

// entry of a cursor walk: all keys in byte order, then all nested buckets in
// byte order (the order ffldb's key layout defines; the interface leaves the
// relative order of keys and buckets open).
type mentry struct {
	bucket bool
	name   string
}

func (b *mbucket) entries() []mentry {
	var es []mentry
	for _, k := range sortedKeys(b.keys) {
		es = append(es, mentry{false, k})
	}
	for _, k := range sortedSubs(b.subs) {
		es = append(es, mentry{true, k})
	}
	return es
}

func entryLess(a, b mentry) bool {
	if a.bucket != b.bucket {
		return !a.bucket
	}
	return a.name < b.name
}

const (
	txNone = iota
	txOpen
	txClosed // handle retained for use-after-close operations
)

type mtx struct {
	state   int
	rw      bool
	managed bool
	root    *mbucket
	dirty   bool // the tx has uncommitted modifications
}

const (
	curNone = iota
	curNew
	curAt
	curExhausted
	curDead // created on / outlived a closed tx
)

type mcursor struct {
	state   int
	tx      int
	path    []string
	at      mentry
	deleted bool // positioned on an entry removed through Cursor.Delete
	inval   bool // bucket modified since the last positioning
	// classification context
	lastDir      int  // +1 forward, -1 backward, 0 none
	revSincePos  bool // direction changed since the last First/Last/Seek
	writeBefore  bool // was invalidated by a write and repositioned afterwards
	delSincePos  bool
	foreignSince bool // another bucket of the tx was written since the last positioning
	posBySeek    bool // the last positioning was a Seek
}

const (
	c16TxSlots  = 4 // 0..2 explicit, 3 managed
	c16MSlot    = 3
	c16CurSlots = 4
)

type c16model struct {
	committed *mbucket
	txs       [c16TxSlots]*mtx
	curs      [c16CurSlots]*mcursor
	dbOpen    bool
	commits   int
}

const (
	internalKey    = "ffldb-writeloc"
	internalBucket = "ffldb-blockidx"
)

func newC16Model() *c16model {
	m := &c16model{committed: newMBucket(), dbOpen: true}
	// what a freshly created ffldb exposes in its root metadata bucket
	m.committed.keys[internalKey] = []byte("internal")
	m.committed.subs[internalBucket] = newMBucket()
	for i := range m.txs {
		m.txs[i] = &mtx{}
	}
	for i := range m.curs {
		m.curs[i] = &mcursor{}
	}
	return m
}

func (m *c16model) rwOpen() bool {
	for _, t := range m.txs {
		if t.state == txOpen && t.rw {
			return true
		}
	}
	return false
}
func (m *c16model) anyOpen() bool {
	for _, t := range m.txs {
		if t.state == txOpen {
			return true
		}
	}
	return false
}

// ---- result rendering (shared with the executor) ----

func rVal(v []byte) string {
	if v == nil {
		return "nil"
	}
	if len(v) == 0 {
		return "empty"
	}
	return "x" + hex.EncodeToString(v)
}

func rKV(path []string, k string, v []byte) string {
	if len(path) == 0 && k == internalKey {
		return k + "=<internal>"
	}
	return fmt.Sprintf("%q=%s", k, rVal(v))
}

func rCur(path []string, ok bool, key []byte, val []byte) string {
	if !ok {
		if key != nil || val != nil {
			return fmt.Sprintf("false key=%q val=%s", key, rVal(val))
		}
		return "false"
	}
	if len(path) == 0 && string(key) == internalKey && val != nil {
		return fmt.Sprintf("true %q=<internal>", key)
	}
	return fmt.Sprintf("true %q=%s", key, rVal(val))
}

func (m *c16model) curResult(c *mcursor, b *mbucket) string {
	if c.state != curAt {
		return "false"
	}
	if c.at.bucket {
		return rCur(c.path, true, []byte(c.at.name), nil)
	}
	return rCur(c.path, true, []byte(c.at.name), b.keys[c.at.name])
}

func norm(v []byte, isNil bool) []byte {
	if isNil || v == nil {
		return []byte{}
	}
	return v
}

func samePath(a, b []string) bool {
	if len(a) != len(b) {
		return false
	}
	for i := range a {
		if a[i] != b[i] {
			return false
		}
	}
	return true
}
func hasPrefixPath(p, prefix []string) bool {
	return len(p) >= len(prefix) && samePath(p[:len(prefix)], prefix)
}

// wrote records a modification of bucket path in tx slot t (other than through
// cursor except).
func (m *c16model) wrote(t int, path []string, except int) {
	m.txs[t].dirty = true
	for i, c := range m.curs {
		if c.state == curNone || c.state == curDead || c.state == curNew || c.tx != t || i == except {
			continue // (a cursor that was never positioned has no position to invalidate)
		}
		if samePath(c.path, path) {
			c.inval = true
		} else {
			c.foreignSince = true
		}
	}
}

func (m *c16model) closeTx(t int) {
	m.txs[t].state = txClosed
	m.txs[t].root = nil
	for _, c := range m.curs {
		if c.state != curNone && c.tx == t {
			c.state = curDead
		}
	}
}

// dumpTree renders a whole bucket tree: per bucket the ForEach list, the
// ForEachBucket list and a forward and a backward cursor scan.
func dumpTree(b *mbucket, path []string, sb *strings.Builder) {
	fmt.Fprintf(sb, "[/%s keys:", strings.Join(path, "/"))
	for _, k := range sortedKeys(b.keys) {
		sb.WriteString(rKV(path, k, b.keys[k]) + ",")
	}
	sb.WriteString(" buckets:")
	for _, k := range sortedSubs(b.subs) {
		fmt.Fprintf(sb, "%q,", k)
	}
	es := b.entries()
	sb.WriteString(" fwd:")
	for _, e := range es {
		sb.WriteString(entryStr(path, b, e) + ",")
	}
	sb.WriteString(" bwd:")
	for i := len(es) - 1; i >= 0; i-- {
		sb.WriteString(entryStr(path, b, es[i]) + ",")
	}
	sb.WriteString("]")
	for _, k := range sortedSubs(b.subs) {
		if len(path) == 0 && k == internalBucket {
			continue
		}
		dumpTree(b.subs[k], append(append([]string{}, path...), k), sb)
	}
}

func entryStr(path []string, b *mbucket, e mentry) string {
	if e.bucket {
		return fmt.Sprintf("B%q", e.name)
	}
	return rKV(path, e.name, b.keys[e.name])
}

// apply advances the model by one op. ok=false: the op is not legal in the
// current state (nothing changed) and must be skipped.
func (m *c16model) apply(op c16op) (st *c16step) {
	st = &c16step{Op: op}
	skip := func() *c16step { st.Skip = true; return st }
	switch op.Kind {
	case "begin":
		if !m.dbOpen || op.Tx < 0 || op.Tx >= c16MSlot || m.txs[op.Tx].state == txOpen || (op.RW && m.rwOpen()) {
			return skip()
		}
		m.txs[op.Tx] = &mtx{state: txOpen, rw: op.RW, root: m.committed.clone()}
		for _, c := range m.curs {
			if c.state != curNone && c.tx == op.Tx {
				c.state = curNone
			}
		}
		st.Exp = "nil"
		return
	case "commit", "rollback":
		if op.Tx < 0 || op.Tx >= c16MSlot {
			return skip()
		}
		t := m.txs[op.Tx]
		switch t.state {
		case txNone:
			return skip()
		case txClosed:
			st.Exp = "ErrTxClosed"
			return
		}
		if op.Kind == "rollback" {
			st.Exp = "nil"
			m.closeTx(op.Tx)
			return
		}
		if !t.rw {
			// Commit of a read-only tx: ErrTxNotWritable. Whether the tx is
			// still usable afterwards is not specified; the slot is retired.
			st.Exp = "ErrTxNotWritable"
			m.closeTx(op.Tx)
			t.state = txNone
			for _, c := range m.curs {
				if c.state != curNone && c.tx == op.Tx {
					c.state = curNone
				}
			}
			return
		}
		m.committed = t.root
		m.commits++
		st.Exp = "nil"
		st.Ctx = "commit"
		m.closeTx(op.Tx)
		return
	case "managed":
		if !m.dbOpen || m.txs[c16MSlot].state == txOpen || (op.RW && m.rwOpen()) {
			return skip()
		}
		for _, c := range m.curs {
			if c.state != curNone && c.tx == c16MSlot {
				c.state = curNone
			}
		}
		m.txs[c16MSlot] = &mtx{state: txOpen, rw: op.RW, managed: true, root: m.committed.clone()}
		for _, so := range op.Sub {
			so.Tx = c16MSlot
			var ss *c16step
			switch so.Kind {
			case "begin", "commit", "rollback", "managed", "reopen", "audit":
				ss = &c16step{Op: so, Skip: true}
			default:
				ss = m.apply(so)
			}
			st.Sub = append(st.Sub, ss)
		}
		t := m.txs[c16MSlot]
		switch op.Ret {
		case "nil":
			st.Exp = "nil"
			if op.RW {
				m.committed = t.root
				m.commits++
				st.Ctx = "commit"
			}
		case "err":
			st.Exp = "sentinel"
		case "commit", "rollback":
			st.Exp = "panic"
		case "panic":
			st.Exp = "panic:user"
		default:
			st.Exp = "nil"
		}
		m.closeTx(c16MSlot)
		return
	case "reopen":
		if !m.dbOpen || m.anyOpen() {
			return skip()
		}
		for _, t := range m.txs {
			t.state = txNone
		}
		for _, c := range m.curs {
			c.state = curNone
		}
		st.Exp = "close=nil begin=ErrDbNotOpen close2=ErrDbNotOpen open=nil"
		return
	case "audit":
		if !m.dbOpen {
			return skip()
		}
		var sb strings.Builder
		dumpTree(m.committed, nil, &sb)
		st.Exp = sb.String()
		return
	}

	// cursor operations
	if strings.HasPrefix(op.Kind, "c") && op.Kind != "cursor" && op.Kind != "commit" {
		return m.applyCursor(op, st)
	}

	// bucket-level operations on a transaction slot
	if op.Tx < 0 || op.Tx >= c16TxSlots {
		return skip()
	}
	t := m.txs[op.Tx]
	if t.state == txNone {
		return skip()
	}
	if t.state == txClosed {
		// use after close: only on the root bucket handle (tx.Metadata())
		if len(op.Path) != 0 {
			return skip()
		}
		st.Ctx = "use-after-close"
		switch op.Kind {
		case "get":
			st.Exp = "nil"
		case "put", "del", "mkb", "mkbine", "rmb", "foreach", "foreachb", "foreach-stop":
			if (op.Kind == "put" || op.Kind == "mkb" || op.Kind == "mkbine") && op.Key == "" {
				return skip()
			}
			st.Exp = "ErrTxClosed"
		case "exists":
			return skip()
		case "cursor":
			if op.Cur < 0 || op.Cur >= c16CurSlots {
				return skip()
			}
			m.curs[op.Cur] = &mcursor{state: curDead, tx: op.Tx}
			st.Exp = "ok"
		default:
			return skip()
		}
		return
	}
	b := t.root.resolve(op.Path)
	if b == nil {
		switch op.Kind {
		case "get", "put", "del", "mkb", "mkbine", "rmb", "foreach", "foreachb", "foreach-stop", "exists", "cursor":
			st.Exp = "nobucket"
			return
		}
		return skip()
	}
	reserved := len(op.Path) == 0 && (op.Key == internalKey || op.Key == internalBucket)
	switch op.Kind {
	case "exists":
		st.Exp = fmt.Sprintf("bucket writable=%v", t.rw)
	case "get":
		if op.Key == "" {
			st.Exp = "nil"
			return
		}
		v, ok := b.keys[op.Key]
		if !ok {
			st.Exp = "nil"
		} else {
			st.Exp = rVal(v)
		}
	case "put":
		if reserved {
			return skip()
		}
		if !t.rw {
			if op.Key == "" {
				return skip() // two documented errors apply; order unspecified
			}
			st.Exp = "ErrTxNotWritable"
			return
		}
		if op.Key == "" {
			st.Exp = "ErrKeyRequired"
			return
		}
		b.keys[op.Key] = norm(op.Val, op.NilV)
		m.wrote(op.Tx, op.Path, -1)
		st.Exp = "nil"
	case "del":
		if reserved || op.Key == "" {
			return skip()
		}
		if !t.rw {
			st.Exp = "ErrTxNotWritable"
			return
		}
		delete(b.keys, op.Key)
		m.wrote(op.Tx, op.Path, -1)
		st.Exp = "nil"
	case "mkb", "mkbine":
		if reserved {
			return skip()
		}
		if !t.rw {
			if op.Key == "" {
				return skip()
			}
			st.Exp = "ErrTxNotWritable"
			return
		}
		if op.Key == "" {
			st.Exp = "ErrBucketNameRequired"
			return
		}
		if _, ok := b.subs[op.Key]; ok {
			if op.Kind == "mkb" {
				st.Exp = "ErrBucketExists"
			} else {
				st.Exp = "nil"
			}
			return
		}
		b.subs[op.Key] = newMBucket()
		m.wrote(op.Tx, op.Path, -1)
		st.Exp = "nil"
	case "rmb":
		if reserved {
			return skip()
		}
		if !t.rw {
			st.Exp = "ErrTxNotWritable"
			return
		}
		if _, ok := b.subs[op.Key]; !ok {
			st.Exp = "ErrBucketNotFound"
			return
		}
		delete(b.subs, op.Key)
		m.wrote(op.Tx, op.Path, -1)
		gone := append(append([]string{}, op.Path...), op.Key)
		for _, c := range m.curs {
			if c.state != curNone && c.state != curDead && c.tx == op.Tx && hasPrefixPath(c.path, gone) {
				c.state = curNone // cursor over a deleted bucket: never used again
			}
		}
		st.Exp = "nil"
	case "foreach":
		var parts []string
		for _, k := range sortedKeys(b.keys) {
			parts = append(parts, rKV(op.Path, k, b.keys[k]))
		}
		st.Exp = "nil:" + strings.Join(parts, ",")
	case "foreachb":
		var parts []string
		for _, k := range sortedSubs(b.subs) {
			parts = append(parts, fmt.Sprintf("%q", k))
		}
		st.Exp = "nil:" + strings.Join(parts, ",")
	case "foreach-stop":
		ks := sortedKeys(b.keys)
		if op.N < len(ks) {
			st.Exp = fmt.Sprintf("stopped calls=%d last=%s", op.N+1, rKV(op.Path, ks[op.N], b.keys[ks[op.N]]))
		} else {
			st.Exp = fmt.Sprintf("nil calls=%d", len(ks))
		}
	case "cursor":
		if op.Cur < 0 || op.Cur >= c16CurSlots {
			return skip()
		}
		m.curs[op.Cur] = &mcursor{state: curNew, tx: op.Tx, path: append([]string{}, op.Path...)}
		st.Exp = "ok"
	default:
		return skip()
	}
	return
}

func (m *c16model) applyCursor(op c16op, st *c16step) *c16step {
	skip := func() *c16step { st.Skip = true; return st }
	if op.Cur < 0 || op.Cur >= c16CurSlots {
		return skip()
	}
	c := m.curs[op.Cur]
	if c.state == curNone {
		return skip()
	}
	if c.state == curDead {
		st.Ctx = "use-after-close"
		switch op.Kind {
		case "cfirst", "clast", "cnext", "cprev", "cseek", "ckv":
			st.Exp = "false"
		case "cdel":
			st.Exp = "ErrTxClosed"
		default:
			return skip()
		}
		return st
	}
	t := m.txs[c.tx]
	b := t.root.resolve(c.path)
	if t.state != txOpen || b == nil {
		return skip()
	}
	es := b.entries()
	idx := func(e mentry) int { // first index with entry >= e
		return sort.Search(len(es), func(i int) bool { return !entryLess(es[i], e) })
	}
	set := func(i int) {
		if i < 0 || i >= len(es) {
			c.state = curExhausted
		} else {
			c.state = curAt
			c.at = es[i]
		}
		c.deleted = false
	}
	ctx := func(extra string) {
		var fl []string
		if t.rw {
			fl = append(fl, "rw")
		} else {
			fl = append(fl, "ro")
		}
		if t.dirty {
			fl = append(fl, "dirty")
		}
		if c.revSincePos {
			fl = append(fl, "rev")
		}
		if c.writeBefore {
			fl = append(fl, "wpos")
		}
		if c.delSincePos {
			fl = append(fl, "cdel")
		}
		if c.foreignSince {
			fl = append(fl, "foreign")
		}
		if c.posBySeek {
			fl = append(fl, "seeked")
		}
		if extra != "" {
			fl = append(fl, extra)
		}
		st.Ctx = strings.Join(fl, ",")
	}
	reposition := func() {
		if c.inval {
			c.writeBefore = true
		}
		c.inval = false
		c.revSincePos = false
		c.delSincePos = false
		c.foreignSince = false
		c.posBySeek = false
	}
	switch op.Kind {
	case "cfirst":
		reposition()
		set(0)
		c.lastDir = +1
		ctx("")
		st.Exp = m.curResult(c, b)
	case "clast":
		reposition()
		set(len(es) - 1)
		c.lastDir = -1
		ctx("")
		st.Exp = m.curResult(c, b)
	case "cseek":
		reposition()
		// first key >= seek; when there is none, the first nested bucket
		i := sort.Search(len(es), func(i int) bool { return es[i].bucket || es[i].name >= op.Key })
		set(i)
		c.lastDir = +1
		c.posBySeek = true
		extra := ""
		if c.state != curAt || c.at.bucket {
			extra = "seek-past-keys"
		}
		ctx(extra)
		st.Exp = m.curResult(c, b)
	case "cnext", "cprev":
		if c.inval {
			return skip()
		}
		dir := +1
		if op.Kind == "cprev" {
			dir = -1
		}
		switch c.state {
		case curNew, curExhausted:
			// documented: same return values as an exhausted cursor
			ctx("unpositioned")
			st.Exp = "false"
			return st
		}
		if c.lastDir != 0 && c.lastDir != dir {
			c.revSincePos = true
		}
		c.lastDir = dir
		i := idx(c.at)
		present := i < len(es) && es[i] == c.at
		if dir > 0 {
			if present {
				i++
			}
			set(i)
		} else {
			set(i - 1)
		}
		ctx("")
		st.Exp = m.curResult(c, b)
	case "ckv":
		if c.inval || c.deleted {
			return skip()
		}
		ctx("")
		st.Exp = m.curResult(c, b)
	case "cdel":
		if c.inval || c.deleted || c.state != curAt {
			return skip()
		}
		if c.at.bucket {
			if !t.rw {
				return skip() // two documented errors apply
			}
			ctx("")
			st.Exp = "ErrIncompatibleValue"
			return st
		}
		if len(c.path) == 0 && c.at.name == internalKey {
			return skip()
		}
		ctx("")
		if !t.rw {
			st.Exp = "ErrTxNotWritable"
			return st
		}
		delete(b.keys, c.at.name)
		c.deleted = true
		c.delSincePos = true
		m.wrote(c.tx, c.path, op.Cur)
		st.Exp = "nil"
	default:
		return skip()
	}
	return st
}

package props

import (
	"bytes"
	"fmt"
	"math"
	"reflect"
	"sort"

	"github.com/elastos/Elastos.ELA/common"
	"github.com/elastos/Elastos.ELA/common/config"
	"github.com/elastos/Elastos.ELA/core/checkpoint"
	common2 "github.com/elastos/Elastos.ELA/core/types/common"
	"github.com/elastos/Elastos.ELA/core/types/interfaces"
	"github.com/elastos/Elastos.ELA/mempool"

	"verif/kit"
	"verif/kit/filler"
	"verif/kit/node"
)

// Tx-pool checkpoint. Its Deserialize feeds every stored transaction through
// TxPool.appendToTxPool (full re-validation against the chain), so its
// transaction list can only be exercised with valid transactions on a live
// node; the remaining fields (height, fee-ordered list) are filler-driven.

const c23TxPoolKey = "cp_txPool"

// newPoolCheckpoint builds a fresh TxPool with its own manager and returns the
// pool and its (unexported) checkpoint object.
func newPoolCheckpoint(cfg *config.Configuration) (*mempool.TxPool, checkpoint.ICheckPoint) {
	mc := *cfg
	mgr := checkpoint.NewManager(&mc)
	p := mempool.NewTxPool(cfg, mgr)
	cp, _ := mgr.GetCheckpoint(c23TxPoolKey, math.MaxUint32)
	return p, cp
}

func c23PoolConfig() *filler.Config {
	cfg := filler.ELAState()
	for _, k := range []string{
		"mempool.txPoolCheckpoint.txPool",              // back pointer
		"mempool.txPoolCheckpoint.initConflictManager", // callback
		"mempool.txPoolCheckpoint.txnList",             // handled with real transactions
		"mempool.txFeeOrderedList.onPopBack",           // callback
		"mempool.txFeeOrderedList.maxSize",             // constructor constant (pact.MaxTxPoolSize), not state
	} {
		cfg.Rules[k] = filler.Rule{Skip: true}
	}
	return cfg
}

func serBytes(s common.Serializable) ([]byte, error) {
	buf := new(bytes.Buffer)
	err := s.Serialize(buf)
	return buf.Bytes(), err
}

func c23TxPool(c *kit.Ctx) {
	nd, err := node.Start(node.Options{Dir: c.WorkDir, CoinbaseMaturity: 2})
	if err != nil {
		c.Inconclusive("node start: %v", err)
		return
	}
	defer nd.Close()
	r := c.Rand("c23pool")
	pcfg := c23PoolConfig()
	cov := filler.NewCoverage()

	// ---- (1) filler-driven: height + fee-ordered list ----
	codec := filler.Codec{
		Gen: func(f *filler.Filler) interface{} {
			_, cp := newPoolCheckpoint(nd.Cfg)
			f.Value(reflect.ValueOf(cp).Elem(), "mempool.txPoolCheckpoint", "")
			return cp
		},
		Enc: func(v interface{}) ([]byte, error) { return serBytes(v.(common.Serializable)) },
		Dec: func(b []byte) (interface{}, int, error) {
			_, cp := newPoolCheckpoint(nd.Cfg)
			rd := bytes.NewReader(b)
			err := cp.Deserialize(rd)
			return cp, rd.Len(), err
		},
	}
	nf := c.N(20, 300)
	for i := 0; i < nf; i++ {
		seed := r.Uint64()
		o := filler.RoundTrip(pcfg, seed, codec)
		cas := map[string]interface{}{"class": "mempool.txPoolCheckpoint", "filler_seed": fmt.Sprint(seed)}
		if o.EncErr != nil {
			c.Inconclusive("tx-pool checkpoint not encodable: %v", o.EncErr)
			continue
		}
		cov.AddLeaves(o.Leaves)
		if o.DecErr != nil {
			c.Violate("decode-rejects:mempool.txPoolCheckpoint", o.DecErr.Error(), cas)
			continue
		}
		c.Case(string(o.Bytes), len(o.Leaves) > 0)
		c.Inc("txpool_field_roundtrips")
		if o.Rest != 0 {
			c.Violate("decode-leaves-bytes:mempool.txPoolCheckpoint", fmt.Sprintf("%d bytes unread", o.Rest), cas)
		}
		if o.ReEncDiffers {
			c.Violate("reencode-differs:mempool.txPoolCheckpoint", "re-serialising the restored checkpoint gives different bytes", cas)
		}
		seen := map[string]bool{}
		for _, d := range o.Diffs {
			if seen[d.Key] {
				continue
			}
			seen[d.Key] = true
			cas2 := map[string]interface{}{"filler_seed": fmt.Sprint(seed), "path": d.Path, "want": d.A, "got": d.B}
			c.Violate("roundtrip:"+d.Key, fmt.Sprintf("tx-pool checkpoint: %s does not survive (%s: %s -> %s)", d.Key, d.Path, d.A, d.B), cas2)
		}
		if i < 6 {
			for li := range o.Leaves {
				if car, ok, info := filler.LeafCarried(pcfg, seed, codec, o.Bytes, li); ok {
					c.Inc("sensitivity_probes")
					cov.AddSensitivity(info.Key, car)
				}
			}
		}
	}
	for _, k := range cov.NeverNonZero() {
		c.Inconclusive("tx-pool checkpoint: leaf %s never non-zero", k)
	}
	for _, k := range cov.NeverCarried() {
		c.Violate("not-serialized:"+k, "changing "+k+" never changes the tx-pool checkpoint bytes", nil)
	}

	// ---- (2) real transactions on a live node ----
	if err := nd.MineN(int(nd.Cfg.PowConfiguration.CoinbaseMaturity) + 1); err != nil {
		c.Inconclusive("mining: %v", err)
		return
	}
	g := nd.GenesisUTXO()
	rounds := c.N(4, 16)
	const perRound = 12
	nOut := rounds * perRound
	per := common.Fixed64(100 * 1e8)
	var outs []node.Out
	for i := 0; i < nOut; i++ {
		outs = append(outs, node.Out{To: node.Key(2 + i%7).ProgramHash, Value: per})
	}
	outs = append(outs, node.Out{To: nd.Found.ProgramHash, Value: g.Value - per*common.Fixed64(nOut) - 10000})
	fund := node.Transfer([]node.UTXORef{g}, outs, common2.TxVersion09)
	if err := nd.TxPool.AppendToTxPool(fund); err != nil {
		c.Inconclusive("funding tx rejected: %v", err)
		return
	}
	if _, err := nd.MineTip(fund); err != nil {
		c.Inconclusive("funding block rejected: %v", err)
		return
	}
	nd.MineN(3)
	next := 0
	live, _ := nd.Ckp.GetCheckpoint(c23TxPoolKey, math.MaxUint32)
	if live == nil {
		c.Inconclusive("no tx-pool checkpoint registered")
		return
	}
	for round := 0; round < rounds; round++ {
		n := 1 + r.Intn(perRound)
		var txs []interfaces.Transaction
		for i := 0; i < n; i++ {
			idx := next
			next++
			fee := common.Fixed64(100 + r.Intn(100000))
			ver := common2.TxVersion09
			if r.Intn(3) == 0 {
				ver = common2.TxVersionDefault
			}
			ref := node.UTXORef{TxID: fund.Hash(), Index: uint16(idx), Value: per, Owner: node.Key(2 + idx%7)}
			nouts := 1 + r.Intn(3)
			var os []node.Out
			left := per - fee
			for k := 0; k < nouts; k++ {
				v := left / common.Fixed64(nouts-k)
				os = append(os, node.Out{To: node.Key(2 + r.Intn(7)).ProgramHash, Value: v})
				left -= v
			}
			tx := node.Transfer([]node.UTXORef{ref}, os, ver)
			if err := nd.TxPool.AppendToTxPool(tx); err != nil {
				c.Inconclusive("valid transfer rejected by the pool: %v", err)
				return
			}
			txs = append(txs, tx)
		}
		live.SetHeight(nd.Height())
		want := c23PoolView(nd.TxPool, live)
		if len(want.txs) != n {
			c.Inconclusive("pool holds %d txs, expected %d", len(want.txs), n)
			return
		}

		// (a) Deserialize(Serialize(c)) on a fresh pool == c
		b, err := serBytes(live)
		if err != nil {
			c.Inconclusive("tx-pool checkpoint serialize: %v", err)
			return
		}
		c.Case(string(b), true)
		p2, cp2 := newPoolCheckpoint(nd.Cfg)
		rd := bytes.NewReader(b)
		if err := cp2.Deserialize(rd); err != nil || rd.Len() != 0 {
			c.Violate("decode-rejects:mempool.txPoolCheckpoint", fmt.Sprintf("restore of a live pool checkpoint failed: %v rest=%d", err, rd.Len()), nil)
		} else {
			c.Inc("txpool_roundtrips")
			got := c23PoolView(p2, cp2)
			c23ComparePool(c, "roundtrip", want, got)
			c.Count("txpool_txs_roundtripped", int64(len(got.txs)))
		}

		// (b) what the manager really writes to disk is Serialize(Snapshot())
		snap := live.Snapshot()
		if snap == nil {
			c.Violate("snapshot-nil:mempool.txPoolCheckpoint", "Snapshot() of a live pool returned nil", nil)
		} else {
			sb, err := serBytes(snap)
			if err != nil {
				c.Inconclusive("snapshot serialize: %v", err)
				return
			}
			// the snapshot must not have disturbed the live pool
			after := c23PoolView(nd.TxPool, live)
			c23ComparePool(c, "snapshot-side-effect", want, after)
			p3, cp3 := newPoolCheckpoint(nd.Cfg)
			rd := bytes.NewReader(sb)
			if err := cp3.Deserialize(rd); err != nil || rd.Len() != 0 {
				c.Violate("decode-rejects:mempool.txPoolCheckpoint", fmt.Sprintf("restore of a snapshot failed: %v", err), nil)
			} else {
				c.Inc("txpool_snapshot_restores")
				c23ComparePool(c, "snapshot", want, c23PoolView(p3, cp3))
			}
		}

		// drain: confirm the transactions so that the next round starts empty
		if _, err := nd.MineTip(txs...); err != nil {
			c.Inconclusive("block with pool txs rejected: %v", err)
			return
		}
		if nd.TxPool.GetTransactionCount() != 0 {
			c.Inconclusive("pool not empty after confirming its transactions")
			return
		}
	}
}

type poolView struct {
	height    uint32
	txs       map[common.Uint256][]byte
	fees      map[common.Uint256]common.Fixed64
	feeList   []string // hash:feeRate:size in list order
	totalSize uint64
}

// c23PoolView reads pool + checkpoint state (unexported fields via reflection).
func c23PoolView(p *mempool.TxPool, cp checkpoint.ICheckPoint) *poolView {
	v := &poolView{txs: map[common.Uint256][]byte{}, fees: map[common.Uint256]common.Fixed64{}}
	v.height = cp.GetHeight()
	rv := reflect.ValueOf(cp).Elem()
	// the transactions the checkpoint object itself holds
	m := rv.FieldByName("txnList")
	for _, k := range m.MapKeys() {
		var h common.Uint256
		for i := 0; i < 32; i++ {
			h[i] = byte(k.Index(i).Uint())
		}
		tx := p.GetTransaction(h)
		if tx == nil {
			v.txs[h] = nil
			continue
		}
		b, _ := filler.EncTx(tx)
		v.txs[h] = b
		v.fees[h] = tx.Fee()
	}
	fl := rv.FieldByName("txFees")
	if !fl.IsNil() {
		l := fl.Elem().FieldByName("list")
		for i := 0; i < l.Len(); i++ {
			it := l.Index(i)
			hb := make([]byte, 32)
			for j := range hb {
				hb[j] = byte(it.FieldByName("Hash").Index(j).Uint())
			}
			v.feeList = append(v.feeList, fmt.Sprintf("%x:%v:%d", hb, it.FieldByName("FeeRate").Float(), it.FieldByName("Size").Uint()))
		}
		v.totalSize = fl.Elem().FieldByName("totalSize").Uint()
	}
	return v
}

func c23ComparePool(c *kit.Ctx, how string, want, got *poolView) {
	sig := func(field string) string {
		if how == "roundtrip" {
			return "roundtrip:mempool.txPoolCheckpoint." + field
		}
		return how + ":mempool.txPoolCheckpoint." + field
	}
	if got.height != want.height {
		c.Violate(sig("height"), fmt.Sprintf("height %d -> %d", want.height, got.height), nil)
	}
	if len(got.txs) != len(want.txs) {
		c.Violate(sig("txnList"), fmt.Sprintf("%s: pool held %d transactions, restored pool holds %d", how, len(want.txs), len(got.txs)), map[string]interface{}{"want_txs": len(want.txs), "got_txs": len(got.txs)})
	} else {
		var hs []string
		for h := range want.txs {
			hs = append(hs, h.String())
		}
		sort.Strings(hs)
		for h, b := range want.txs {
			gb, ok := got.txs[h]
			if !ok || !bytes.Equal(gb, b) {
				c.Violate(sig("txnList"), fmt.Sprintf("%s: transaction %s missing or different after restore", how, h.String()), nil)
				break
			}
			if got.fees[h] != want.fees[h] {
				c.Violate(sig("txnList.fee"), fmt.Sprintf("%s: fee of %s %d -> %d", how, h.String(), want.fees[h], got.fees[h]), nil)
				break
			}
		}
	}
	if got.totalSize != want.totalSize {
		c.Violate(sig("txFees.totalSize"), fmt.Sprintf("%s: totalSize %d -> %d", how, want.totalSize, got.totalSize), nil)
	}
	if fmt.Sprint(got.feeList) != fmt.Sprint(want.feeList) {
		c.Violate(sig("txFees.list"), fmt.Sprintf("%s: fee-ordered list differs: %d entries -> %d entries", how, len(want.feeList), len(got.feeList)), nil)
	}
}

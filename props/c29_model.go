package props

import (
	"bytes"
	"fmt"
	"math/big"
	"sort"

	"github.com/elastos/Elastos.ELA/common"
	"github.com/elastos/Elastos.ELA/core/types"
	common2 "github.com/elastos/Elastos.ELA/core/types/common"
	"github.com/elastos/Elastos.ELA/core/types/outputpayload"
	"github.com/elastos/Elastos.ELA/core/types/payload"

	"verif/kit/node"
)

// c29_model.go — independent proposal-budget ledger for C29.
//
// The model is rebuilt only from the blocks the node connected (wire types
// only: it does not import cr/state). Per proposal it keeps the budget stages,
// which of them were approved (imprest at voter agreement, a normal stage by an
// accepted Progress tracking, the final stage by the Finalized tracking) and
// which were withdrawn, the current owner / recipient, and the payout requests
// that still wait for the node's real-withdraw transaction. It follows every
// output of the CR expenses address. All sums are exact (big.Int).

const (
	c29Registered    = "Registered"
	c29CRAgreed      = "CRAgreed"
	c29VoterAgreed   = "VoterAgreed"
	c29Finished      = "Finished"
	c29CRCanceled    = "CRCanceled"
	c29VoterCanceled = "VoterCanceled"
	c29Terminated    = "Terminated"
	c29Aborted       = "Aborted"
)

type c29Stage struct {
	Stage       uint8
	Type        payload.InstallmentType
	Amount      common.Fixed64
	ApprovedAt  uint32 // 0 = not approved
	WithdrawnAt uint32 // 0 = not withdrawn
	WithdrawTx  common.Uint256
}

type c29P struct {
	Hash       common.Uint256
	Type       payload.CRCProposalType
	Owner      []byte
	Recipient  common.Uint168
	Stages     []*c29Stage
	Status     string
	RegH       uint32
	VoteStartH uint32
	CRVotes    map[common.Uint168]payload.VoteResult
	Reject     common.Fixed64
	// special proposals
	Target       common.Uint256
	NewOwner     []byte
	NewRecipient common.Uint168

	Requested *big.Int // sum of accepted withdraw request amounts
	Paid      *big.Int // sum of real payouts (+ real-withdraw fee)
	Excess    *big.Int // part of Requested that was reported as overspending
	Tainted   bool     // a violation was reported for it: excluded from further comparison
	Ambiguous bool     // voter decision inside the margin: status adopted from the node
	Trans     []string
}

func (p *c29P) stage(s uint8) *c29Stage {
	for _, st := range p.Stages {
		if st.Stage == s {
			return st
		}
	}
	return nil
}

func (p *c29P) total() *big.Int {
	t := new(big.Int)
	for _, st := range p.Stages {
		t.Add(t, big.NewInt(int64(st.Amount)))
	}
	return t
}

func (p *c29P) approvedSum() *big.Int {
	t := new(big.Int)
	for _, st := range p.Stages {
		if st.ApprovedAt != 0 {
			t.Add(t, big.NewInt(int64(st.Amount)))
		}
	}
	return t
}

// available: approved and not yet withdrawn. beforeHeight != 0 restricts to
// stages approved in an earlier block.
func (p *c29P) available(beforeHeight uint32) (*big.Int, []*c29Stage) {
	t := new(big.Int)
	var l []*c29Stage
	for _, st := range p.Stages {
		if st.ApprovedAt != 0 && st.WithdrawnAt == 0 && (beforeHeight == 0 || st.ApprovedAt < beforeHeight) {
			t.Add(t, big.NewInt(int64(st.Amount)))
			l = append(l, st)
		}
	}
	return t, l
}

// liability: what the committee still owes / may still owe to this proposal
// (payout requests that were accepted but not yet paid are tracked separately).
func (p *c29P) liability() *big.Int {
	t := new(big.Int)
	switch p.Status {
	case c29Registered, c29CRAgreed, c29VoterAgreed:
		for _, st := range p.Stages {
			if st.WithdrawnAt == 0 {
				t.Add(t, big.NewInt(int64(st.Amount)))
			}
		}
	case c29Finished, c29Terminated:
		for _, st := range p.Stages {
			if st.ApprovedAt != 0 && st.WithdrawnAt == 0 {
				t.Add(t, big.NewInt(int64(st.Amount)))
			}
		}
	}
	return t
}

type c29Pay struct {
	Req       common.Uint256
	Proposal  common.Uint256
	Recipient common.Uint168
	Amount    common.Fixed64
	Height    uint32
	Excess    bool // the request itself was reported as an overspend
}

type c29Out struct {
	Owner common.Uint168
	Value common.Fixed64
}

type c29Vote struct {
	Proposal common.Uint256
	Votes    common.Fixed64
	Counted  bool
}

type c29Params struct {
	CRVotingPeriod, PublicVotingPeriod uint32
	AgreementCount                     uint32
	RealFee                            common.Fixed64
	Expenses, Assets                   common.Uint168
	// voter decision margins (model does not reproduce the float circulation formula)
	RejectSure, AgreeSure common.Fixed64
}

type c29Model struct {
	P       c29Params
	Height  uint32
	utxo    map[node.OutKey]c29Out
	Props   map[common.Uint256]*c29P
	Order   []common.Uint256
	Pending map[common.Uint256]*c29Pay
	PaidReq map[common.Uint256]uint32
	votes   map[node.OutKey][]c29Vote
	ExpBal  *big.Int

	// committee term
	TermKnown         bool
	TermStartH        uint32
	StageFunds        *big.Int // expenses balance at the committee change + appropriation
	balAtChange       *big.Int
	UsedAtTermStart   *big.Int
	RequestedThisTerm *big.Int
	AppropriationPend bool
	CommitteeTainted  bool
	ExcessRequested   *big.Int // reported overspending requests of this term (kept out of Used so that the run stays comparable)
	Stolen            *big.Int // reported overspending that was really paid out

	viol  func(sig, detail string, p *c29P)
	event func(name string)
}

func newC29Model(p c29Params, viol func(sig, detail string, p *c29P), event func(string)) *c29Model {
	return &c29Model{P: p, utxo: map[node.OutKey]c29Out{}, Props: map[common.Uint256]*c29P{}, Pending: map[common.Uint256]*c29Pay{},
		PaidReq: map[common.Uint256]uint32{}, votes: map[node.OutKey][]c29Vote{}, ExpBal: new(big.Int), StageFunds: new(big.Int),
		balAtChange: new(big.Int), UsedAtTermStart: new(big.Int), RequestedThisTerm: new(big.Int), ExcessRequested: new(big.Int), Stolen: new(big.Int), viol: viol, event: event}
}

func bigF(v common.Fixed64) *big.Int { return big.NewInt(int64(v)) }

func (m *c29Model) setStatus(p *c29P, to string) {
	m.event("transition:" + p.Status + "->" + to)
	p.Trans = append(p.Trans, fmt.Sprintf("%s->%s@%d", p.Status, to, m.Height))
	p.Status = to
}

// Liabilities = sum of per-proposal liabilities (+ accepted payout requests not yet paid).
func (m *c29Model) Liabilities(withPending bool) *big.Int {
	t := new(big.Int)
	for _, h := range m.Order {
		p := m.Props[h]
		if p.Tainted {
			continue
		}
		t.Add(t, p.liability())
	}
	if withPending {
		for _, pay := range m.Pending {
			if pp := m.Props[pay.Proposal]; (pp != nil && pp.Tainted) || pay.Excess {
				continue
			}
			t.Add(t, bigF(pay.Amount))
		}
	}
	return t
}

// Used is the model's "committed in this term" figure: what is still owed plus
// what was requested for payout since the term began.
func (m *c29Model) Used() *big.Int {
	u := new(big.Int).Add(m.Liabilities(false), m.RequestedThisTerm)
	return u.Sub(u, m.ExcessRequested)
}

// Remaining funds the committee may still commit in this term.
func (m *c29Model) Remaining() *big.Int {
	return new(big.Int).Sub(m.StageFunds, m.Used())
}

// Apply processes one connected block. inElection is the committee's
// election-period flag BEFORE this block (observed, not modelled);
// committeeChanged says that this block installed a new committee. cause tags
// committee-level violations with the way the block was produced.
func (m *c29Model) Apply(b *types.Block, inElection, committeeChanged bool, cause string, nodeStatus func(common.Uint256) string) {
	m.Height = b.Height
	h := b.Height
	for ti, tx := range b.Transactions {
		txid := tx.Hash()
		// ---- money: inputs ----
		expIn, expOut := new(big.Int), new(big.Int)
		foreignIn := false
		if !(ti == 0 && tx.IsCoinBaseTx()) {
			for _, in := range tx.Inputs() {
				k := node.OutKey{TxID: in.Previous.TxID, Index: in.Previous.Index}
				o, ok := m.utxo[k]
				if ok {
					if o.Owner.IsEqual(m.P.Expenses) {
						expIn.Add(expIn, bigF(o.Value))
					} else {
						foreignIn = true
					}
					delete(m.utxo, k)
				}
				// spending a vote output cancels its votes
				if vs, ok := m.votes[k]; ok {
					for _, v := range vs {
						if p := m.Props[v.Proposal]; p != nil && v.Counted && p.Status == c29CRAgreed {
							p.Reject -= v.Votes
						}
					}
					delete(m.votes, k)
				}
			}
		}
		// ---- payload ----
		accounted := new(big.Int) // CR expenses outflow this transaction is entitled to
		switch pl := tx.Payload().(type) {
		case *payload.CRCProposal:
			m.register(tx.PayloadVersion(), pl, h)
		case *payload.CRCProposalReview:
			if p := m.Props[pl.ProposalHash]; p != nil {
				p.CRVotes[pl.DID] = pl.VoteResult
			}
		case *payload.CRCProposalTracking:
			m.tracking(pl, h)
		case *payload.CRCProposalWithdraw:
			if tx.PayloadVersion() == payload.CRCProposalWithdrawVersion01 {
				m.withdraw(txid, pl, h)
			}
		case *payload.CRCProposalRealWithdraw:
			accounted = m.realWithdraw(tx.Outputs(), pl, foreignIn, h)
		case *payload.CRCAppropriation:
			m.AppropriationPend = false
			m.StageFunds = new(big.Int).Add(m.balAtChange, bigF(tx.Outputs()[0].Value))
			m.TermKnown = true
		}
		// ---- money: outputs ----
		for i, o := range tx.Outputs() {
			k := node.OutKey{TxID: txid, Index: uint16(i)}
			m.utxo[k] = c29Out{Owner: o.ProgramHash, Value: o.Value}
			if o.ProgramHash.IsEqual(m.P.Expenses) {
				expOut.Add(expOut, bigF(o.Value))
			}
			if o.Type == common2.OTVote {
				if vo, ok := o.Payload.(*outputpayload.VoteOutput); ok {
					for _, c := range vo.Contents {
						if c.VoteType != outputpayload.CRCProposal {
							continue
						}
						for _, cv := range c.CandidateVotes {
							ph, err := common.Uint256FromBytes(cv.Candidate)
							if err != nil {
								continue
							}
							v := c29Vote{Proposal: *ph, Votes: cv.Votes}
							if p := m.Props[*ph]; p != nil && p.Status == c29CRAgreed {
								p.Reject += cv.Votes
								v.Counted = true
							}
							m.votes[k] = append(m.votes[k], v)
						}
					}
				}
			}
		}
		// ---- follow the money out of the CR expenses address ----
		outflow := new(big.Int).Sub(expIn, expOut)
		m.ExpBal.Sub(m.ExpBal, outflow)
		if outflow.Sign() > 0 && outflow.Cmp(accounted) != 0 && !m.CommitteeTainted {
			m.viol("follow-money:crexpenses-outflow-unaccounted", fmt.Sprintf("height %d tx %s (%s): %s sela left the CR expenses address but the payout requests it settles sum to %s",
				h, txid.String()[:16], tx.TxType().Name(), outflow, accounted), nil)
		}
	}

	// ---- end of block: status transitions (CR voting / public voting deadlines) ----
	var hs []common.Uint256
	hs = append(hs, m.Order...)
	for _, ph := range hs {
		p := m.Props[ph]
		switch p.Status {
		case c29Registered:
			if !inElection {
				m.setStatus(p, c29Aborted)
				break
			}
			if p.RegH+m.P.CRVotingPeriod <= h {
				agreed := uint32(0)
				for _, v := range p.CRVotes {
					if v == payload.Approve {
						agreed++
					}
				}
				if agreed >= m.P.AgreementCount {
					m.setStatus(p, c29CRAgreed)
					p.VoteStartH = h
				} else {
					m.setStatus(p, c29CRCanceled)
				}
			}
		case c29CRAgreed:
			if !inElection {
				m.setStatus(p, c29Aborted)
				break
			}
			if p.VoteStartH+m.P.PublicVotingPeriod <= h {
				canceled := false
				switch {
				case p.Reject >= m.P.RejectSure:
					canceled = true
				case p.Reject <= m.P.AgreeSure:
				default:
					p.Ambiguous = true
					m.event("voter_decision_inside_margin")
					canceled = nodeStatus(ph) == c29VoterCanceled
				}
				if canceled {
					m.setStatus(p, c29VoterCanceled)
					break
				}
				m.voterAgreed(p, h)
			}
		}
	}

	if committeeChanged {
		m.TermStartH = h
		m.RequestedThisTerm = new(big.Int)
		m.ExcessRequested = new(big.Int)
		m.balAtChange = new(big.Int).Set(m.ExpBal)
		m.UsedAtTermStart = m.Liabilities(false)
		m.AppropriationPend = true
		m.TermKnown = false
		m.CommitteeTainted = false
		m.event("committee_term_started")
	}

	// ---- committee solvency: what is owed is backed by the expenses address ----
	if !m.AppropriationPend && !m.CommitteeTainted {
		l := m.Liabilities(true)
		if l.Cmp(new(big.Int).Add(m.ExpBal, m.Stolen)) > 0 {
			m.viol("overspend:committee-budget-exceeded:"+cause, fmt.Sprintf("height %d: committed and unpaid budgets %s sela > CR expenses balance %s sela (stage funds %s, model used %s)",
				h, l, m.ExpBal, m.StageFunds, m.Used()), nil)
			m.CommitteeTainted = true
		}
	}
}

func (m *c29Model) voterAgreed(p *c29P, h uint32) {
	switch p.Type {
	case payload.Normal, payload.ELIP:
		m.setStatus(p, c29VoterAgreed)
		for _, st := range p.Stages {
			if st.Type == payload.Imprest {
				st.ApprovedAt = h
				break
			}
		}
	default:
		m.setStatus(p, c29Finished)
		switch p.Type {
		case payload.CloseProposal:
			if t := m.Props[p.Target]; t != nil && t.Status != c29Terminated && t.Status != c29Finished {
				m.setStatus(t, c29Terminated)
				m.event("terminated_by_close_proposal")
			} else if t != nil {
				// the target ended on its own (owner's Terminated / Finalized tracking) while the CloseProposal was being voted on: nothing is left to close or release
				m.event("close_proposal_passed_on_already_ended_target")
				m.event("close_proposal_passed_on_already_ended_target:" + t.Status)
			}
		case payload.ChangeProposalOwner:
			if t := m.Props[p.Target]; t != nil {
				t.Owner = p.NewOwner
				if !p.NewRecipient.IsEqual(common.Uint168{}) {
					t.Recipient = p.NewRecipient
				}
				m.event("owner_changed_by_proposal")
			}
		}
	}
}

func (m *c29Model) register(ver byte, pl *payload.CRCProposal, h uint32) {
	ph := pl.Hash(ver)
	if _, dup := m.Props[ph]; dup {
		m.viol("model-diff:proposal-registered-twice", fmt.Sprintf("height %d: proposal %s registered again", h, ph.String()[:16]), nil)
		return
	}
	p := &c29P{Hash: ph, Type: pl.ProposalType, Owner: append([]byte{}, pl.OwnerKey...), Recipient: pl.Recipient, Status: c29Registered, RegH: h,
		CRVotes: map[common.Uint168]payload.VoteResult{}, Target: pl.TargetProposalHash, NewOwner: append([]byte{}, pl.NewOwnerKey...), NewRecipient: pl.NewRecipient,
		Requested: new(big.Int), Paid: new(big.Int), Excess: new(big.Int)}
	for _, b := range pl.Budgets {
		p.Stages = append(p.Stages, &c29Stage{Stage: b.Stage, Type: b.Type, Amount: b.Amount})
	}
	sort.SliceStable(p.Stages, func(i, j int) bool { return p.Stages[i].Stage < p.Stages[j].Stage })
	m.Props[ph] = p
	m.Order = append(m.Order, ph)
	m.event("registered:" + pl.ProposalType.Name())
	m.event(fmt.Sprintf("registered_stages:%d", len(p.Stages)))
}

func (m *c29Model) tracking(pl *payload.CRCProposalTracking, h uint32) {
	p := m.Props[pl.ProposalHash]
	if p == nil {
		return
	}
	m.event("tracking_accepted:" + pl.ProposalTrackingType.Name())
	if p.Status != c29VoterAgreed {
		m.event("tracking_accepted_outside_voteragreed")
		if !p.Tainted {
			m.viol("overspend:tracking-accepted-after-proposal-ended", fmt.Sprintf("height %d: %s tracking (stage %d) of proposal %s accepted while the model status is %s",
				h, pl.ProposalTrackingType.Name(), pl.Stage, p.Hash.String()[:16], p.Status), p)
			p.Tainted = true
			m.CommitteeTainted = true
		}
		return
	}
	if !bytes.Equal(pl.OwnerKey, p.Owner) && !p.Tainted {
		m.viol("overspend:tracking-by-non-owner", fmt.Sprintf("height %d: %s tracking of proposal %s signed for owner key %x, current owner %x",
			h, pl.ProposalTrackingType.Name(), p.Hash.String()[:16], pl.OwnerKey[:6], p.Owner[:6]), p)
		p.Tainted = true
		m.CommitteeTainted = true
	}
	switch pl.ProposalTrackingType {
	case payload.Progress:
		st := p.stage(pl.Stage)
		if st == nil {
			m.event("progress_for_nonexistent_stage")
			return
		}
		if st.Type != payload.NormalPayment {
			if !p.Tainted {
				m.viol("overspend:progress-approves-non-normal-stage", fmt.Sprintf("height %d: Progress tracking for %s stage %d of %s accepted", h, st.Type.Name(), st.Stage, p.Hash.String()[:16]), p)
				p.Tainted = true
				m.CommitteeTainted = true
			}
			return
		}
		if st.ApprovedAt == 0 {
			st.ApprovedAt = h
			m.event("stage_approved:normal")
		} else {
			m.event("progress_for_already_approved_stage")
		}
	case payload.Finalized:
		for _, st := range p.Stages {
			if st.Type == payload.FinalPayment && st.ApprovedAt == 0 {
				st.ApprovedAt = h
				m.event("stage_approved:final")
				break
			}
		}
		m.setStatus(p, c29Finished)
	case payload.Terminated:
		m.setStatus(p, c29Terminated)
	case payload.ChangeOwner:
		p.Owner = append([]byte{}, pl.NewOwnerKey...)
		m.event("owner_changed_by_tracking")
	}
}

func (m *c29Model) withdraw(txid common.Uint256, pl *payload.CRCProposalWithdraw, h uint32) {
	p := m.Props[pl.ProposalHash]
	if p == nil {
		m.viol("overspend:withdraw-for-unknown-proposal", fmt.Sprintf("height %d: withdraw %s for a proposal the model never saw registered", h, txid.String()[:16]), nil)
		return
	}
	m.event("withdraw_accepted")
	amt := bigF(pl.Amount)
	p.Requested.Add(p.Requested, amt)
	m.RequestedThisTerm.Add(m.RequestedThisTerm, amt)
	pay := &c29Pay{Req: txid, Proposal: p.Hash, Recipient: pl.Recipient, Amount: pl.Amount, Height: h}
	m.Pending[txid] = pay
	if p.Tainted {
		return
	}
	detail := func(what string) string {
		return fmt.Sprintf("height %d: withdraw %s of %d sela for proposal %s (%s) %s; stages %s; requested so far %s, approved %s",
			h, txid.String()[:16], int64(pl.Amount), p.Hash.String()[:16], p.Status, what, c29StagesOf(p), p.Requested, p.approvedSum())
	}
	// the stages this request pays: approved in an earlier block, not yet withdrawn
	sum, set := p.available(h)
	// bad reports an overspending request. When nothing at all was due the node's
	// stage bookkeeping is not touched by the request, so the run stays comparable
	// (the amount is kept aside); otherwise the proposal is no longer compared.
	bad := func(sig, what string) {
		m.viol(sig, detail(what), p)
		pay.Excess = true
		p.Excess.Add(p.Excess, amt)
		m.ExcessRequested.Add(m.ExcessRequested, amt)
		if sum.Sign() != 0 {
			p.Tainted = true
			m.CommitteeTainted = true
		}
	}
	switch p.Status {
	case c29VoterAgreed, c29Finished, c29Terminated, c29Aborted:
	default:
		bad("overspend:withdraw-before-withdrawable:status-"+p.Status, "in a status in which nothing is approved")
		return
	}
	if !bytes.Equal(pl.OwnerKey, p.Owner) {
		bad("overspend:withdraw-by-non-owner", fmt.Sprintf("requested by key %x, current owner is %x", pl.OwnerKey[:6], p.Owner[:6]))
		return
	}
	if !pl.Recipient.IsEqual(p.Recipient) {
		bad("overspend:withdraw-to-wrong-recipient", "pays an address that is not the proposal's recipient")
		return
	}
	if len(set) > 0 && sum.Cmp(amt) == 0 {
		for _, st := range set {
			st.WithdrawnAt = h
			st.WithdrawTx = txid
		}
		m.event(fmt.Sprintf("withdraw_stages:%d", len(set)))
		return
	}
	all, _ := p.available(0)
	if amt.Sign() > 0 && amt.Cmp(all) <= 0 {
		// less than, or a same-block part of, what is approved: no overspend, but the stage bookkeeping is unknown now
		m.viol("model-diff:withdraw-amount-not-a-stage-set", detail(fmt.Sprintf("does not equal the approved-and-unwithdrawn stages (%s sela)", sum)), p)
		p.Tainted = true
		m.CommitteeTainted = true
		return
	}
	twice, unapproved := false, false
	for _, st := range p.Stages {
		if st.WithdrawnAt != 0 && amt.Cmp(bigF(st.Amount)) >= 0 {
			twice = true
		}
		if st.ApprovedAt == 0 {
			unapproved = true
		}
	}
	switch {
	case sum.Sign() == 0 && twice && p.lastWithdrawHeight() == h:
		bad("overspend:stage-withdrawn-twice:same-block", "pays stages that another request in the same block already withdrew")
	case sum.Sign() == 0 && twice:
		bad("overspend:stage-withdrawn-twice", "pays stages that were already withdrawn")
	case unapproved:
		bad("overspend:withdraw-before-withdrawable", fmt.Sprintf("exceeds the approved-and-unwithdrawn stages (%s sela)", sum))
	default:
		bad("overspend:withdraw-exceeds-approved", fmt.Sprintf("exceeds the approved-and-unwithdrawn stages (%s sela)", sum))
	}
}

func c29StagesOf(p *c29P) string {
	var st []string
	for _, s := range p.Stages {
		st = append(st, fmt.Sprintf("%d:%s:%d/appr@%d/wd@%d", s.Stage, s.Type.Name(), int64(s.Amount), s.ApprovedAt, s.WithdrawnAt))
	}
	return fmt.Sprint(st)
}

func (p *c29P) lastWithdrawHeight() uint32 {
	var h uint32
	for _, st := range p.Stages {
		if st.WithdrawnAt > h {
			h = st.WithdrawnAt
		}
	}
	return h
}

// realWithdraw settles payout requests; it returns the CR expenses outflow the
// transaction is entitled to (or that was already reported as a violation).
func (m *c29Model) realWithdraw(outs []*common2.Output, pl *payload.CRCProposalRealWithdraw, foreignIn bool, h uint32) *big.Int {
	m.event("real_withdraw_accepted")
	accounted := new(big.Int)
	if foreignIn {
		m.viol("follow-money:real-withdraw-input-not-crexpenses", fmt.Sprintf("height %d: a real-withdraw transaction spends an output that does not belong to the CR expenses address", h), nil)
	}
	for i, rh := range pl.WithdrawTransactionHashes {
		var paid *big.Int
		if i < len(outs) {
			paid = new(big.Int).Add(bigF(outs[i].Value), bigF(m.P.RealFee))
		} else {
			paid = new(big.Int)
		}
		accounted.Add(accounted, paid)
		pay := m.Pending[rh]
		if pay == nil {
			if at, ok := m.PaidReq[rh]; ok {
				sig := "overspend:real-withdraw-paid-twice"
				if at == h {
					sig += ":same-block"
				}
				m.viol(sig, fmt.Sprintf("height %d: payout request %s (settled at height %d) is paid again: %s sela", h, rh.String()[:16], at, paid), nil)
				m.Stolen.Add(m.Stolen, paid)
			} else {
				m.viol("overspend:real-withdraw-without-request", fmt.Sprintf("height %d: real withdraw settles %s which no accepted withdraw transaction requested", h, rh.String()[:16]), nil)
			}
			continue
		}
		p := m.Props[pay.Proposal]
		if i >= len(outs) {
			m.viol("follow-money:real-withdraw-output-mismatch", fmt.Sprintf("height %d: no output for payout request %s", h, rh.String()[:16]), p)
			continue
		}
		o := outs[i]
		if !o.ProgramHash.IsEqual(pay.Recipient) || o.Value+m.P.RealFee != pay.Amount {
			m.viol("follow-money:real-withdraw-output-mismatch", fmt.Sprintf("height %d: payout request %s asked %d sela for %s; output pays %d (+fee %d) to %s",
				h, rh.String()[:16], int64(pay.Amount), pay.Recipient.String()[:12], int64(o.Value), int64(m.P.RealFee), o.ProgramHash.String()[:12]), p)
		} else {
			m.event("real_withdraw_output_exact")
		}
		delete(m.Pending, rh)
		m.PaidReq[rh] = h
		if pay.Excess {
			m.Stolen.Add(m.Stolen, paid)
			m.event("reported_overspend_was_paid_out")
			continue
		}
		if p != nil {
			p.Paid.Add(p.Paid, paid)
			if p.Paid.Cmp(p.approvedSum()) > 0 && !p.Tainted {
				m.viol("overspend:paid-exceeds-approved", fmt.Sprintf("height %d: proposal %s was paid %s sela in total, approved stages sum to %s", h, p.Hash.String()[:16], p.Paid, p.approvedSum()), p)
			}
		}
	}
	return accounted
}

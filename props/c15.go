package props

import (
	"bytes"
	"fmt"
	"math/rand"
	"sort"
	"sync"
	"sync/atomic"

	"github.com/elastos/Elastos.ELA/blockchain"
	"github.com/elastos/Elastos.ELA/blockchain/indexers"
	"github.com/elastos/Elastos.ELA/common"
	"github.com/elastos/Elastos.ELA/common/config"
	"github.com/elastos/Elastos.ELA/core/types"
	common2 "github.com/elastos/Elastos.ELA/core/types/common"
	"github.com/elastos/Elastos.ELA/core/types/interfaces"
	"github.com/elastos/Elastos.ELA/core/types/payload"
	"github.com/elastos/Elastos.ELA/database"
	"github.com/elastos/Elastos.ELA/elanet"
	"github.com/elastos/Elastos.ELA/elanet/netsync"
	"github.com/elastos/Elastos.ELA/events"
	"github.com/elastos/Elastos.ELA/p2p"
	"github.com/elastos/Elastos.ELA/p2p/msg"

	"verif/kit"
	"verif/kit/node"
)

// C15 — caches are transparent and bounded.
//
// A live node (one per shard) is driven through a seeded history of blocks,
// transfers, mempool submissions, forks/reorganisations, lookups and block
// pushes. After every step ("quiescent point") each of the four caches is
// compared with its uncached source and with a reference model that is built
// only from the block objects the harness assembled:
//
//   (a) blockchain.UTXOCache.GetTxReference/GetTransaction  vs  the tx index read
//       without any cache (hook) and the model, MaxReferenceSize 3..20;
//   (b) UnspentIndex.FetchTx (TxCache)                      vs  the same DB path
//       without the cache lookup (hook) and the model (tx and height);
//   (c) ChainStoreFFLDB.GetBlock (decoded-block cache)      vs  dbTx.FetchBlock +
//       fresh decode, blocks stored with and without a confirm;
//   (d) p2p.WriteMessage (serialized-block send cache)      vs  header + fresh
//       Serialize of the same message.
//
// Occupancy is read through verif hooks after every op. A second phase runs
// 4..8 reader goroutines against a writer that extends/reorganises the chain
// and repeats the full comparison at quiescent points.

func init() {
	kit.Register(&kit.Spec{
		ID:      "C15",
		Rule:    "one live regnet node per shard (mode quiet / real netsync event handler subscribed / forced reader inside block-disconnected events); a case is one (step, probe) pair: step = mined block with 0-3 signed transfers (with or without a stored confirm), mempool submission, fork of depth 1-3 that wins (re-mining some detached txs at other heights), lookup burst, NetServer.pushBlockMsg/pushConfirmedBlockMsg; probe = txid / synthetic tx naming 1-4 outpoints (recent, losing-branch-only, out-of-range, unknown) / block hash / send sequence over <=4 hashes x {confirmed,unconfirmed} interleaved with other commands. non-trivial = the probe names an object the node has stored at some time (so the cached and the uncached path can both answer)",
		Shards:  func(tier string) int { return 8 },
		Run:     runC15,
		Require: []string{"a_ref_lookups", "a_ref_hits", "a_ref_misses", "a_ref_evictions", "a_tx_lookups", "a_entries_cached_before_reorg_for_rolled_back_txs", "a_rolledback_probes", "b_fetch_lookups", "b_hits", "b_misses", "c_block_lookups", "c_hits", "c_confirmed_blocks_checked", "c_unconfirmed_blocks_checked", "c_evictions", "d_block_sends", "d_hits", "d_evictions", "reorgs", "chain_fork_scenarios", "c_push_block_msgs", "conc_rounds", "conc_reader_ops", "honest_blocks_accepted", "audits", "s_pushes", "s_pops", "s_zero_output_probes_after_rollback", "s_zero_input_probes_after_rollback", "txcache_restored_default_profile", "txcache_restored_memory_first", "restored_cache_disconnects_checked", "restored_cache_lookups", "restored_cache_hits", "restored_cache_rolled_back_probes", "cp_branches_replaced"},
		Assumptions: []string{
			"the uncached answer is the node's own database read without the cache lookup (tx index + block region, raw FetchBlock + decode, Message.Serialize); that path is the specification here",
			"regnet proof-of-work era: ProcessBlock stores a handed-in confirm without validating it, so confirmed and unconfirmed stored blocks can be produced without DPoS infrastructure; confirms are fabricated",
			"quick tier: the tx-cache bound TxCacheVolume+TrimmingInterval is not reachable (needs >10000 cached txs); only its transparency is judged (counter b_bound_not_exercised)",
			"send cache: one confirm per block hash (what a node holds); two different confirms of one block are reported as a number only",
			"concurrent phase is not run under the race detector (another property covers races); its verdicts are content checks in flight and the full differential at quiescent points",
		},
		TimeoutS: func(tier string) int {
			if tier == "thorough" {
				return 1500
			}
			return 400
		},
	})
}

type nopNotifier struct{}

func (nopNotifier) RelayInventory(invVect *msg.InvVect, data interface{}) {}

func runC15(c *kit.Ctx) {
	r := c.Rand("c15")
	maxRef := 3 + r.Intn(18)
	txVol := uint32(4 + r.Intn(40))
	mode := []string{"quiet", "netsync", "forced"}[c.Shard%3]
	nd, err := node.Start(node.Options{Dir: c.WorkDir, CoinbaseMaturity: 2, Tweak: func(cfg *config.Configuration) {
		cfg.TxCacheVolume = txVol
	}})
	if err != nil {
		c.Inconclusive("node start: %v", err)
		return
	}
	defer nd.Close()
	blockchain.MaxReferenceSize = maxRef
	e := &c15Env{c: c, nd: nd, uc: nd.Chain.UTXOCache, ffl: nd.Store.GetFFLDB(), mode: mode, r: r,
		ownerOf: map[common.Uint168]int{}, fee: nd.Cfg.MinTransactionFee,
		blocks: map[common.Uint256]*types.Block{}, confirmOf: map[common.Uint256]*payload.Confirm{},
		txs: map[common.Uint256]interfaces.Transaction{}, txBytes: map[common.Uint256][]byte{},
		duringReorgIn: map[common2.Input]bool{}, duringReorgTx: map[common.Uint256]bool{}, staleClass: map[common.Uint256]string{},
		pushed: map[common.Uint256]bool{}, sampled: map[string]bool{}, cbr: c.Rand("c15-callback")}
	e.im = blockchain.VerifIndexManager(e.ffl)
	if e.im == nil || e.im.VerifTxCacheLen() < 0 {
		c.Inconclusive("index manager / tx cache not reachable through the verif hook")
		return
	}
	if _, _, ok := blockchain.VerifBlockCacheStats(e.ffl); !ok {
		c.Inconclusive("decoded-block cache not reachable through the verif hook")
		return
	}
	for _, a := range append([]int{0, 1}, c15Accts...) {
		e.ownerOf[node.Key(a).ProgramHash] = a
	}
	c.Count("mode_"+mode, 1)
	c.Max("max:a_MaxReferenceSize_configured", int64(maxRef))
	e.learnBlock(nd.Cfg.GenesisBlock, nil)

	// the node's own reaction to chain events (elanet/netsync/manager.go:
	// handleBlockchainEvents): re-inserting disconnected txs into the mempool,
	// cleaning the tx part of the UTXO cache on every connected block.
	if mode == "netsync" {
		netsync.New(&netsync.Config{PeerNotifier: nopNotifier{}, Chain: nd.Chain, ChainParams: nd.Cfg,
			TxMemPool: nd.TxPool, BlockMemPool: nd.BlockPool, MaxPeers: 8})
	}
	events.Subscribe(e.onEvent)

	// ---- funding ----
	if !e.fund() {
		return
	}

	// ---- phase 1: sequential history, audit after every step ----
	steps := c.N(30, 400)
	for i := 0; i < steps; i++ {
		e.step(r, i, true)
	}

	// ---- phase 2: send cache sequences on real blocks ----
	var src []*types.Block
	for _, b := range e.m.chain[1:] {
		src = append(src, b)
	}
	e.runSend(c.Rand("c15-send"), c.N(30, 600), src)

	// ---- phase 3: concurrent readers vs writer, audit at quiescent points ----
	rounds := c.N(3, 30)
	for k := 0; k < rounds; k++ {
		e.concurrentRound(r, k)
	}

	// ---- phase 4: tx-cache bound (needs > TrimmingInterval cached txs) ----
	if c.Quick() {
		c.Inc("b_bound_not_exercised")
	} else if c.Shard < 2 {
		e.txCacheBound(r)
	}
	// ---- phase 5: store level, tx shapes the pow-era context checks do not admit ----
	e.storeLevel(c.Rand("c15-store"))

	// ---- phase 6: tx-cache checkpoint restore under both node profiles ----
	e.checkpointRestore()
	e.audit(r, "final", 40)
}

// ---------- event hook: what happens between CleanCache and the end of a reorg ----------

func (e *c15Env) onEvent(ev *events.Event) {
	if ev.Type != events.ETBlockDisconnected || !e.inReorg {
		return
	}
	blk, ok := ev.Data.(*types.Block)
	if !ok {
		return
	}
	e.c.Inc("blocks_disconnected")
	switch e.mode {
	case "netsync":
		// the real handler re-submits these txs to the mempool, which looks their
		// references up through the UTXO cache: record which keys that touches.
		for _, tx := range blk.Transactions[1:] {
			var p c15Probe
			for _, in := range tx.Inputs() {
				e.duringReorgIn[*in] = true
				e.duringReorgTx[in.Previous.TxID] = true
				p.ins = append(p.ins, *in)
			}
			e.pushWarm(p) // re-checked first at the next quiescent point
		}
	case "forced":
		// a reader (mempool check, RPC) scheduled at this point: legal because
		// GetTxReference/GetTransaction need neither the chain nor the event lock.
		var prefer []common.Uint256
		for _, b := range e.detachPlan {
			if b.Height < blk.Height {
				for _, tx := range b.Transactions {
					prefer = append(prefer, tx.Hash())
				}
			}
		}
		for i := 0; i < 3; i++ {
			p := e.genProbe(e.cbr, prefer)
			for _, in := range p.ins {
				e.duringReorgIn[in] = true
				e.duringReorgTx[in.Previous.TxID] = true
			}
			e.lookupRef(p, false)
			e.pushWarm(p)
			e.c.Inc("forced_reader_lookups_inside_reorg")
		}
		if len(prefer) > 0 {
			id := prefer[e.cbr.Intn(len(prefer))]
			e.duringReorgTx[id] = true
			e.lookupUCTx(id, false)
		}
	}
}

// ---------- funding ----------

func (e *c15Env) fund() bool {
	c, nd := e.c, e.nd
	for i := 0; i < int(nd.Cfg.PowConfiguration.CoinbaseMaturity)+1; i++ {
		if !e.refreshModel() {
			return false
		}
		b, cf, err := e.assembleOn(e.r, e.m, nil, i%2 == 1)
		if err != nil {
			c.Inconclusive("assemble: %v", err)
			return false
		}
		if _, err := e.process(b, cf); err != nil {
			c.Inconclusive("empty block rejected: %v", err)
			return false
		}
	}
	e.refreshModel()
	g := nd.GenesisUTXO()
	var outs []node.Out
	per := common.Fixed64(1000 * 1e8)
	for _, a := range c15Accts {
		for k := 0; k < 8; k++ {
			outs = append(outs, node.Out{To: node.Key(a).ProgramHash, Value: per})
		}
	}
	outs = append(outs, node.Out{To: nd.Found.ProgramHash, Value: g.Value - per*common.Fixed64(len(outs)) - 1000})
	fund := node.Transfer([]node.UTXORef{g}, outs, common2.TxVersion09)
	e.learnTx(fund)
	b, cf, err := e.assembleOn(e.r, e.m, []interfaces.Transaction{fund}, false)
	if err != nil {
		c.Inconclusive("funding block: %v", err)
		return false
	}
	if _, err := e.process(b, cf); err != nil {
		c.Inconclusive("funding block rejected: %v", err)
		return false
	}
	e.refreshModel()
	e.base = e.m.tip().Height
	if e.nd.Height() != e.base || e.m.txH[fund.Hash()] != e.base {
		c.Inconclusive("funding block not on the active chain")
		return false
	}
	return true
}

// ---------- history steps ----------

func (e *c15Env) step(r *rand.Rand, i int, audit bool) {
	c := e.c
	x := r.Intn(100)
	kind := ""
	switch {
	case x < 38:
		kind = "mine"
		e.stepMine(r)
	case x < 54:
		kind = "fork"
		e.stepFork(r)
	case x < 60:
		kind = "chainfork"
		e.stepChainFork(r)
	case x < 70:
		kind = "mempool"
		e.stepMempool(r)
	case x < 88:
		kind = "lookups"
		e.stepLookups(r, audit)
	default:
		kind = "push"
		if audit { // the block-push mutator is kept out of the free-running phase
			e.stepPush(r)
		}
	}
	c.Inc("steps_" + kind)
	if audit {
		c.Begin("audit after step %d (%s)", i, kind)
		e.audit(r, fmt.Sprintf("step %d (%s)", i, kind), 10)
	}
}

func (e *c15Env) stepMine(r *rand.Rand) {
	c := e.c
	if !e.refreshModel() {
		return
	}
	used := map[node.OutKey]bool{}
	var txs []interfaces.Transaction
	// mempool txs that are still valid
	for _, tx := range e.pending {
		if spendsUnspent(e.m, tx, 0xffffffff, used) && len(txs) < 3 {
			for _, in := range tx.Inputs() {
				used[node.OutKey{TxID: in.Previous.TxID, Index: in.Previous.Index}] = true
			}
			txs = append(txs, tx)
		}
	}
	e.pending = nil
	txs = append(txs, e.mkTransfers(r, e.m, r.Intn(4), used, 0xffffffff)...)
	b, cf, err := e.assembleOn(r, e.m, txs, r.Intn(2) == 0)
	if err != nil {
		c.Note("assemble on tip: %v", err)
		return
	}
	inMain, err := e.process(b, cf)
	if err != nil || !inMain {
		c.Inc("honest_blocks_rejected")
		c.Note("honest block with %d txs on the tip rejected: inMain=%v err=%v", len(txs), inMain, err)
	} else {
		c.Inc("honest_blocks_accepted")
		c.Count("txs_mined", int64(len(txs)))
	}
	e.refreshModel()
}

func (e *c15Env) stepMempool(r *rand.Rand) {
	if !e.refreshModel() {
		return
	}
	used := map[node.OutKey]bool{}
	for _, tx := range e.pending {
		for _, in := range tx.Inputs() {
			used[node.OutKey{TxID: in.Previous.TxID, Index: in.Previous.Index}] = true
		}
	}
	for _, tx := range e.mkTransfers(r, e.m, 1+r.Intn(2), used, 0xffffffff) {
		e.c.Inc("mempool_submissions")
		if err := e.nd.TxPool.AppendToTxPool(tx); err == nil {
			e.c.Inc("mempool_accepted")
			e.pending = append(e.pending, tx)
		}
	}
}

// stepFork builds a longer branch on a non-tip parent; some detached txs are
// re-mined on the new branch (possibly at another height), others vanish.
func (e *c15Env) stepFork(r *rand.Rand) { e.fork(r, 0, false) }

// stepChainFork: T1 in block A, T2 spending T1 in block B, then a fork below A
// that re-mines neither: afterwards T1 and T2 exist only on the losing branch.
func (e *c15Env) stepChainFork(r *rand.Rand) {
	if !e.refreshModel() {
		return
	}
	t1 := e.mkTransfers(r, e.m, 1, map[node.OutKey]bool{}, 0xffffffff)
	if len(t1) == 0 {
		return
	}
	for _, txs := range [][]interfaces.Transaction{t1, nil} {
		if txs == nil {
			// spend an output of T1
			o := t1[0].Outputs()[0]
			in := node.UTXORef{TxID: t1[0].Hash(), Index: 0, Value: o.Value, Owner: node.Key(e.ownerOf[o.ProgramHash])}
			t2 := node.Transfer([]node.UTXORef{in}, []node.Out{{To: o.ProgramHash, Value: o.Value - e.fee}}, common2.TxVersion09)
			e.learnTx(t2)
			txs = []interfaces.Transaction{t2}
		}
		b, cf, err := e.assembleOn(r, e.m, txs, r.Intn(2) == 0)
		if err != nil {
			e.c.Note("chain-fork: %v", err)
			return
		}
		if inMain, err := e.process(b, cf); err != nil || !inMain {
			e.c.Inc("honest_blocks_rejected")
			e.c.Note("chain-fork block rejected: %v", err)
			return
		}
		e.c.Inc("honest_blocks_accepted")
		e.refreshModel()
	}
	e.c.Inc("chain_fork_scenarios")
	e.fork(r, 2, true)
}

func (e *c15Env) fork(r *rand.Rand, depth int, dropAll bool) {
	c := e.c
	if !e.refreshModel() {
		return
	}
	tipH := e.m.tip().Height
	maxD := int(tipH - e.base)
	if maxD < 1 {
		e.stepMine(r)
		return
	}
	if maxD > 3 {
		maxD = 3
	}
	d := 1 + r.Intn(maxD)
	if depth > 0 && depth <= int(tipH-e.base) {
		d = depth
	}
	// warm the caches with references into the blocks about to be detached
	detached := e.m.chain[len(e.m.chain)-d:]
	var prefer []common.Uint256
	var detTxs []interfaces.Transaction
	dropped := 0
	for _, b := range detached {
		for ti, tx := range b.Transactions {
			prefer = append(prefer, tx.Hash())
			if ti > 0 {
				if dropAll || r.Intn(5) < 2 { // never re-mined: exists only on the losing branch afterwards
					dropped++
					continue
				}
				detTxs = append(detTxs, tx)
			}
		}
	}
	for i := 0; i < 2+r.Intn(4); i++ {
		p := e.genProbe(r, prefer)
		e.lookupRef(p, true)
		e.pushWarm(p)
	}
	for i := 0; i < 2; i++ {
		e.lookupUCTx(prefer[r.Intn(len(prefer))], true)
	}
	var snapIn []common2.Input
	var snapTx []common.Uint256

	sub := e.modelOf(e.m.chain[:len(e.m.chain)-d])
	e.detachPlan = detached
	for k := range e.duringReorgIn {
		delete(e.duringReorgIn, k)
	}
	for k := range e.duringReorgTx {
		delete(e.duringReorgTx, k)
	}
	oldTip := e.nd.Tip()
	var last *types.Block
	ok := true
	remined := 0
	for k := 0; k <= d; k++ {
		used := map[node.OutKey]bool{}
		var txs []interfaces.Transaction
		nextH := sub.tip().Height + 1
		var rest []interfaces.Transaction
		for _, tx := range detTxs {
			if len(txs) < 4 && r.Intn(2) == 0 && spendsUnspent(sub, tx, nextH, used) {
				for _, in := range tx.Inputs() {
					used[node.OutKey{TxID: in.Previous.TxID, Index: in.Previous.Index}] = true
				}
				txs = append(txs, tx)
				remined++
			} else {
				rest = append(rest, tx)
			}
		}
		detTxs = rest
		txs = append(txs, e.mkTransfers(r, sub, r.Intn(3), used, nextH)...)
		b, cf, err := e.assembleOn(r, sub, txs, r.Intn(2) == 0)
		if err != nil {
			c.Note("assemble on side branch: %v", err)
			ok = false
			break
		}
		e.inReorg = k == d
		if k == d { // what the UTXO cache holds right before the reorganisation
			e.uc.Lock()
			for in := range e.uc.Reference {
				snapIn = append(snapIn, in)
			}
			for id := range e.uc.TxCache {
				snapTx = append(snapTx, id)
			}
			e.uc.Unlock()
			sort.Slice(snapIn, func(i, j int) bool { return c15InputLess(snapIn[i], snapIn[j]) })
			sort.Slice(snapTx, func(i, j int) bool { return bytes.Compare(snapTx[i][:], snapTx[j][:]) < 0 })
		}
		_, err = e.process(b, cf)
		e.inReorg = false
		if err != nil {
			c.Note("side-branch block %d/%d (depth %d) rejected: %v", k, d, d, err)
			c.Inc("honest_blocks_rejected")
			ok = false
			break
		}
		c.Inc("honest_blocks_accepted")
		sub.apply(e, b)
		last = b
	}
	if ok && last != nil && e.nd.Tip() == last.Hash() && e.nd.Tip() != oldTip {
		c.Inc("reorgs")
		e.uc.Lock()
		for k := range e.duringReorgIn {
			if _, ok := e.uc.Reference[k]; ok {
				c.Inc("a_refs_inserted_inside_reorg_still_cached_after_info")
			}
		}
		e.uc.Unlock()
		c.Count("a_inputs_looked_up_inside_reorg_info", int64(len(e.duringReorgIn)))
		c.Count("reorg_blocks_detached", int64(d))
		c.Count("reorg_txs_remined", int64(remined))
		c.Count("reorg_txs_dropped", int64(len(detTxs)+dropped))
		e.refreshModel()
		// every entry that was cached before the reorganisation and whose
		// transaction was rolled back must not be served any more
		for _, in := range snapIn {
			if _, on := e.m.txH[in.Previous.TxID]; !on {
				c.Inc("a_entries_cached_before_reorg_for_rolled_back_txs")
				e.lookupRef(c15Probe{ins: []common2.Input{in}}, true)
			}
		}
		for _, id := range snapTx {
			if _, on := e.m.txH[id]; !on {
				c.Inc("a_entries_cached_before_reorg_for_rolled_back_txs")
				e.lookupUCTx(id, true)
			}
		}
	} else {
		c.Inc("fork_without_reorg")
		e.refreshModel()
	}
}

func c15InputLess(a, b common2.Input) bool {
	if c := bytes.Compare(a.Previous.TxID[:], b.Previous.TxID[:]); c != 0 {
		return c < 0
	}
	if a.Previous.Index != b.Previous.Index {
		return a.Previous.Index < b.Previous.Index
	}
	return a.Sequence < b.Sequence
}

func (e *c15Env) pushWarm(p c15Probe) {
	e.warm = append(e.warm, p)
	if len(e.warm) > 24 {
		e.warm = e.warm[len(e.warm)-24:]
	}
}

func (e *c15Env) stepLookups(r *rand.Rand, judge bool) {
	for i := 0; i < 4+r.Intn(8); i++ {
		p := e.genProbe(r, nil)
		e.lookupRef(p, judge)
		e.pushWarm(p)
	}
	e.mu.RLock()
	ids := []common.Uint256{e.recentTx[r.Intn(len(e.recentTx))], e.txIDs[r.Intn(len(e.txIDs))]}
	e.mu.RUnlock()
	for _, id := range ids {
		e.lookupUCTx(id, judge)
		e.lookupIdxTx(id, judge)
	}
}

// stepPush runs the node's own reply to a getdata request for a block
// (elanet/server.go pushBlockMsg / pushConfirmedBlockMsg) against a recent block.
func (e *c15Env) stepPush(r *rand.Rand) {
	n := len(e.m.chain)
	back := 1 + r.Intn(3)
	if back >= n {
		back = n - 1
	}
	b := e.m.chain[n-back]
	if r.Intn(4) > 0 { // prefer a recent block that was stored with a confirm
		for k := 1; k <= 4 && k < n; k++ {
			if e.confirmOf[e.m.chain[n-k].Hash()] != nil {
				b = e.m.chain[n-k]
				break
			}
		}
	}
	h := b.Hash()
	confirmed := r.Intn(3) == 0
	// the decoded-block cache is involved in most cases
	if r.Intn(4) > 0 {
		e.ffl.GetBlock(h)
	}
	var err error
	p, v, _ := kit.Guard(func() { err = elanet.VerifPushBlockMsg(e.nd.Chain, e.nd.BlockPool, h, confirmed) })
	if p {
		e.c.Note("pushBlockMsg panicked: %v", v)
		return
	}
	if err != nil {
		e.c.Inc("c_push_errors")
		return
	}
	if confirmed {
		e.c.Inc("c_push_confirmed_block_msgs")
	} else {
		e.c.Inc("c_push_block_msgs")
		e.pushed[h] = true
	}
	e.checkBlock(h, true)
}

// ---------- lookups with oracles ----------

func (e *c15Env) ucLens() (ref, tx int) {
	e.uc.Lock()
	defer e.uc.Unlock()
	return len(e.uc.Reference), len(e.uc.TxCache)
}

func (e *c15Env) staleClassOf(txid common.Uint256, in *common2.Input) string {
	if cl, ok := e.staleClass[txid]; ok {
		return cl
	}
	// quiet: nobody looked the entry up while the reorganisation ran, so it
	// must have survived the clean. lookup-during-reorg: it was (or, with
	// free-running readers, may have been) inserted between the clean at the
	// start of the reorganisation and the disconnect of its block.
	cl := "quiet"
	if e.concurrent || e.duringReorgTx[txid] || (in != nil && e.duringReorgIn[*in]) {
		cl = "lookup-during-reorg"
	}
	e.staleClass[txid] = cl
	return cl
}

// uncachedOutput answers "which output does this outpoint name" from the
// database without any cache, and from the model.
func (e *c15Env) uncachedOutput(in common2.Input) (out *common2.Output, dbOK bool, modelOK bool, known bool) {
	tx, _, err := e.im.VerifFetchTxUncached(in.Previous.TxID)
	if err == nil && int(in.Previous.Index) < len(tx.Outputs()) {
		out, dbOK = tx.Outputs()[in.Previous.Index], true
	}
	e.mu.RLock()
	ktx, isKnown := e.txs[in.Previous.TxID]
	_, onChain := e.m.txH[in.Previous.TxID]
	e.mu.RUnlock()
	known = isKnown
	modelOK = isKnown && onChain && int(in.Previous.Index) < len(ktx.Outputs())
	return
}

// lookupRef runs UTXOCache.GetTxReference for a probe. Content is always
// checked (a txid fixes the outputs); existence only when judge is set (at
// quiescent points).
func (e *c15Env) lookupRef(p c15Probe, judge bool) {
	c := e.c
	tx := p.tx()
	// which inputs are cached right now
	e.uc.Lock()
	hits, before := 0, map[common2.Input]bool{}
	for k := range e.uc.Reference {
		before[k] = true
	}
	for _, in := range tx.Inputs() {
		if before[*in] {
			hits++
		}
	}
	e.uc.Unlock()
	var got map[*common2.Input]common2.Output
	var err error
	pn, pv, _ := kit.Guard(func() { got, err = e.uc.GetTxReference(tx) })
	if pn {
		c.Violate("utxocache:GetTxReference:panic", fmt.Sprintf("GetTxReference panicked: %v", pv), p.id())
		return
	}
	c.Inc("a_ref_lookups")
	c.Count("a_ref_hits", int64(hits))
	c.Count("a_ref_misses", int64(len(p.ins)-hits))
	if !e.concurrent {
		e.uc.Lock()
		ev := 0
		for k := range before {
			if _, ok := e.uc.Reference[k]; !ok {
				ev++
			}
		}
		e.uc.Unlock()
		c.Count("a_ref_evictions", int64(ev))
	}
	e.checkUCBound()

	// content check (state independent)
	e.mu.RLock()
	for in, o := range got {
		ktx, known := e.txs[in.Previous.TxID]
		if !known || int(in.Previous.Index) >= len(ktx.Outputs()) {
			c.Violate("utxocache:GetTxReference:answers-for-nonexistent-outpoint", fmt.Sprintf("returned an output for outpoint %s:%d which no transaction ever had", in.Previous.TxID.String()[:16], in.Previous.Index), p.id())
			continue
		}
		oc := o
		if !outEq(&oc, ktx.Outputs()[in.Previous.Index]) {
			c.Violate("utxocache:GetTxReference:wrong-output", fmt.Sprintf("outpoint %s:%d: returned value %d, transaction has %d", in.Previous.TxID.String()[:16], in.Previous.Index, o.Value, ktx.Outputs()[in.Previous.Index].Value), p.id())
		}
	}
	e.mu.RUnlock()
	if err == nil {
		if len(got) != len(tx.Inputs()) {
			c.Violate("utxocache:GetTxReference:result-shape", fmt.Sprintf("%d inputs, %d references returned", len(tx.Inputs()), len(got)), p.id())
		}
		for _, in := range tx.Inputs() {
			if _, ok := got[in]; !ok {
				c.Violate("utxocache:GetTxReference:result-shape", "an input of the tx is missing from the result map", p.id())
			}
		}
	}
	if !judge {
		return
	}
	// existence: uncached database answer (and model) per input
	dbAll, modelAll, anyKnown := true, true, false
	var firstBad *common2.Input
	rolledBack := false
	for _, in := range tx.Inputs() {
		_, dbOK, mOK, known := e.uncachedOutput(*in)
		anyKnown = anyKnown || known
		if !dbOK && dbAll {
			firstBad = in
			e.mu.RLock()
			_, onChain := e.m.txH[in.Previous.TxID]
			e.mu.RUnlock()
			rolledBack = known && !onChain
		}
		dbAll = dbAll && dbOK
		modelAll = modelAll && mOK
	}
	c.Case("a:ref:"+p.id(), anyKnown)
	if rolledBack {
		c.Inc("a_rolledback_probes")
	}
	if dbAll != modelAll {
		c.Inc("store_vs_model_disagreements")
		c.Note("uncached store and model disagree on probe %s (store ok=%v, model ok=%v)", p.id(), dbAll, modelAll)
	}
	switch {
	case err == nil && !dbAll:
		if _, _, lerr := e.nd.Store.GetTransaction(firstBad.Previous.TxID); rolledBack && lerr == nil {
			// the layer below (tx cache of the index) still answers: its own oracle reports that
			c.Inc("a_stale_answers_caused_by_layer_below")
		} else if rolledBack {
			cl := e.staleClassOf(firstBad.Previous.TxID, firstBad)
			c.Violate("utxocache:serves-rolled-back-tx:"+cl, fmt.Sprintf("GetTxReference answered for outpoint %s:%d although its transaction is on no active-chain block any more (uncached lookup: not found); class=%s mode=%s concurrent-phase=%v", firstBad.Previous.TxID.String()[:16], firstBad.Previous.Index, cl, e.mode, e.concurrent),
				map[string]interface{}{"probe": p.id(), "mode": e.mode})
		} else {
			c.Violate("utxocache:GetTxReference:answers-where-uncached-fails", fmt.Sprintf("GetTxReference succeeded, the uncached lookup of %s:%d fails", firstBad.Previous.TxID.String()[:16], firstBad.Previous.Index), p.id())
		}
	case err != nil && dbAll:
		c.Violate("utxocache:GetTxReference:spurious-error", fmt.Sprintf("GetTxReference failed (%v), every outpoint resolves uncached", err), p.id())
	case err == nil:
		c.Inc("a_ref_answers_equal")
	default:
		c.Inc("a_ref_errors_equal")
		if rolledBack && !e.sampled["a"] {
			e.sampled["a"] = true
			c.Sample(map[string]interface{}{"kind": "a: GetTxReference for an outpoint whose tx exists only on a losing branch", "probe": p.id(), "cached_path": err.Error(), "uncached_path": "not found", "mode": e.mode})
		}
	}
}

func (e *c15Env) checkUCBound() {
	c := e.c
	e.uc.Lock()
	nIn, nRef, nTx := e.uc.Inputs.Len(), len(e.uc.Reference), len(e.uc.TxCache)
	e.uc.Unlock()
	max := blockchain.MaxReferenceSize
	c.Max("max:a_reference_entries", int64(nRef))
	c.Max("max:a_txcache_entries", int64(nTx))
	if nRef >= max {
		c.Inc("a_reference_at_bound_observed")
	}
	if nRef > max {
		c.Violate("bound:utxocache.Reference", fmt.Sprintf("%d references cached, MaxReferenceSize=%d", nRef, max), nil)
	}
	if nTx > max {
		c.Inc("a_txcache_over_bound_observations")
	}
	if nTx > max && !e.txBoundReported {
		e.txBoundReported = true
		c.Violate("bound:utxocache.TxCache", fmt.Sprintf("%d transactions cached, MaxReferenceSize=%d", nTx, max), nil)
	}
	if nIn != nRef && !e.concurrent {
		c.Inc("a_list_map_desync_info")
	}
}

// lookupUCTx: UTXOCache.GetTransaction vs uncached db vs model.
func (e *c15Env) lookupUCTx(id common.Uint256, judge bool) {
	c := e.c
	e.uc.Lock()
	_, hit := e.uc.TxCache[id]
	e.uc.Unlock()
	got, err := e.uc.GetTransaction(id)
	c.Inc("a_tx_lookups")
	if hit {
		c.Inc("a_tx_hits")
	} else {
		c.Inc("a_tx_misses")
	}
	e.checkUCBound()
	e.mu.RLock()
	kb, known := e.txBytes[id]
	_, onChain := e.m.txH[id]
	e.mu.RUnlock()
	if err == nil {
		if !known {
			c.Violate("utxocache:GetTransaction:answers-for-unknown-id", "a transaction was returned for an id no block ever contained", nil)
		} else if !bytes.Equal(serUnsigned(got), kb) {
			c.Violate("utxocache:GetTransaction:wrong-tx", fmt.Sprintf("transaction returned for %s differs from the transaction with that id", id.String()[:16]), nil)
		}
	}
	if !judge {
		return
	}
	utx, _, uerr := e.im.VerifFetchTxUncached(id)
	c.Case("a:tx:"+id.String(), known)
	if (uerr == nil) != onChain {
		c.Inc("store_vs_model_disagreements")
		c.Note("uncached store and model disagree on tx %s (store err=%v, model onChain=%v)", id.String()[:16], uerr, onChain)
	}
	switch {
	case err == nil && uerr != nil:
		if _, _, lerr := e.nd.Store.GetTransaction(id); known && !onChain && lerr == nil {
			// the layer below (tx cache of the index) still answers: its own oracle reports that
			c.Inc("a_rolledback_probes")
			c.Inc("a_stale_answers_caused_by_layer_below")
		} else if known && !onChain {
			c.Inc("a_rolledback_probes")
			cl := e.staleClassOf(id, nil)
			c.Violate("utxocache:serves-rolled-back-tx:"+cl, fmt.Sprintf("GetTransaction(%s) answered although the transaction is on no active-chain block any more (uncached lookup: %v); class=%s mode=%s concurrent-phase=%v", id.String()[:16], uerr, cl, e.mode, e.concurrent),
				map[string]interface{}{"txid": id.String(), "mode": e.mode})
		} else {
			c.Violate("utxocache:GetTransaction:answers-where-uncached-fails", fmt.Sprintf("uncached: %v", uerr), nil)
		}
	case err != nil && uerr == nil:
		c.Violate("utxocache:GetTransaction:spurious-error", fmt.Sprintf("cached path: %v, uncached finds the transaction", err), nil)
	case err == nil:
		switch txAnswerEq(got, utx) {
		case "equal":
			c.Inc("a_tx_answers_equal")
		case "program-order":
			c.Inc("a_tx_answers_equal_up_to_program_order_info")
		default:
			c.Violate("utxocache:GetTransaction:differs-from-store", fmt.Sprintf("GetTransaction(%s) (hit=%v) differs from the stored transaction", id.String()[:16], hit), nil)
		}
	default:
		if known && !onChain {
			c.Inc("a_rolledback_probes")
		}
		c.Inc("a_tx_absent_equal")
	}
}

// lookupIdxTx: ChainStore.GetTransaction (-> UnspentIndex.FetchTx with its
// TxCache) vs the same database path without the cache vs model.
func (e *c15Env) lookupIdxTx(id common.Uint256, judge bool) {
	c := e.c
	hit := e.im.VerifTxCacheHas(id)
	got, gh, err := e.nd.Store.GetTransaction(id)
	c.Inc("b_fetch_lookups")
	if hit {
		c.Inc("b_hits")
	} else {
		c.Inc("b_misses")
	}
	n := e.im.VerifTxCacheLen()
	c.Max("max:b_txcache_entries", int64(n))
	bound := int(e.nd.Cfg.TxCacheVolume) + indexers.TrimmingInterval + e.maxBlockTxs
	if n > bound {
		c.Violate("bound:txcache", fmt.Sprintf("%d transactions cached, bound TxCacheVolume(%d)+TrimmingInterval(%d)+one block(%d)", n, e.nd.Cfg.TxCacheVolume, indexers.TrimmingInterval, e.maxBlockTxs), nil)
	}
	e.mu.RLock()
	kb, known := e.txBytes[id]
	mh, onChain := e.m.txH[id]
	e.mu.RUnlock()
	if err == nil {
		if !known {
			c.Violate("txcache:FetchTx:answers-for-unknown-id", "a transaction was returned for an id no block ever contained", nil)
		} else if gb := serUnsigned(got); !bytes.Equal(gb, kb) {
			c.Violate("txcache:FetchTx:wrong-tx", fmt.Sprintf("transaction returned for %s differs from the transaction with that id (type %s, hit=%v, %d vs %d bytes, got hash %s)", id.String()[:16], got.TxType().Name(), hit, len(gb), len(kb), got.Hash().String()[:16]), nil)
		}
	}
	if !judge {
		return
	}
	utx, uh, uerr := e.im.VerifFetchTxUncached(id)
	c.Case("b:tx:"+id.String(), known)
	if (uerr == nil) != onChain || (uerr == nil && uh != mh) {
		c.Inc("store_vs_model_disagreements")
		c.Note("uncached store and model disagree on tx %s (store err=%v height=%d, model onChain=%v height=%d)", id.String()[:16], uerr, uh, onChain, mh)
	}
	switch {
	case err == nil && uerr != nil:
		sig := "txcache:FetchTx:answers-where-uncached-fails"
		if known && !onChain {
			sig = "txcache:serves-rolled-back-tx"
			e.mu.RLock()
			if ktx := e.txs[id]; ktx != nil && len(ktx.Outputs()) == 0 {
				sig += ":zero-output"
			}
			e.mu.RUnlock()
		}
		c.Violate(sig, fmt.Sprintf("FetchTx(%s) answered from the cache (hit=%v), uncached: %v", id.String()[:16], hit, uerr), nil)
	case err != nil && uerr == nil:
		c.Violate("txcache:FetchTx:spurious-error", fmt.Sprintf("cached path: %v, uncached finds the transaction", err), nil)
	case err == nil && gh != uh:
		c.Violate("txcache:FetchTx:wrong-height", fmt.Sprintf("FetchTx(%s) height %d (hit=%v), uncached height %d, model height %d", id.String()[:16], gh, hit, uh, mh), nil)
	case err == nil:
		switch txAnswerEq(got, utx) {
		case "equal":
			c.Inc("b_answers_equal")
			if hit {
				c.Inc("b_hit_answers_equal_height_and_tx")
				if !e.sampled["b"] {
					e.sampled["b"] = true
					c.Sample(map[string]interface{}{"kind": "b: FetchTx served from the TxCache", "txid": id.String(), "height_cached": gh, "height_uncached": uh, "height_model": mh})
				}
			}
		case "program-order":
			c.Inc("b_answers_equal_up_to_program_order_info")
		default:
			c.Violate("txcache:FetchTx:differs-from-store", fmt.Sprintf("FetchTx(%s) (hit=%v) differs from the stored transaction", id.String()[:16], hit), nil)
		}
	default:
		c.Inc("b_absent_equal")
	}
}

func (e *c15Env) rawBlock(h common.Uint256) ([]byte, error) {
	var raw []byte
	err := e.ffl.View(func(dbTx database.Tx) error {
		b, err := dbTx.FetchBlock(&h)
		raw = append([]byte(nil), b...)
		return err
	})
	return raw, err
}

// checkBlock: ChainStoreFFLDB.GetBlock vs raw FetchBlock + fresh decode.
func (e *c15Env) checkBlock(h common.Uint256, judge bool) {
	c := e.c
	hit := blockchain.VerifBlockCacheHas(e.ffl, h)
	entriesBefore, _, _ := blockchain.VerifBlockCacheStats(e.ffl)
	got, gerr := e.ffl.GetBlock(h)
	c.Inc("c_block_lookups")
	if hit {
		c.Inc("c_hits")
	} else {
		c.Inc("c_misses")
	}
	entries, order, _ := blockchain.VerifBlockCacheStats(e.ffl)
	c.Max("max:c_blockcache_entries", int64(entries))
	c.Max("max:c_blockcache_order_len", int64(order))
	if !hit && gerr == nil && entriesBefore >= blockchain.BlocksCacheSize && entries <= blockchain.BlocksCacheSize {
		c.Inc("c_evictions")
	}
	if entries > blockchain.BlocksCacheSize || order > blockchain.BlocksCacheSize {
		c.Violate("bound:blockcache", fmt.Sprintf("decoded-block cache: %d entries, order slice %d, bound BlocksCacheSize=%d", entries, order, blockchain.BlocksCacheSize), nil)
	}
	raw, rerr := e.rawBlock(h)
	e.mu.RLock()
	kb, known := e.blocks[h]
	cf := e.confirmOf[h]
	e.mu.RUnlock()
	if judge {
		c.Case("c:block:"+h.String(), known && rerr == nil)
	}
	if !judge && (gerr != nil || rerr != nil) {
		return // in flight the two reads are not simultaneous; existence is judged at quiescent points
	}
	if (gerr == nil) != (rerr == nil) {
		c.Violate("blockcache:GetBlock:existence-differs", fmt.Sprintf("GetBlock err=%v, raw FetchBlock err=%v (hit=%v)", gerr, rerr, hit), nil)
		return
	}
	if gerr != nil {
		c.Inc("c_absent_equal")
		return
	}
	fresh := new(types.DposBlock)
	if err := fresh.Deserialize(bytes.NewReader(raw)); err != nil {
		c.Note("stored block %s does not decode: %v", h.String()[:16], err)
		return
	}
	fb, _ := serDpos(fresh)
	gb, serr := serDpos(got)
	after := ""
	if e.pushed[h] {
		after = ":after-pushBlockMsg"
	}
	if serr != nil {
		c.Violate("blockcache:GetBlock:unserializable"+after, fmt.Sprintf("block returned by GetBlock (hit=%v) cannot be serialized: %v", hit, serr), nil)
		return
	}
	if !bytes.Equal(gb, fb) {
		what := "content"
		if got.HaveConfirm != fresh.HaveConfirm {
			what = fmt.Sprintf("HaveConfirm cached=%v stored=%v", got.HaveConfirm, fresh.HaveConfirm)
		}
		c.Violate("blockcache:GetBlock:differs-from-store"+after, fmt.Sprintf("GetBlock(%s) (cache hit=%v) differs from raw FetchBlock+decode: %s; %d vs %d bytes", h.String()[:16], hit, what, len(gb), len(fb)),
			map[string]interface{}{"hash": h.String(), "hit": hit, "pushed_unconfirmed_before": e.pushed[h]})
	} else {
		c.Inc("c_answers_equal")
		if fresh.HaveConfirm && hit && !e.sampled["c"] {
			e.sampled["c"] = true
			c.Sample(map[string]interface{}{"kind": "c: GetBlock cache hit for a block stored with a confirm", "hash": h.String(), "bytes_cached_object": len(gb), "bytes_store": len(fb), "equal": true})
		}
		if fresh.HaveConfirm {
			c.Inc("c_confirmed_blocks_checked")
		} else {
			c.Inc("c_unconfirmed_blocks_checked")
		}
	}
	// the store itself against what the harness handed to ProcessBlock
	if known {
		same := fresh.Hash() == kb.Hash() && len(fresh.Transactions) == len(kb.Transactions) && fresh.HaveConfirm == (cf != nil)
		for i := 0; same && i < len(kb.Transactions); i++ {
			same = fresh.Transactions[i].Hash() == kb.Transactions[i].Hash()
		}
		if same && cf != nil {
			a, b := new(bytes.Buffer), new(bytes.Buffer)
			cf.Serialize(a)
			fresh.Confirm.Serialize(b)
			same = bytes.Equal(a.Bytes(), b.Bytes())
		}
		if !same {
			c.Inc("store_vs_model_disagreements")
			c.Note("stored block %s differs from the block+confirm handed to ProcessBlock (stored HaveConfirm=%v, handed confirm=%v)", h.String()[:16], fresh.HaveConfirm, cf != nil)
		}
	}
}

// sendBlockMsg: p2p.WriteMessage of a stored block in either variant.
func (e *c15Env) sendBlockMsg(r *rand.Rand, h common.Uint256) {
	c := e.c
	// as the server does: the block comes from the store (through the decoded-block cache)
	stored, err := e.nd.Chain.GetDposBlockByHash(h)
	if err != nil || stored == nil {
		return
	}
	db := stored // confirmed-block push sends the stored object itself
	if r.Intn(2) == 0 {
		db = &types.DposBlock{Block: stored.Block} // unconfirmed variant (without touching the shared object)
	}
	hit := p2p.VerifSendCacheHas(h, db.HaveConfirm)
	got, want, err := e.sendAndCompare(msg.NewBlock(db))
	c.Inc("d_block_sends")
	if hit {
		c.Inc("d_hits")
	} else {
		c.Inc("d_misses")
	}
	if err != nil {
		c.Violate("sendcache:write-error", fmt.Sprintf("WriteMessage failed: %v", err), nil)
		return
	}
	if !bytes.Equal(got, want) {
		c.Violate("sendcache:wrong-bytes", fmt.Sprintf("stored block %s confirmed=%v hit=%v: wire bytes differ from fresh Serialize", h.String()[:16], db.HaveConfirm, hit), nil)
	}
	e.checkSendBound()
}

// ---------- the quiescent-point audit ----------

func (e *c15Env) audit(r *rand.Rand, stage string, n int) {
	c := e.c
	c.Inc("audits")
	// 1. what was looked up most recently first (before other lookups evict it)
	warm := append([]c15Probe(nil), e.warm...)
	for i := len(warm) - 1; i >= 0; i-- {
		e.lookupRef(warm[i], true)
	}
	// 2. txids: recent, detached, any
	e.mu.RLock()
	var ids []common.Uint256
	for _, b := range e.detachPlan {
		for _, tx := range b.Transactions {
			ids = append(ids, tx.Hash())
		}
	}
	for i := 0; i < n; i++ {
		if i%2 == 0 && len(e.recentTx) > 0 {
			ids = append(ids, e.recentTx[r.Intn(len(e.recentTx))])
		} else {
			ids = append(ids, e.txIDs[r.Intn(len(e.txIDs))])
		}
	}
	var unk common.Uint256
	r.Read(unk[:])
	ids = append(ids, unk)
	var bids []common.Uint256
	nb := len(e.blockIDs)
	for i := 0; i < 5; i++ {
		if i < 3 && nb > 4 {
			bids = append(bids, e.blockIDs[nb-1-r.Intn(4)])
		} else {
			bids = append(bids, e.blockIDs[r.Intn(nb)])
		}
	}
	bids = append(bids, unk)
	e.mu.RUnlock()
	for _, id := range ids {
		e.lookupUCTx(id, true)
		e.lookupIdxTx(id, true)
	}
	// 3. fresh probes
	for i := 0; i < n; i++ {
		e.lookupRef(e.genProbe(r, ids), true)
	}
	// 4. blocks (alternating > BlocksCacheSize hashes), twice so the second read is a hit
	for _, h := range bids {
		e.checkBlock(h, true)
		e.checkBlock(h, true)
	}
	for _, h := range bids[:3] {
		e.sendBlockMsg(r, h)
	}
	_ = stage
}

// ---------- concurrent phase ----------

func (e *c15Env) concurrentRound(r *rand.Rand, round int) {
	c := e.c
	if !e.refreshModel() {
		return
	}
	nReaders := 4 + r.Intn(5)
	c.Max("max:conc_readers", int64(nReaders))
	var stop int32
	var wg sync.WaitGroup
	var ops int64
	e.concurrent = true
	for g := 0; g < nReaders; g++ {
		wg.Add(1)
		rr := c.Rand(fmt.Sprintf("c15-reader-%d-%d", round, g))
		go func() {
			defer wg.Done()
			for atomic.LoadInt32(&stop) == 0 {
				e.mu.RLock()
				id := e.txIDs[rr.Intn(len(e.txIDs))]
				if len(e.recentTx) > 0 && rr.Intn(3) > 0 {
					id = e.recentTx[rr.Intn(len(e.recentTx))]
				}
				nb := len(e.blockIDs)
				bh := e.blockIDs[nb-1-rr.Intn(minInt(nb, 5))]
				e.mu.RUnlock()
				switch rr.Intn(6) {
				case 0, 1:
					e.lookupRef(e.genProbe(rr, nil), false)
				case 2:
					e.lookupUCTx(id, false)
				case 3:
					e.lookupIdxTx(id, false)
				case 4:
					e.checkBlock(bh, false)
				default:
					e.sendBlockMsg(rr, bh)
				}
				atomic.AddInt64(&ops, 1)
			}
		}()
	}
	// the writer: extends and reorganises the chain while the readers run
	wsteps := 5 + r.Intn(5)
	for i := 0; i < wsteps; i++ {
		x := r.Intn(10)
		switch {
		case x < 5:
			e.stepMine(r)
		case x < 8:
			e.stepFork(r)
		case x < 9:
			e.stepChainFork(r)
		default:
			e.stepMempool(r)
		}
		c.Inc("conc_writer_steps")
	}
	atomic.StoreInt32(&stop, 1)
	wg.Wait()
	c.Inc("conc_rounds")
	c.Count("conc_reader_ops", atomic.LoadInt64(&ops))
	// quiescent: full differential; stale entries left by racing inserts show up here
	e.refreshModel()
	e.audit(r, fmt.Sprintf("concurrent round %d", round), 30)
	e.concurrent = false
	for k := range e.staleClass {
		delete(e.staleClass, k)
	}
}

func minInt(a, b int) int {
	if a < b {
		return a
	}
	return b
}

// ---------- tx-cache bound (thorough) ----------

// txCacheBound indexes more than TxCacheVolume+TrimmingInterval transactions
// that keep an unspent output, so that trim() has to run, and checks occupancy
// after every block and transparency for the trimmed transactions.
func (e *c15Env) txCacheBound(r *rand.Rand) {
	c := e.c
	if !e.refreshModel() {
		return
	}
	vol := int(e.nd.Cfg.TxCacheVolume)
	target := vol + indexers.TrimmingInterval + 1500
	// fan out: one tx with many outputs per step, then one child per output
	const fan = 1200
	made := 0
	var all []common.Uint256
	trims := 0
	for made < target {
		sp := e.spendable(e.m, map[node.OutKey]bool{}, 0xffffffff)
		var src *node.UTXORef
		for i := range sp {
			if sp[i].Value > common.Fixed64(fan)*200000 {
				src = &sp[i]
				break
			}
		}
		if src == nil {
			c.Note("tx-cache bound: no output large enough to fan out (made %d)", made)
			break
		}
		before := e.im.VerifTxCacheLen()
		per := (src.Value - 100000) / fan
		owner := c15Accts[r.Intn(len(c15Accts))]
		var outs []node.Out
		for i := 0; i < fan; i++ {
			outs = append(outs, node.Out{To: node.Key(owner).ProgramHash, Value: per})
		}
		ftx := node.Transfer([]node.UTXORef{*src}, outs, common2.TxVersion09)
		e.learnTx(ftx)
		b, cf, err := e.assembleOn(r, e.m, []interfaces.Transaction{ftx}, false)
		if err != nil {
			c.Note("tx-cache bound: %v", err)
			break
		}
		if _, err := e.process(b, cf); err != nil {
			c.Note("tx-cache bound: fan-out block rejected: %v", err)
			break
		}
		e.refreshModel()
		var kids []interfaces.Transaction
		for i := 0; i < fan; i++ {
			in := node.UTXORef{TxID: ftx.Hash(), Index: uint16(i), Value: per, Owner: node.Key(owner)}
			k := node.Transfer([]node.UTXORef{in}, []node.Out{{To: node.Key(owner).ProgramHash, Value: per - e.fee}}, common2.TxVersion09)
			kids = append(kids, k)
		}
		e.mu.Lock()
		for _, k := range kids {
			e.learnTxLocked(k)
		}
		e.mu.Unlock()
		b, cf, err = e.assembleOn(r, e.m, kids, false)
		if err != nil {
			c.Note("tx-cache bound: %v", err)
			break
		}
		if _, err := e.process(b, cf); err != nil {
			c.Note("tx-cache bound: child block rejected: %v", err)
			break
		}
		e.refreshModel()
		after := e.im.VerifTxCacheLen()
		c.Max("max:b_txcache_entries", int64(after))
		if after < before {
			trims++
			c.Inc("b_trims_observed")
		}
		bound := vol + indexers.TrimmingInterval + e.maxBlockTxs
		if after > bound {
			c.Violate("bound:txcache", fmt.Sprintf("%d transactions cached after a block, bound TxCacheVolume(%d)+TrimmingInterval(%d)+one block(%d)", after, vol, indexers.TrimmingInterval, e.maxBlockTxs), nil)
		}
		for _, k := range kids {
			all = append(all, k.Hash())
		}
		made += fan + 1
		c.Count("b_bound_txs_indexed", int64(fan+1))
	}
	// one more block so that a pending trim happens, then transparency over everything
	e.stepMine(r)
	e.stepMine(r)
	if n := e.im.VerifTxCacheLen(); n <= vol+indexers.TrimmingInterval && made >= target {
		c.Inc("b_bound_exercised")
	}
	for _, id := range all {
		e.lookupIdxTx(id, true)
	}
	// and across a reorg that detaches the last child block is too heavy; the
	// regular history already covers reorgs
	_ = trims
}

package props

// Reference model of ELA program (witness) validation, shared by C05 and C37.
//
// Nothing in this file imports the repository's crypto / contract / blockchain
// packages: hashing is sha256 + ripemd160, ECDSA is the Go standard library on
// elliptic.P256(), the Schnorr verification and the base58 address codec are
// re-implemented here from their definitions.

import (
	"bytes"
	"crypto/ecdsa"
	"crypto/elliptic"
	"crypto/sha256"
	"math/big"

	"golang.org/x/crypto/ripemd160"
)

const (
	mPrefixStandard   = 0x21
	mPrefixMultiSig   = 0x12
	mPrefixCrossChain = 0x4B
	mPrefixDeposit    = 0x1F

	mOpCheckSig      = 0xAC
	mOpCheckMultiSig = 0xAE
	mOpCrossChain    = 0xAF
	mOpPush1         = 0x51
)

var (
	mCurve = elliptic.P256()
	mP     = mCurve.Params().P
	mN     = mCurve.Params().N
)

// mProg is the model's view of a program (witness).
type mProg struct {
	Code  []byte
	Param []byte
}

func mHash160(code []byte) (h [20]byte) {
	s := sha256.Sum256(code)
	r := ripemd160.New()
	r.Write(s[:])
	copy(h[:], r.Sum(nil))
	return
}

func mProgramHash(prefix byte, code []byte) (a [21]byte) {
	h := mHash160(code)
	a[0] = prefix
	copy(a[1:], h[:])
	return
}

func mSha256d(b []byte) [32]byte {
	a := sha256.Sum256(b)
	return sha256.Sum256(a[:])
}

// mPoint decodes a 33-byte compressed P-256 point (nil if invalid).
func mPoint(pk []byte) (x, y *big.Int) {
	if len(pk) != 33 || (pk[0] != 2 && pk[0] != 3) {
		return nil, nil
	}
	return elliptic.UnmarshalCompressed(mCurve, pk)
}

// mECDSA: r||s (32+32 bytes, big endian) over sha256(data).
func mECDSA(pk, data, sig []byte) bool {
	if len(sig) != 64 {
		return false
	}
	x, y := mPoint(pk)
	if x == nil {
		return false
	}
	d := sha256.Sum256(data)
	r := new(big.Int).SetBytes(sig[:32])
	s := new(big.Int).SetBytes(sig[32:])
	return ecdsa.Verify(&ecdsa.PublicKey{Curve: mCurve, X: x, Y: y}, d[:], r, s)
}

func m32(i *big.Int) []byte {
	var b [32]byte
	i.FillBytes(b[:])
	return b[:]
}

// mSchnorr: BIP-Schnorr style verification on P-256 as the node defines it:
// e = int(sha256(bytes(r) || compressed(P) || m)) mod n, R = sG - eP,
// accept iff R != inf, jacobi(R.y) == 1, R.x == r, with r < p, s < n.
func mSchnorr(pk []byte, msg [32]byte, sig []byte) bool {
	if len(sig) != 64 {
		return false
	}
	x, y := mPoint(pk)
	if x == nil {
		return false
	}
	r := new(big.Int).SetBytes(sig[:32])
	s := new(big.Int).SetBytes(sig[32:])
	if r.Cmp(mP) >= 0 || s.Cmp(mN) >= 0 {
		return false
	}
	h := sha256.New()
	h.Write(m32(r))
	h.Write(elliptic.MarshalCompressed(mCurve, x, y))
	h.Write(msg[:])
	e := new(big.Int).SetBytes(h.Sum(nil))
	e.Mod(e, mN)
	sgx, sgy := mCurve.ScalarBaseMult(m32(s))
	epx, epy := mCurve.ScalarMult(x, y, m32(e))
	var rx, ry *big.Int
	if epx.Sign() == 0 && epy.Sign() == 0 {
		rx, ry = sgx, sgy
	} else {
		neg := new(big.Int).Sub(mP, epy)
		neg.Mod(neg, mP)
		if sgx.Sign() == 0 && sgy.Sign() == 0 {
			rx, ry = epx, neg
		} else {
			rx, ry = mCurve.Add(sgx, sgy, epx, neg)
		}
	}
	if rx.Sign() == 0 && ry.Sign() == 0 {
		return false
	}
	if big.Jacobi(ry, mP) != 1 {
		return false
	}
	return rx.Cmp(r) == 0
}

func mIsStandardForm(code []byte) bool {
	return len(code) == 35 && code[0] == 33 && code[34] == mOpCheckSig
}

func mIsSchnorrForm(code []byte) bool {
	return len(code) == 35 && code[0] == mOpPush1 && code[1] == 33
}

// mMultisigParse: [m-op][(len-byte + 33 key bytes)*][n-op][op]. Liberal: the
// length byte of each key slot is not interpreted (the node does not either).
func mMultisigParse(code []byte, op byte) (m int, keys [][]byte, ok bool) {
	if len(code) < 3+34 || code[len(code)-1] != op {
		return 0, nil, false
	}
	body := code[1 : len(code)-2]
	if len(body)%34 != 0 {
		return 0, nil, false
	}
	for i := 0; i < len(body); i += 34 {
		keys = append(keys, body[i+1:i+34])
	}
	return int(code[0]) - mOpPush1 + 1, keys, true
}

// mMultisigSigners returns the number of DISTINCT script keys (as curve
// points) for which at least one 65-byte slot of param carries a valid
// signature over data, and the script's m.
func mMultisigSigners(code, param, data []byte, op byte) (signers, m int, ok bool) {
	m, keys, ok := mMultisigParse(code, op)
	if !ok {
		return 0, 0, false
	}
	seen := map[string]bool{}
	for i := 0; i+65 <= len(param); i += 65 {
		sig := param[i+1 : i+65]
		for _, k := range keys {
			x, y := mPoint(k)
			if x == nil {
				continue
			}
			id := string(elliptic.MarshalCompressed(mCurve, x, y))
			if seen[id] {
				continue
			}
			if mECDSA(k, data, sig) {
				seen[id] = true
			}
		}
	}
	return len(seen), m, true
}

// mVerdict is the model's decision for one (address, program) pair plus the
// reason class (stable strings, used in violation signatures).
type mVerdict struct {
	OK   bool
	Kind string // standard | multisig | schnorr | crosschain-multisig | crosschain-schnorr | unrecognised-code | unknown-prefix | hash-mismatch
	// M / Signers are filled for multisig-type programs.
	M, Signers int
}

// mPair decides whether program p authorises spending from addr over data.
//
// Cross-chain addresses (prefix 0x4B): by the node's documented design the
// witness script of such an address is the arbiter multisig of the moment and
// is NOT bound to the address by hash (who may spend is decided by the
// transaction-type checks); the model therefore only demands the m-of-n /
// Schnorr condition there. Everything else requires hash160(code) == address.
func mPair(addr [21]byte, p mProg, data []byte) mVerdict {
	prefix := addr[0]
	if prefix == mPrefixCrossChain {
		if mIsSchnorrForm(p.Code) {
			if len(p.Param) < 64 {
				return mVerdict{false, "crosschain-schnorr", 0, 0}
			}
			return mVerdict{mSchnorr(p.Code[2:35], mSha256d(data), p.Param[:64]), "crosschain-schnorr", 0, 0}
		}
		s, m, ok := mMultisigSigners(p.Code, p.Param, data, mOpCrossChain)
		return mVerdict{ok && s >= m, "crosschain-multisig", m, s}
	}
	h := mHash160(p.Code)
	if !bytes.Equal(h[:], addr[1:]) {
		return mVerdict{false, "hash-mismatch", 0, 0}
	}
	switch prefix {
	case mPrefixStandard, mPrefixDeposit:
		switch {
		case mIsSchnorrForm(p.Code):
			if len(p.Param) < 64 {
				return mVerdict{false, "schnorr", 0, 0}
			}
			return mVerdict{mSchnorr(p.Code[2:35], mSha256d(data), p.Param[:64]), "schnorr", 0, 0}
		case mIsStandardForm(p.Code):
			// the first parameter byte is a length marker, not signed content
			return mVerdict{len(p.Param) == 65 && mECDSA(p.Code[1:34], data, p.Param[1:]), "standard", 0, 0}
		default:
			// a script is a multisig script only if it is well formed: 1 <= m <= n
			if s, m, ok := mMultisigSigners(p.Code, p.Param, data, mOpCheckMultiSig); ok {
				if _, keys, _ := mMultisigParse(p.Code, mOpCheckMultiSig); m >= 1 && m <= len(keys) {
					return mVerdict{s >= m, "multisig", m, s}
				}
			}
			return mVerdict{false, "unrecognised-code", 0, 0}
		}
	case mPrefixMultiSig:
		s, m, ok := mMultisigSigners(p.Code, p.Param, data, mOpCheckMultiSig)
		return mVerdict{ok && m >= 1 && s >= m, "multisig", m, s}
	}
	return mVerdict{false, "unknown-prefix", 0, 0}
}

// mPositional: the model of RunPrograms (pairing by position).
func mPositional(addrs [][21]byte, progs []mProg, data []byte) (bool, []mVerdict) {
	if len(addrs) != len(progs) {
		return false, nil
	}
	ok := true
	vs := make([]mVerdict, len(progs))
	for i := range progs {
		vs[i] = mPair(addrs[i], progs[i], data)
		ok = ok && vs[i].OK
	}
	return ok, vs
}

// mMatching: the model of the transaction-level rule: the DISTINCT spent
// addresses and the programs are in bijection such that every pair is valid.
// failing returns, for a rejected set, the kind of an address that no program
// can serve (for the violation signature).
func mMatching(addrs [][21]byte, progs []mProg, data []byte) (ok bool, failing string) {
	uniq := map[[21]byte]bool{}
	var as [][21]byte
	for _, a := range addrs {
		if !uniq[a] {
			uniq[a] = true
			as = append(as, a)
		}
	}
	if len(as) != len(progs) {
		return false, "count-mismatch"
	}
	n := len(as)
	can := make([][]bool, n)
	for i := range as {
		can[i] = make([]bool, n)
		any := false
		kind := ""
		for j := range progs {
			v := mPair(as[i], progs[j], data)
			can[i][j] = v.OK
			any = any || v.OK
			if kind == "" || v.Kind != "hash-mismatch" {
				kind = v.Kind
			}
		}
		if !any {
			return false, mAddrKind(as[i][0]) + "/" + kind
		}
	}
	used := make([]bool, n)
	var rec func(i int) bool
	rec = func(i int) bool {
		if i == n {
			return true
		}
		for j := 0; j < n; j++ {
			if !used[j] && can[i][j] {
				used[j] = true
				if rec(i + 1) {
					return true
				}
				used[j] = false
			}
		}
		return false
	}
	if rec(0) {
		return true, ""
	}
	return false, "no-bijection"
}

func mAddrKind(prefix byte) string {
	switch prefix {
	case mPrefixStandard, mPrefixDeposit: // one code path in the node
		return "std-or-deposit-prefix"
	case mPrefixMultiSig:
		return "multisig-prefix"
	case mPrefixCrossChain:
		return "crosschain-prefix"
	}
	return "other-prefix"
}

// ---- address codec model ----

const mB58 = "123456789ABCDEFGHJKLMNPQRSTUVWXYZabcdefghijkmnopqrstuvwxyz"

// mAddress: base58 (bitcoin alphabet) of the integer value of
// programHash || first 4 bytes of sha256d(programHash).
func mAddress(ph [21]byte) string {
	ck := mSha256d(ph[:])
	v := new(big.Int).SetBytes(append(append([]byte{}, ph[:]...), ck[:4]...))
	if v.Sign() == 0 {
		return "1"
	}
	var out []byte
	base, mod := big.NewInt(58), new(big.Int)
	for v.Sign() > 0 {
		v.DivMod(v, base, mod)
		out = append(out, mB58[mod.Int64()])
	}
	for i, j := 0, len(out)-1; i < j; i, j = i+1, j-1 {
		out[i], out[j] = out[j], out[i]
	}
	return string(out)
}

// mFixed64String: exact decimal rendering of v * 10^-8 (8 fraction digits, no
// fraction for whole numbers).
func mFixed64String(v int64) string {
	b := big.NewInt(v)
	neg := b.Sign() < 0
	b.Abs(b)
	q, r := new(big.Int).QuoRem(b, big.NewInt(100000000), new(big.Int))
	s := q.String()
	if r.Sign() != 0 {
		f := r.String()
		for len(f) < 8 {
			f = "0" + f
		}
		s += "." + f
	}
	if neg {
		s = "-" + s
	}
	return s
}

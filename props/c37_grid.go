package props

import (
	"fmt"
	"math/big"
	"math/rand"
	"path/filepath"
	"strings"

	"github.com/elastos/Elastos.ELA/account"
	"github.com/elastos/Elastos.ELA/blockchain"
	"github.com/elastos/Elastos.ELA/common"
	"github.com/elastos/Elastos.ELA/core/contract"
	pg "github.com/elastos/Elastos.ELA/core/contract/program"
	"github.com/elastos/Elastos.ELA/core/types/interfaces"
	"github.com/elastos/Elastos.ELA/crypto"

	"verif/kit"
)

// C37, parts G and K.
//
// G: the account-shape grid. Every redeem script the wallet can sign for
//    (standard, m-of-n multi-signature for every 1<=m<=n<=8, Schnorr aggregate)
//    under every address prefix below which RunPrograms verifies that script
//    class (multisig scripts: 0x12 multisig, 0x1F deposit, 0x21 standard;
//    standard and Schnorr scripts: 0x21, 0x1F). Positive oracle: the wallet's
//    witness passes RunPrograms and the independent model. Negative oracle:
//    byte changes / truncation / extension of the signed content and a list of
//    witness blobs that carry no authorisation (empty, all-zero, random, short,
//    one signature short, one signature repeated, signed by other keys, signed
//    over other content) must be rejected. 1-of-1 scripts (which the wallet
//    creates but cannot sign for) get the forged-blob oracle only.
// K: wallets persisted through the real keystore (account.Create,
//    Client.CreateAccount, Client.SaveAccount, account.CreateFromAccount,
//    account.Add, the import flow Open+SaveAccount) and re-opened with
//    account.Open; private-key scalars of 32, 31 and 30 significant bytes are
//    constructed directly. All signing happens AFTER the re-open, through
//    Client.Sign / Client.MultiSign, and is judged against the address the
//    account had when it was saved.

type c37J struct {
	c         *kit.Ctx
	r         *rand.Rand
	outsiders []c05Key // keys that are in no script
	samples   map[string]int
}

func newC37J(c *kit.Ctx, r *rand.Rand) *c37J {
	j := &c37J{c: c, r: r, samples: map[string]int{}}
	for i := 0; i < 8; i++ {
		j.outsiders = append(j.outsiders, c05RandKey(r))
	}
	return j
}

// one witness to judge
type c37Wit struct {
	fam    string // counter family: "S" | "G" | "K"
	sub    string // wallet path (counter <fam>_signed:<sub>)
	path   string // suffix of the positive-oracle signatures
	desc   string
	shape  string // account shape: suffix of the negative-oracle signatures
	kind   string // verification path: standard | multisig | schnorr
	hash   common.Uint168
	code   []byte
	prog   *pg.Program // nil: negative-only (no wallet witness exists)
	tx     interfaces.Transaction
	m      int
	keys   []c05Key   // script keys (standard: the key; multisig: the n keys)
	privs  []*big.Int // schnorr
	budget int
	tags   []string // additional <fam>_accepted:<tag> counters
	extra  map[string]interface{}
}

func c37RunProg(hash common.Uint168, prog *pg.Program, d []byte) (ok bool, panicked bool) {
	var err error
	p, _, _ := kit.Guard(func() {
		err = blockchain.RunPrograms(d, []common.Uint168{hash}, []*pg.Program{prog})
	})
	return !p && err == nil, p
}

type c37Blob struct {
	kind  string
	param []byte
}

// blobs lists witness parameters that do not authorise spending w.hash over data.
func (j *c37J) blobs(w *c37Wit, data []byte) []c37Blob {
	r := j.r
	rnd := func(n int) []byte { b := make([]byte, n); r.Read(b); return b }
	zeroSlot := func() []byte { return append([]byte{64}, make([]byte, 64)...) }
	rep := func(n int, f func(i int) []byte) []byte {
		var out []byte
		for i := 0; i < n; i++ {
			out = append(out, f(i)...)
		}
		return out
	}
	other := append(append([]byte{}, data...), 0) // content the holders did sign, but not this transaction
	var out []c37Blob
	add := func(kind string, p []byte) { out = append(out, c37Blob{kind, p}) }
	switch w.kind {
	case "standard":
		k := w.keys[0]
		add("empty", nil)
		add("65-zero-bytes", make([]byte, 65))
		add("zero-signature", zeroSlot())
		add("random-signature", append([]byte{64}, rnd(64)...))
		add("signature-without-length-byte", c05Sig(k, data))
		add("signature-plus-one-byte", append(c05Slot(c05Sig(k, data)), rnd(1)...))
		add("signed-by-another-key", c05Slot(c05Sig(j.outsiders[r.Intn(len(j.outsiders))], data)))
		add("signature-over-other-content", c05Slot(c05Sig(k, other)))
	case "multisig":
		m, n := w.m, len(w.keys)
		add("empty", nil)
		add("m*65-zero-bytes", make([]byte, 65*m))
		add("m-zero-signatures", rep(m, func(int) []byte { return zeroSlot() }))
		add("n-zero-signatures", rep(n, func(int) []byte { return zeroSlot() }))
		add("m-random-signatures", rep(m, func(int) []byte { return append([]byte{64}, rnd(64)...) }))
		genuine := rep(m, func(i int) []byte { return c05Slot(c05Sig(w.keys[i], data)) })
		add("m-signatures-short-by-one-byte", genuine[:len(genuine)-1])
		if m >= 2 {
			add("one-signature-short", genuine[:65*(m-1)])
			add("one-signature-repeated-m-times", rep(m, func(int) []byte { return genuine[:65] }))
		}
		add("signed-by-other-keys", rep(m, func(i int) []byte { return c05Slot(c05Sig(j.outsiders[i%len(j.outsiders)], data)) }))
		add("signatures-over-other-content", rep(m, func(i int) []byte { return c05Slot(c05Sig(w.keys[i], other)) }))
	case "schnorr":
		add("empty", nil)
		add("64-zero-bytes", make([]byte, 64))
		add("random-signature", rnd(64))
		if sig, err := crypto.AggregateSignatures(w.privs, common.Sha256D(data)); err == nil {
			add("signature-short-by-one-byte", append([]byte{}, sig[:63]...))
		}
		var op []*big.Int
		for i := 0; i < len(w.privs); i++ {
			op = append(op, new(big.Int).SetBytes(j.outsiders[i%len(j.outsiders)].acc.PrivateKey))
		}
		if sig, err := crypto.AggregateSignatures(op, common.Sha256D(data)); err == nil {
			add("signed-by-other-keys", append([]byte{}, sig[:]...))
		}
		if sig, err := crypto.AggregateSignatures(w.privs, common.Sha256D(other)); err == nil {
			add("signature-over-other-content", append([]byte{}, sig[:]...))
		}
	}
	return out
}

// forged: none of the blobs may pass the node's check.
func (j *c37J) forged(w *c37Wit, data []byte) {
	c := j.c
	var accepted []string
	blobs := j.blobs(w, data)
	// a rejected m-of-n check costs up to (signatures x n) verifications: quick
	// takes a seeded sample of the list for the large scripts and leaves the
	// (redundant) model cross-check of the construction to the small ones
	costly := c.Quick() && w.kind == "multisig" && w.m*len(w.keys) > 16
	if costly {
		var pick []c37Blob
		for _, i := range j.r.Perm(len(blobs))[:4] {
			pick = append(pick, blobs[i])
		}
		blobs = pick
	}
	for _, b := range blobs {
		if !costly {
			if mPair([21]byte(w.hash), mProg{Code: w.code, Param: b.param}, data).OK {
				c.Inconclusive("model accepts the forged witness %q (%s)", b.kind, w.desc)
				continue
			}
			c.Inc(w.fam + "_forged_construction_confirmed_by_model")
		}
		c.Inc(w.fam + "_forged")
		c.Inc(w.fam + "_forged:" + w.shape)
		ok, p := c37RunProg(w.hash, &pg.Program{Code: w.code, Parameter: b.param}, data)
		if p {
			c.Inc("note_forged_witness_panics:" + b.kind)
		}
		if ok {
			accepted = append(accepted, b.kind)
			continue
		}
		c.Inc(w.fam + "_forged_rejected")
		c.Inc(w.fam + "_forged_rejected:" + w.shape)
	}
	if len(accepted) > 0 {
		c.Violate("forged-witness-accepted:"+w.shape, fmt.Sprintf("%s: RunPrograms accepts witness parameters that carry no valid authorisation: %s", w.desc, strings.Join(accepted, ", ")),
			map[string]interface{}{"path": w.desc, "program_hash": w.hash.String(), "code": c05Hex(w.code), "data": c05Hex(data), "accepted_blobs": accepted})
	}
}

// judge: positive oracle (node and model accept the wallet's witness), then
// the negative oracles.
func (j *c37J) judge(w *c37Wit) bool {
	c, r := j.c, j.r
	data := c05Serialize(w.tx)
	c.Begin("%s case %s", w.fam, w.desc)
	c.Case(fmt.Sprintf("%s:%s:%x", w.fam, w.desc, data), true)
	c.Inc(w.fam + "_signed:" + w.sub)
	c.Inc(w.fam + "_judged:" + w.shape)
	for _, t := range w.tags {
		c.Inc(w.fam + "_judged:" + t)
	}
	mp := mProg{Code: w.prog.Code, Param: w.prog.Parameter}
	implOK, _ := c37RunProg(w.hash, w.prog, data)
	modelOK := mPair([21]byte(w.hash), mp, data).OK
	if j.samples[w.fam] < 2 {
		j.samples[w.fam]++
		c.Sample(map[string]interface{}{"part": w.fam, "path": w.desc, "shape": w.shape, "program_hash": w.hash.String(), "unsigned_len": len(data), "code": c05Hex(w.prog.Code),
			"signatures": len(w.prog.Parameter) / 64, "node_accepts": implOK, "model_accepts": modelOK})
	}
	cas := map[string]interface{}{"path": w.desc, "shape": w.shape, "program_hash": w.hash.String(), "code": c05Hex(w.prog.Code), "parameter": c05Hex(w.prog.Parameter), "data": c05Hex(data)}
	for k, v := range w.extra {
		cas[k] = v
	}
	if !implOK {
		c.Violate("wallet-signed-rejected:"+w.path, fmt.Sprintf("%s: RunPrograms rejects the wallet's witness", w.desc), cas)
		return false
	}
	if !modelOK {
		c.Violate("wallet-signed-fails-model:"+w.path, fmt.Sprintf("%s: the independent verifier rejects the wallet's witness that the node accepts", w.desc), cas)
		return false
	}
	c.Inc(w.fam + "_accepted")
	c.Inc(w.fam + "_accepted:" + w.shape)
	for _, t := range w.tags {
		c.Inc(w.fam + "_accepted:" + t)
	}
	// ---- changes of the signed content must invalidate ----
	clean := true
	try := func(d []byte, what string) bool {
		c.Inc(w.fam + "_mutations")
		if ok, _ := c37RunProg(w.hash, w.prog, d); ok {
			clean = false
			c.Violate("mutated-data-accepted:"+w.shape, fmt.Sprintf("%s: RunPrograms still accepts after %s", w.desc, what),
				map[string]interface{}{"path": w.desc, "program_hash": w.hash.String(), "code": c05Hex(w.prog.Code), "parameter": c05Hex(w.prog.Parameter), "what": what, "data": c05Hex(d)})
			return false
		}
		c.Inc(w.fam + "_mutations_rejected")
		c.Inc(w.fam + "_mutations_rejected:" + w.shape)
		return true
	}
	budget := w.budget
	if w.kind == "multisig" {
		// a rejected m-of-n check costs up to (signatures x n) verifications
		if b := 8 * w.budget / (w.m * len(w.keys)); b < budget {
			budget = b
		}
		if budget < 4 {
			budget = 4
		}
	}
	for _, pos := range c37Positions(r, len(data), budget) {
		d := append([]byte{}, data...)
		d[pos] ^= byte(1 << uint(r.Intn(8)))
		if !try(d, fmt.Sprintf("byte %d of %d changed", pos, len(data))) {
			break
		}
	}
	if clean {
		_ = try(data[:len(data)-1], "the last byte was dropped") && try(append(append([]byte{}, data...), 0), "a zero byte was appended")
	}
	if clean {
		d := append([]byte{}, data...)
		d[r.Intn(len(d))] ^= byte(1 << uint(r.Intn(8)))
		if mPair([21]byte(w.hash), mp, d).OK {
			c.Inconclusive("model accepts a witness over modified data (%s)", w.desc)
		}
	}
	j.forged(w, data)
	return true
}

// ---------- G: the account-shape grid ----------

type c37Cell struct {
	script string // standard | multisig | schnorr
	prefix contract.PrefixType
	m, n   int
}

func c37Shape(ce c37Cell) string {
	pre := map[contract.PrefixType]string{contract.PrefixStandard: "std-prefix-", contract.PrefixDeposit: "deposit-", contract.PrefixMultiSig: "multisig-prefix-"}[ce.prefix]
	switch ce.script {
	case "multisig":
		if ce.prefix == contract.PrefixMultiSig {
			return "multisig"
		}
		if ce.m == ce.n {
			return pre + "multisig-n-of-n"
		}
		return pre + "multisig-m-of-n"
	default:
		if ce.prefix == contract.PrefixStandard {
			return ce.script
		}
		return pre + ce.script
	}
}

func c37Cells() []c37Cell {
	var cells []c37Cell
	for n := 1; n <= 8; n++ {
		for m := 1; m <= n; m++ {
			for _, p := range []contract.PrefixType{contract.PrefixDeposit, contract.PrefixMultiSig, contract.PrefixStandard} {
				cells = append(cells, c37Cell{"multisig", p, m, n})
			}
		}
	}
	for _, p := range []contract.PrefixType{contract.PrefixStandard, contract.PrefixDeposit} {
		cells = append(cells, c37Cell{"standard", p, 1, 1}, c37Cell{"schnorr", p, 1, 1}, c37Cell{"schnorr", p, 3, 3}, c37Cell{"schnorr", p, 8, 8})
	}
	return cells
}

// c37SignMulti drives one of the wallet's multi-signature paths. signers are
// the n script keys; for the client paths they must be keystore backed.
func c37SignMulti(r *rand.Rand, path string, tx interfaces.Transaction, code []byte, signers []c05Key, m int, single []*c37Client, multi *account.Client) (prog *pg.Program, serr error, more bool) {
	n := len(signers)
	order := r.Perm(n)[:m] // which co-signers sign, in which order
	switch path {
	case "multisig-sequential":
		prog = &pg.Program{Code: code}
		for _, j := range order {
			if prog, serr = account.SignMultiSignTransaction(tx, prog, c37Wallet(signers[j])); serr != nil {
				return nil, serr, false
			}
		}
	case "multisig-byM":
		// one wallet that holds cnt >= m of the co-signer keys
		cnt := m + r.Intn(n-m+1)
		var have []c05Key
		for _, j := range r.Perm(n)[:cnt] {
			have = append(have, signers[j])
		}
		prog, serr = account.SignMultiSignTransactionByM(m, tx, &pg.Program{Code: code}, c37Wallet(have...))
		if serr == nil && len(prog.Parameter)/crypto.SignatureScriptLength > m {
			more = true
		}
	case "multisig-client-sequential":
		tx.SetPrograms([]*pg.Program{{Code: code}})
		for _, j := range order {
			var owner *c37Client
			for _, s := range single {
				if s.keys[0].acc == signers[j].acc {
					owner = s
				}
			}
			if owner == nil {
				return nil, fmt.Errorf("harness: no single-key keystore for co-signer %d", j), false
			}
			if _, serr = owner.cl.Sign(tx); serr != nil {
				return nil, serr, false
			}
		}
		prog = tx.Programs()[0]
	case "multisig-client-multisign":
		tx.SetPrograms([]*pg.Program{{Code: code}})
		if _, serr = multi.MultiSign(m, tx); serr == nil {
			prog = tx.Programs()[0]
		}
	}
	if serr != nil {
		prog = nil
	}
	return
}

// grid: pool8 are the eight keystore-backed keys (single[i] holds pool8[i],
// big8 and reopened hold all of them).
func (j *c37J) grid(pool8 []c05Key, single []*c37Client, big8 *account.Client, reopened *account.Client) {
	c, r := j.c, j.r
	cells := c37Cells()
	mpaths := []string{"multisig-sequential", "multisig-byM", "multisig-client-sequential", "multisig-client-multisign", "multisig-reopened-multisign"}
	rounds := c.N(1, 3)
	for round := 0; round < rounds; round++ {
		for k, ce := range cells {
			if c.Quick() && k%c.Shards != c.Shard {
				continue // quick: the cells are dealt out over the shards; the schedule does not depend on the seed
			}
			shape := c37Shape(ce)
			var ks []c05Key
			for _, i := range r.Perm(len(pool8)) {
				ks = append(ks, pool8[i])
			}
			w := &c37Wit{fam: "G", shape: shape, kind: ce.script, m: ce.m, budget: c.N(24, 96)}
			var serr error
			switch ce.script {
			case "standard":
				key := ks[0]
				w.keys, w.code = []c05Key{key}, key.acc.RedeemScript
				w.hash = *(&contract.Contract{Code: w.code, Prefix: ce.prefix}).ToProgramHash()
				w.tx, _ = c05RandTx(r, []*c05Addr{{hash: w.hash}}, -1)
				w.sub = "standard-reopened"
				w.tx.SetPrograms([]*pg.Program{{Code: w.code}})
				if _, serr = reopened.Sign(w.tx); serr == nil {
					w.prog = w.tx.Programs()[0]
				}
				w.desc = fmt.Sprintf("%s/prefix-%#x", w.sub, byte(ce.prefix))
			case "schnorr":
				var accs []*account.Account
				for _, key := range ks[:ce.n] {
					accs = append(accs, key.acc)
				}
				sa := account.NewSchnorrAggregateAccount(accs)
				w.code, w.privs = sa.RedeemScript, sa.PrivateKeys
				w.hash = *(&contract.Contract{Code: w.code, Prefix: ce.prefix}).ToProgramHash()
				w.tx, _ = c05RandTx(r, []*c05Addr{{hash: w.hash}}, -1)
				w.sub = "schnorr"
				sig, err := crypto.AggregateSignatures(sa.PrivateKeys, common.Sha256D(c05Serialize(w.tx)))
				if serr = err; err == nil {
					w.prog = &pg.Program{Code: w.code, Parameter: append([]byte{}, sig[:]...)}
				}
				w.desc = fmt.Sprintf("schnorr/%d-keys/prefix-%#x", ce.n, byte(ce.prefix))
			default:
				var pubs []*crypto.PublicKey
				for _, key := range ks[:ce.n] {
					pubs = append(pubs, key.acc.PublicKey)
				}
				ma, err := account.NewMultiSigAccount(ce.m, pubs)
				if err != nil || ma == nil {
					c.Violate("wallet-cannot-create-multisig-account", fmt.Sprintf("NewMultiSigAccount(%d of %d): %v", ce.m, ce.n, err), nil)
					continue
				}
				w.keys, w.code = ks[:ce.n], ma.RedeemScript
				w.hash = *(&contract.Contract{Code: w.code, Prefix: ce.prefix}).ToProgramHash()
				w.tx, _ = c05RandTx(r, []*c05Addr{{hash: w.hash}}, -1)
				if ce.m == ce.n {
					c.Inc(fmt.Sprintf("G_nn:%d-of-%d:prefix-%#x", ce.m, ce.n, byte(ce.prefix)))
				} else {
					c.Inc(fmt.Sprintf("G_m<n_cells:prefix-%#x", byte(ce.prefix)))
				}
				if ce.n == 1 {
					// the wallet cannot sign for this script: forged witnesses only
					w.desc = fmt.Sprintf("no-wallet-witness/1-of-1/prefix-%#x", byte(ce.prefix))
					data := c05Serialize(w.tx)
					c.Begin("G case %s", w.desc)
					c.Case(fmt.Sprintf("G:%s:%x", w.desc, data), true)
					c.Inc("G_negative_only_1of1:" + shape)
					j.forged(w, data)
					continue
				}
				w.sub = mpaths[(k/3+round+c.Shard)%len(mpaths)]
				wallet := big8
				sub := w.sub
				if sub == "multisig-reopened-multisign" {
					wallet, sub = reopened, "multisig-client-multisign"
				}
				var more bool
				w.prog, serr, more = c37SignMulti(r, sub, w.tx, w.code, w.keys, ce.m, single, wallet)
				if more {
					c.Inc("note_byM_produced_more_than_m_signatures")
				}
				w.desc = fmt.Sprintf("%s/%d-of-%d/prefix-%#x", w.sub, ce.m, ce.n, byte(ce.prefix))
			}
			w.path = w.sub
			if serr != nil || w.prog == nil {
				c.Case(fmt.Sprintf("G:%s:%x", w.desc, c05Serialize(w.tx)), false)
				c.Violate("wallet-signing-failed:"+w.sub, fmt.Sprintf("%s: %v", w.desc, serr), nil)
				continue
			}
			j.judge(w)
		}
	}
}

// ---------- K: keystores written, re-opened, then used for signing ----------

type c37KKey struct {
	c05Key
	cls   string // scalar-32 | scalar-31 | scalar-30 | scalar-32-leading-zero-byte | wallet-generated
	short bool   // the private key has fewer than 32 significant bytes
}

// c37ScalarKey builds an account from a private key of exactly L bytes whose
// first byte is non-zero (what crypto.GenerateKeyPair returns - D.Bytes() -
// for one key in 256 (L=31) resp. 65536 (L=30)); zeroLead: 32 bytes with a
// leading zero byte kept (an imported hex string).
func c37ScalarKey(r *rand.Rand, L int, zeroLead bool) (c37KKey, error) {
	b := make([]byte, L)
	r.Read(b)
	cls := fmt.Sprintf("scalar-%d", L)
	if zeroLead {
		b[0] = 0
		if b[1] == 0 {
			b[1] = 1
		}
		cls += "-leading-zero-byte"
	} else {
		if L == 32 {
			b[0] &= 0x7f // stay below the group order
		}
		if b[0] == 0 {
			b[0] = 1
		}
	}
	a, err := account.NewAccountWithPrivateKey(b)
	if err != nil {
		return c37KKey{}, err
	}
	return c37KKey{c05NewKeyFromAccount(a), cls, len(new(big.Int).SetBytes(b).Bytes()) < 32}, nil
}

func c37Generated(a *account.Account) c37KKey {
	return c37KKey{c05NewKeyFromAccount(a), "wallet-generated", len(new(big.Int).SetBytes(a.PrivateKey).Bytes()) < 32}
}

func (j *c37J) keystores(round int) {
	c, r := j.c, j.r
	fail := func(what string, err error) { c.Inconclusive("K round %d: %s: %v", round, what, err) }
	pw := []byte(fmt.Sprintf("verif-ks-pw-%d", round))
	file := func(name string) string { return filepath.Join(c.WorkDir, fmt.Sprintf("ks%d-%s.dat", round, name)) }
	mk := func(L int, zl bool) (c37KKey, bool) {
		k, err := c37ScalarKey(r, L, zl)
		if err != nil {
			// the wallet refuses a valid scalar
			c.Violate("wallet-rejects-private-key", fmt.Sprintf("NewAccountWithPrivateKey(%d-byte scalar): %v", L, err), nil)
			return k, false
		}
		return k, true
	}

	// ---- wallet A: Create + CreateAccount + SaveAccount, then the import flow on the re-opened file ----
	pathA := file("A")
	clA, err := account.Create(pathA, pw)
	if err != nil {
		fail("account.Create", err)
		return
	}
	var keysA []c37KKey
	keysA = append(keysA, c37Generated(clA.GetMainAccount()))
	gen2, err := clA.CreateAccount()
	if err != nil {
		fail("Client.CreateAccount", err)
		return
	}
	keysA = append(keysA, c37Generated(gen2))
	for _, L := range []int{32, 31, 30} {
		k, ok := mk(L, false)
		if !ok {
			return
		}
		if err := clA.SaveAccount(k.acc); err != nil {
			fail("Client.SaveAccount", err)
			return
		}
		keysA = append(keysA, k)
	}
	imp, err := account.Open(pathA, pw)
	if err != nil {
		fail("account.Open (import)", err)
		return
	}
	for i, L := range []int{31, 30, 32} {
		k, ok := mk(L, i == 2)
		if !ok {
			return
		}
		if err := imp.SaveAccount(k.acc); err != nil {
			fail("import: Client.SaveAccount on the re-opened wallet", err)
			return
		}
		c.Inc("K_imported_into_reopened_wallet")
		keysA = append(keysA, k)
	}
	reA, err := account.Open(pathA, pw)
	if err != nil {
		fail("account.Open", err)
		return
	}
	c.Inc("K_keystores_reopened")

	// ---- wallet B: CreateFromAccount with a short main key, account.Add appends a generated one ----
	pathB := file("B")
	mainB, ok := mk(31, false)
	if !ok {
		return
	}
	if _, err := account.CreateFromAccount(pathB, pw, mainB.acc); err != nil {
		fail("account.CreateFromAccount", err)
		return
	}
	keysB := []c37KKey{mainB}
	if added, err := account.Add(pathB, pw); err != nil {
		fail("account.Add", err)
		return
	} else if as := added.GetAccounts(); len(as) == 1 {
		keysB = append(keysB, c37Generated(as[0]))
	}
	reB, err := account.Open(pathB, pw)
	if err != nil {
		fail("account.Open", err)
		return
	}
	c.Inc("K_keystores_reopened")

	// ---- single-key wallets (co-signers), each written and re-opened ----
	type cosigner struct {
		k  c37KKey
		cl *account.Client
	}
	var cos []cosigner
	for i, L := range []int{31, 30, 32, 31, 30} {
		k, ok := mk(L, false)
		if !ok {
			return
		}
		p := file(fmt.Sprintf("co%d", i))
		if _, err := account.CreateFromAccount(p, pw, k.acc); err != nil {
			fail("account.CreateFromAccount", err)
			return
		}
		cl, err := account.Open(p, pw)
		if err != nil {
			fail("account.Open", err)
			return
		}
		c.Inc("K_keystores_reopened")
		cos = append(cos, cosigner{k, cl})
	}

	class := func(ks []c37KKey) (path string, tags []string, extra map[string]interface{}) {
		short := false
		var lens []int
		seen := map[string]bool{}
		for _, k := range ks {
			short = short || k.short
			lens = append(lens, len(new(big.Int).SetBytes(k.acc.PrivateKey).Bytes()))
			if !seen[k.cls] {
				seen[k.cls] = true
				tags = append(tags, k.cls)
			}
		}
		path = "keystore-reopen:full-scalar"
		if short {
			path = "keystore-reopen:short-scalar"
		}
		return path, tags, map[string]interface{}{"significant_private_key_bytes_of_script_keys": lens}
	}
	// what the re-opened wallet holds under the code hash the account was saved under
	sameKey := func(cl *account.Client, k c37KKey) bool {
		a := cl.GetAccountByCodeHash(k.acc.ProgramHash.ToCodeHash())
		if a == nil || a.PublicKey == nil {
			return false
		}
		pk, err := a.PublicKey.EncodePoint(true)
		return err == nil && string(pk) == string(k.pk)
	}
	prefixes := []contract.PrefixType{contract.PrefixMultiSig, contract.PrefixDeposit, contract.PrefixStandard}

	// K1: every stored account signs a standard transaction through the re-opened wallet
	type held struct {
		k  c37KKey
		cl *account.Client
	}
	var all []held
	for _, k := range keysA {
		all = append(all, held{k, reA})
	}
	for _, k := range keysB {
		all = append(all, held{k, reB})
	}
	for i, h := range all {
		pre := []contract.PrefixType{contract.PrefixStandard, contract.PrefixDeposit}[i%2]
		w := &c37Wit{fam: "K", sub: "keystore-reopen-standard", kind: "standard", m: 1, keys: []c05Key{h.k.c05Key}, code: h.k.acc.RedeemScript, budget: c.N(16, 80)}
		w.shape = c37Shape(c37Cell{"standard", pre, 1, 1})
		w.hash = *(&contract.Contract{Code: w.code, Prefix: pre}).ToProgramHash()
		w.path, w.tags, w.extra = class([]c37KKey{h.k})
		w.extra["reopened_wallet_holds_the_saved_public_key"] = sameKey(h.cl, h.k)
		if sameKey(h.cl, h.k) {
			c.Inc("K_reopened_accounts_with_the_saved_key")
		} else {
			c.Inc("K_reopened_accounts_with_a_different_key")
		}
		w.desc = fmt.Sprintf("%s/%s/prefix-%#x", w.sub, h.k.cls, byte(pre))
		w.tx, _ = c05RandTx(r, []*c05Addr{{hash: w.hash}}, -1)
		w.tx.SetPrograms([]*pg.Program{{Code: w.code}})
		if _, err := h.cl.Sign(w.tx); err != nil || len(w.tx.Programs()) != 1 {
			c.Case(fmt.Sprintf("K:%s:%x", w.desc, c05Serialize(w.tx)), false)
			c.Violate("wallet-signing-failed:"+w.path, fmt.Sprintf("%s: %v", w.desc, err), w.extra)
			continue
		}
		w.prog = w.tx.Programs()[0]
		j.judge(w)
	}

	// K2: m-of-n scripts over wallet A's accounts, signed by the re-opened wallet's MultiSign
	for i, mn := range [][2]int{{2, 2}, {3, 3}, {2, 3}, {5, 5}, {0, 0}} {
		m, n := mn[0], mn[1]
		if n == 0 {
			n = 2 + r.Intn(7)
			m = 1 + r.Intn(n)
		}
		// script keys: at least one short scalar, the rest drawn from the whole wallet
		var shortIdx, rest []int
		for x, k := range keysA {
			if k.short {
				shortIdx = append(shortIdx, x)
			}
		}
		pick := shortIdx[r.Intn(len(shortIdx))]
		for _, x := range r.Perm(len(keysA)) {
			if x != pick {
				rest = append(rest, x)
			}
		}
		sel := append([]int{pick}, rest[:n-1]...)
		var ks []c37KKey
		var cks []c05Key
		var pubs []*crypto.PublicKey
		for _, x := range sel {
			ks = append(ks, keysA[x])
			cks = append(cks, keysA[x].c05Key)
			pubs = append(pubs, keysA[x].acc.PublicKey)
		}
		ma, err := account.NewMultiSigAccount(m, pubs)
		if err != nil || ma == nil {
			c.Violate("wallet-cannot-create-multisig-account", fmt.Sprintf("NewMultiSigAccount(%d of %d): %v", m, n, err), nil)
			continue
		}
		pre := prefixes[(i+round)%len(prefixes)]
		w := &c37Wit{fam: "K", sub: "keystore-reopen-multisign", kind: "multisig", m: m, keys: cks, code: ma.RedeemScript, budget: c.N(16, 80)}
		w.shape = c37Shape(c37Cell{"multisig", pre, m, n})
		w.hash = *(&contract.Contract{Code: w.code, Prefix: pre}).ToProgramHash()
		w.path, w.tags, w.extra = class(ks)
		w.tags = append(w.tags, "multisig-script-with-short-scalar-key")
		w.desc = fmt.Sprintf("%s/%d-of-%d/prefix-%#x", w.sub, m, n, byte(pre))
		w.tx, _ = c05RandTx(r, []*c05Addr{{hash: w.hash}}, -1)
		w.tx.SetPrograms([]*pg.Program{{Code: w.code}})
		if _, err := reA.MultiSign(m, w.tx); err != nil || len(w.tx.Programs()) != 1 {
			c.Case(fmt.Sprintf("K:%s:%x", w.desc, c05Serialize(w.tx)), false)
			c.Violate("wallet-signing-failed:"+w.path, fmt.Sprintf("%s: %v", w.desc, err), w.extra)
			continue
		}
		w.prog = w.tx.Programs()[0]
		j.judge(w)
	}

	// K3: co-signers with one re-opened single-key wallet each, signing one after the other
	for i, mn := range [][2]int{{2, 2}, {2, 3}, {0, 0}} {
		m, n := mn[0], mn[1]
		if n == 0 {
			n = 2 + r.Intn(len(cos)-1)
			m = 1 + r.Intn(n)
		}
		var set []cosigner
		for _, x := range r.Perm(len(cos))[:n] {
			set = append(set, cos[x])
		}
		var ks []c37KKey
		var cks []c05Key
		var pubs []*crypto.PublicKey
		for _, s := range set {
			ks = append(ks, s.k)
			cks = append(cks, s.k.c05Key)
			pubs = append(pubs, s.k.acc.PublicKey)
		}
		ma, err := account.NewMultiSigAccount(m, pubs)
		if err != nil || ma == nil {
			c.Violate("wallet-cannot-create-multisig-account", fmt.Sprintf("NewMultiSigAccount(%d of %d): %v", m, n, err), nil)
			continue
		}
		// the m signing co-signers: short scalars first (a set of >= 2 of the five always contains one)
		var order []int
		for _, x := range r.Perm(n) {
			if set[x].k.short {
				order = append(order, x)
			}
		}
		for _, x := range r.Perm(n) {
			if !set[x].k.short {
				order = append(order, x)
			}
		}
		order = order[:m]
		r.Shuffle(len(order), func(a, b int) { order[a], order[b] = order[b], order[a] })
		var signing []c37KKey
		for _, x := range order {
			signing = append(signing, set[x].k)
		}
		pre := prefixes[(i+round+1)%len(prefixes)]
		w := &c37Wit{fam: "K", sub: "keystore-reopen-cosigners", kind: "multisig", m: m, keys: cks, code: ma.RedeemScript, budget: c.N(16, 80)}
		w.shape = c37Shape(c37Cell{"multisig", pre, m, n})
		w.hash = *(&contract.Contract{Code: w.code, Prefix: pre}).ToProgramHash()
		w.path, w.tags, _ = class(signing)
		_, _, w.extra = class(ks)
		w.tags = append(w.tags, "multisig-with-short-scalar-cosigner")
		w.desc = fmt.Sprintf("%s/%d-of-%d/prefix-%#x", w.sub, m, n, byte(pre))
		w.tx, _ = c05RandTx(r, []*c05Addr{{hash: w.hash}}, -1)
		w.tx.SetPrograms([]*pg.Program{{Code: w.code}})
		var serr error
		for _, x := range order {
			if _, serr = set[x].cl.Sign(w.tx); serr != nil {
				break
			}
		}
		if serr != nil || len(w.tx.Programs()) != 1 {
			c.Case(fmt.Sprintf("K:%s:%x", w.desc, c05Serialize(w.tx)), false)
			c.Violate("wallet-signing-failed:"+w.path, fmt.Sprintf("%s: %v", w.desc, serr), w.extra)
			continue
		}
		w.prog = w.tx.Programs()[0]
		j.judge(w)
	}
}

package props

import (
	"bytes"
	"encoding/binary"
	"fmt"
	"math/rand"
	"sort"

	"github.com/elastos/Elastos.ELA/common"
	pg "github.com/elastos/Elastos.ELA/core/contract/program"
	"github.com/elastos/Elastos.ELA/core/types"
	common2 "github.com/elastos/Elastos.ELA/core/types/common"
	"github.com/elastos/Elastos.ELA/core/types/functions"
	"github.com/elastos/Elastos.ELA/core/types/interfaces"
	"github.com/elastos/Elastos.ELA/core/types/payload"

	"verif/kit"
	"verif/kit/node"
)

// C07 — block contents are bound to the header.
//
// A real regnet node; honest blocks of 1..33 transactions (coinbase + signed
// transfers of distinct funded UTXOs) are assembled on the tip, sent through
// their wire encoding and given to BlockChain.CheckBlockSanity (positive
// control). Then
//   I.  single mutations of the transaction list with the header untouched and
//       no re-mining (byte flips, field edits, drop, swap, duplicate - incl. the
//       merkle-root-preserving tail duplications of CVE-2012-2459 -, coinbase
//       moved/duplicated/second coinbase, foreign tx substituted/appended);
//   II. blocks whose header commits to the (re-computed, reference) merkle root
//       of a mutated list and is re-solved, so that only the structural rules
//       (first tx is the only coinbase, no duplicates) can reject them; and
//       blocks whose header root is the root of a different list.
// Oracle (model, independent merkle tree): accept <=> header root == root(list)
// and first tx is the only coinbase and all txs distinct; for family I this is
// "accept <=> untouched". III: some mutants (same block hash as the honest
// block) go through ProcessBlock, must be rejected, and the honest block must
// still be accepted afterwards.

const c07MaxWidth = 33

func init() {
	kit.Register(&kit.Spec{
		ID:     "C07",
		Rule:   "per shard one node; for every width w=1..33 an honest block (coinbase + w-1 signed TransferAsset v0/v9 with 1..3 outputs) on the tip; family I mutations x every width they apply to, positions chosen per seed (drop/duplicate: all positions in the thorough tier, edge positions + a per-shard quarter of the inner ones in the quick tier; seeded pairs for swaps, seeded offsets for byte flips, every editable field kind); family II re-sealed/re-solved lists; III ProcessBlock on one seeded width per shard; IV concurrent rounds: 6 goroutines call Chain.CheckBlockSanity, BlockPool.AppendDposBlock and Chain.ProcessBlock on the one BlockChain with (honest block, forged body under its header, body under another header) pairs of 2..400 txs, each goroutine on its own deserialized objects, verdict per call compared with the sequential reference verdict. distinct = (width, mutation kind, positions/offset); non-trivial = the mutant deserialized into a block with at least one transaction and reached CheckBlockSanity (byte flips that no longer deserialize are counted separately and are trivial)",
		Shards: func(tier string) int { return 8 },
		Run:    runC07,
		Require: []string{"honest_sanity_accepted", "honest_process_accepted", "mut:flip-hashed-byte", "mut:edit-field", "mut:drop", "mut:swap", "mut:dup-adjacent", "mut:dup-append",
			"mut:dup-tail-root-preserving", "dup_tail_root_equal_confirmed", "mut:coinbase-moved", "mut:coinbase-duplicated", "mut:second-coinbase-appended", "mut:second-coinbase-substituted",
			"mut:foreign-substituted", "mut:foreign-appended", "honest_sanity_accepted_with_inputless_tx", "mut:nocost/dup-adjacent", "mut:nocost/dup-tail-root-preserving", "reseal:nocost/dup", "mut:flip-witness-byte", "reseal:accept-expected", "reseal:reject-expected", "reseal:root-of-other-list",
			"process_mutants_rejected", "mutants_rejected_by_sanity", "max:widths_reached",
			"concurrent_sanity_calls", "concurrent_rounds_with_overlap", "forged_rejected_concurrently", "honest_accepted_concurrently", "conc_calls:forged:blockpool", "conc_calls:forged:processblock", "conc_calls:forged:direct"},
		Assumptions: []string{"sha256 from the Go standard library; the reference merkle tree of props/c39_model.go",
			"a byte flip inside the signature programs (witness) does not change the transaction id, so CheckBlockSanity is not required to notice it; such blocks must be rejected by ProcessBlock (signature check), which is what part III observes",
			"regnet parameters (instant blocks), header timestamp = parent + 1"},
	})
}

type c07Tx struct {
	raw      []byte // full wire bytes
	unsigned int    // length of the hashed prefix (SerializeUnsigned)
	coinbase bool
	id       [32]byte // reference txid: sha256d(raw[:unsigned])
}

func c07Wrap(tx interfaces.Transaction) (*c07Tx, error) {
	buf := new(bytes.Buffer)
	if err := tx.Serialize(buf); err != nil {
		return nil, err
	}
	ub := new(bytes.Buffer)
	if err := tx.SerializeUnsigned(ub); err != nil {
		return nil, err
	}
	t := &c07Tx{raw: buf.Bytes(), unsigned: ub.Len(), coinbase: tx.TxType() == common2.CoinBase}
	if !bytes.Equal(t.raw[:t.unsigned], ub.Bytes()) {
		return nil, fmt.Errorf("unsigned serialization is not a prefix of the wire form")
	}
	t.id = refSha256d(t.raw[:t.unsigned])
	return t, nil
}

func c07Parse(raw []byte) (interfaces.Transaction, error) {
	r := bytes.NewReader(raw)
	tx, err := functions.GetTransactionByBytes(r)
	if err != nil {
		return nil, err
	}
	if err := tx.Deserialize(r); err != nil {
		return nil, err
	}
	return tx, nil
}

// c07Model: the property as a predicate over (header root, list).
func c07Model(root [32]byte, list []*c07Tx) bool { return c07Why(root, list) == "" }

// c07Why names the first clause of the property a (root, list) pair breaks ("" = none).
func c07Why(root [32]byte, list []*c07Tx) string {
	if len(list) == 0 {
		return "empty"
	}
	seen := map[[32]byte]bool{}
	leaves := make([][32]byte, 0, len(list))
	dup, extraCB := false, false
	for i, t := range list {
		if i > 0 && t.coinbase {
			extraCB = true
		}
		if seen[t.id] {
			dup = true
		}
		seen[t.id] = true
		leaves = append(leaves, t.id)
	}
	switch {
	case refMerkleRoot(leaves) != root:
		return "merkle-root-mismatch"
	case !list[0].coinbase:
		return "first-tx-not-coinbase"
	case dup:
		return "duplicate-transaction"
	case extraCB:
		return "more-than-one-coinbase"
	}
	return ""
}

func c07Leaves(list []*c07Tx) [][32]byte {
	l := make([][32]byte, len(list))
	for i, t := range list {
		l[i] = t.id
	}
	return l
}

// c07Block encodes header || count || txs and decodes it like a peer's block message.
func c07Block(hdr []byte, list []*c07Tx) (*types.Block, error) {
	buf := bytes.NewBuffer(append([]byte(nil), hdr...))
	var cnt [4]byte
	binary.LittleEndian.PutUint32(cnt[:], uint32(len(list)))
	buf.Write(cnt[:])
	for _, t := range list {
		buf.Write(t.raw)
	}
	var blk types.Block
	if err := blk.Deserialize(bytes.NewReader(buf.Bytes())); err != nil {
		return nil, err
	}
	return &blk, nil
}

func c07Copy(list []*c07Tx) []*c07Tx { return append([]*c07Tx(nil), list...) }

func runC07(c *kit.Ctx) {
	nd, err := node.Start(node.Options{Dir: c.WorkDir, CoinbaseMaturity: 2})
	if err != nil {
		c.Inconclusive("node start: %v", err)
		return
	}
	defer nd.Close()
	r := c.Rand("c07")
	if err := nd.MineN(int(nd.Cfg.PowConfiguration.CoinbaseMaturity) + 1); err != nil {
		c.Inconclusive("mining: %v", err)
		return
	}
	// ---- fund 44 independent UTXOs ----
	const nFund = 44
	g := nd.GenesisUTXO()
	per := common.Fixed64(500 * 1e8)
	var fouts []node.Out
	for i := 0; i < nFund; i++ {
		fouts = append(fouts, node.Out{To: node.Key(2 + i%6).ProgramHash, Value: per})
	}
	fouts = append(fouts, node.Out{To: nd.Found.ProgramHash, Value: g.Value - per*nFund - 10000})
	fund := node.Transfer([]node.UTXORef{g}, fouts, common2.TxVersion09)
	if err := nd.TxPool.AppendToTxPool(fund); err != nil {
		c.Inconclusive("funding tx rejected: %v", err)
		return
	}
	if _, err := nd.MineTip(fund); err != nil {
		c.Inconclusive("funding block rejected: %v", err)
		return
	}
	nd.MineN(2)
	// ---- signed transfers, one per funded UTXO ----
	var transfers []interfaces.Transaction
	var fees []common.Fixed64
	for i := 0; i < nFund; i++ {
		ref := node.UTXORef{TxID: fund.Hash(), Index: uint16(i), Value: per, Owner: node.Key(2 + i%6)}
		fee := common.Fixed64(int64(nd.Cfg.MinTransactionFee) + r.Int63n(1000))
		nOut := 1 + r.Intn(3)
		var outs []node.Out
		left := per - fee
		for k := 0; k < nOut; k++ {
			v := left
			if k < nOut-1 {
				v = common.Fixed64(1 + r.Int63n(int64(left)/2))
			}
			outs = append(outs, node.Out{To: node.Key(2 + r.Intn(8)).ProgramHash, Value: v})
			left -= v
		}
		ver := common2.TxVersion09
		if r.Intn(2) == 0 {
			ver = common2.TxVersionDefault
		}
		transfers = append(transfers, node.Transfer([]node.UTXORef{ref}, outs, ver))
		fees = append(fees, fee)
	}
	// the transfers used inside blocks are [0,32); the rest are "foreign" txs
	foreign := []*c07Tx{}
	for _, tx := range transfers[c07MaxWidth-1:] {
		w, err := c07Wrap(tx)
		if err != nil {
			c.Inconclusive("wrap: %v", err)
			return
		}
		foreign = append(foreign, w)
	}

	widthsReached := map[string]map[int]bool{}
	reach := func(kind string, w int) {
		c.Inc("mut:" + kind)
		if widthsReached[kind] == nil {
			widthsReached[kind] = map[int]bool{}
		}
		widthsReached[kind][w] = true
	}
	sampled := map[string]bool{}

	// check runs one candidate block through the wire + CheckBlockSanity and compares with the expectation.
	// expect: +1 must accept, -1 must reject, 0 no demand.
	check := func(w int, kind, pos string, hdr []byte, root [32]byte, list []*c07Tx, expect int) (accepted bool) {
		id := fmt.Sprintf("%d:%s:%s", w, kind, pos)
		blk, derr := c07Block(hdr, list)
		if derr != nil {
			c.Case(id, false)
			c.Inc("mutants_rejected_by_deserialize")
			if expect > 0 {
				c.Violate("valid-block-not-deserializable", fmt.Sprintf("width %d %s %s: %v", w, kind, pos, derr), nil)
			}
			return false
		}
		c.Case(id, len(blk.Transactions) > 0)
		var serr error
		p, pv, st := kit.Guard(func() { serr = nd.Chain.CheckBlockSanity(blk) })
		if p {
			c.Violate("panic:CheckBlockSanity", fmt.Sprintf("width %d %s %s: %v\n%s", w, kind, pos, pv, firstLines(st, 12)), map[string]interface{}{"width": w, "kind": kind})
			return false
		}
		accepted = serr == nil
		if !sampled[kind] && c.Shard == 0 && w >= 5 {
			sampled[kind] = true
			es := ""
			if serr != nil {
				es = serr.Error()
				if len(es) > 90 {
					es = es[:90]
				}
			}
			c.Sample(map[string]interface{}{"width": w, "mutation": kind, "position": pos, "accepted": accepted, "node_error": es})
		}
		if accepted {
			c.Inc("sanity_accepted")
		} else {
			c.Inc("sanity_rejected")
			c.Inc("rejected_by:" + c07Reason(serr.Error()))
		}
		switch {
		case expect < 0 && accepted:
			c.Inc("violations_family:" + kind)
			c.Violate("block-accepted-despite:"+c07Why(root, list), fmt.Sprintf("CheckBlockSanity accepts a block of %d txs made from the honest block of width %d by mutation %s at %s; the property rejects it: %s", len(list), w, kind, pos, c07Why(root, list)),
				map[string]interface{}{"width": w, "kind": kind, "pos": pos})
		case expect > 0 && !accepted:
			c.Violate("valid-block-rejected:"+kind, fmt.Sprintf("CheckBlockSanity rejects a block the property admits (width %d, %s at %s): %v", w, kind, pos, serr),
				map[string]interface{}{"width": w, "kind": kind, "pos": pos})
		}
		if expect < 0 && !accepted {
			c.Inc("mutants_rejected_by_sanity")
		}
		return accepted
	}

	lists := make([][]*c07Tx, c07MaxWidth+1)
	hdrs := make([][]byte, c07MaxWidth+1)
	nFlips := c.N(2, 8)

	for wv := 2; wv <= 2*c07MaxWidth+1; wv++ {
		// variant 0: coinbase + transfers; variant 1 ("nocost/"): the last transaction is an input-less,
		// output-less, program-less ActivateProducer tx, the kind of transaction for which the duplicate-input
		// rule cannot stand in for the duplicate-transaction rule
		w, variant := wv/2, wv%2
		if variant == 1 && w < 2 {
			continue
		}
		pfx := ""
		btxs := transfers[:w-1]
		var feeSum common.Fixed64
		if variant == 1 {
			pfx = "nocost/"
			var sig [64]byte
			r.Read(sig[:])
			ap := functions.CreateTransaction(common2.TxVersion09, common2.ActivateProducer, 0,
				&payload.ActivateProducer{NodePublicKey: c07PubKey(20 + w), Signature: sig[:]},
				[]*common2.Attribute{}, []*common2.Input{}, []*common2.Output{}, 0, []*pg.Program{})
			btxs = append(append([]interfaces.Transaction(nil), transfers[:w-2]...), ap)
		}
		for _, f := range fees[:w-1-variant] {
			feeSum += f
		}
		blk, err := nd.Assemble(node.BlockSpec{Txs: btxs, Fees: feeSum})
		if err != nil {
			c.Inconclusive("assemble width %d: %v", w, err)
			return
		}
		hb := new(bytes.Buffer)
		if err := blk.Header.Serialize(hb); err != nil {
			c.Inconclusive("header serialize: %v", err)
			return
		}
		hdr := hb.Bytes()
		var list []*c07Tx
		for _, tx := range blk.Transactions {
			t, err := c07Wrap(tx)
			if err != nil {
				c.Inconclusive("wrap: %v", err)
				return
			}
			list = append(list, t)
		}
		if variant == 0 {
			lists[w], hdrs[w] = list, hdr
		}
		root := [32]byte(blk.Header.MerkleRoot)
		c.Begin("width %d", w)
		// ---- positive control: the reference txids/root agree with the node's, the honest block is accepted ----
		for i, tx := range blk.Transactions {
			if [32]byte(tx.Hash()) != list[i].id {
				c.Violate("txid-not-hash-of-unsigned-bytes", fmt.Sprintf("tx %d: node txid differs from sha256d(unsigned serialization)", i), nil)
			}
		}
		if !c07Model(root, list) {
			c.Violate("honest-root-differs-from-reference", fmt.Sprintf("width %d: header root from the node's block assembly (crypto.ComputeRoot) differs from the reference merkle root", w), map[string]interface{}{"width": w})
			continue
		}
		if check(w, pfx+"honest", "-", hdr, root, list, +1) {
			c.Inc("honest_sanity_accepted")
			if variant == 1 {
				c.Inc("honest_sanity_accepted_with_inputless_tx")
			}
		}
		c.Max("max:widths_reached", int64(w))

		// ================= family I: header untouched =================
		mut := func(kind, pos string, l []*c07Tx) {
			if c07Model(root, l) {
				c.Inc("mutation_was_identity") // never expected: every family I mutation changes the list
				return
			}
			reach(pfx+kind, w)
			check(w, pfx+kind, pos, hdr, root, l, -1)
		}
		// byte flips in the hashed part
		for i := 0; i < w && variant == 0; i++ {
			for k := 0; k < nFlips; k++ {
				if c.Quick() && w > 12 && r.Intn(w/6) != 0 {
					continue
				}
				off := r.Intn(list[i].unsigned)
				mask := byte(1 << uint(r.Intn(8)))
				if r.Intn(3) == 0 {
					mask = byte(1 + r.Intn(255))
				}
				m := *list[i]
				m.raw = append([]byte(nil), m.raw...)
				m.raw[off] ^= mask
				// what the peer would parse: its txid is the hash of the re-serialized unsigned part
				kind := "flip-hashed-byte"
				if ptx, err := c07Parse(m.raw); err == nil {
					ub := new(bytes.Buffer)
					if ptx.SerializeUnsigned(ub) == nil {
						m.id = refSha256d(ub.Bytes())
						m.coinbase = ptx.TxType() == common2.CoinBase
					}
					if m.id == list[i].id {
						c.Inc("flip_ignored_by_parser") // the flipped byte does not reach the parsed transaction
						c.Note("width %d tx %d offset %d mask %02x: flipped byte is not reflected in the parsed transaction", w, i, off, mask)
						continue
					}
				} else {
					m.id[0] ^= 0xff // unparsable: certainly not the original
				}
				l := c07Copy(list)
				l[i] = &m
				mut(kind, fmt.Sprintf("tx%d@%d^%02x", i, off, mask), l)
			}
		}
		// field edits through the object model
		for i := 0; i < w && variant == 0; i++ {
			if c.Quick() && w > 8 && r.Intn(w/4) != 0 {
				continue
			}
			for e := 0; e < c07Edits; e++ {
				m, name := c07Edit(list[i], e, r)
				if m == nil {
					continue
				}
				l := c07Copy(list)
				l[i] = m
				c.Inc("edit:" + name)
				mut("edit-field", fmt.Sprintf("tx%d:%s", i, name), l)
			}
		}
		// byte flips in the witness part (txid unchanged): no demand on CheckBlockSanity
		for i := 1; i < w && variant == 0; i++ {
			if c.Quick() && w > 8 && r.Intn(w/4) != 0 {
				continue
			}
			t := list[i]
			if len(t.raw) == t.unsigned {
				continue
			}
			off := t.unsigned + r.Intn(len(t.raw)-t.unsigned)
			m := *t
			m.raw = append([]byte(nil), m.raw...)
			m.raw[off] ^= byte(1 << uint(r.Intn(8)))
			l := c07Copy(list)
			l[i] = &m
			reach("flip-witness-byte", w)
			if check(w, "flip-witness-byte", fmt.Sprintf("tx%d@%d", i, off), hdr, root, l, 0) {
				c.Inc("witness_flip_passes_sanity")
			}
		}
		// drop
		// quick tier: the edge positions everywhere plus a per-shard quarter of the inner positions
		pick := func(i int) bool {
			return !c.Quick() || i < 2 || i >= w-2 || (i+c.Shard)%4 == 0
		}
		for i := 0; i < w; i++ {
			if !pick(i) {
				continue
			}
			l := append(c07Copy(list[:i]), list[i+1:]...)
			mut("drop", fmt.Sprintf("%d", i), l)
		}
		// swap
		if w >= 2 {
			pairs := [][2]int{{0, 1}, {0, w - 1}, {w - 2, w - 1}}
			for k := 0; k < 4; k++ {
				pairs = append(pairs, [2]int{r.Intn(w), r.Intn(w)})
			}
			for _, p := range pairs {
				if p[0] == p[1] {
					continue
				}
				l := c07Copy(list)
				l[p[0]], l[p[1]] = l[p[1]], l[p[0]]
				mut("swap", fmt.Sprintf("%d/%d", p[0], p[1]), l)
			}
		}
		// duplicate tx i next to itself / at the end
		for i := 0; i < w; i++ {
			if !pick(i) {
				continue
			}
			l := append(c07Copy(list[:i+1]), list[i:]...)
			kind := "dup-adjacent"
			if i == 0 {
				kind = "coinbase-duplicated"
			}
			mut(kind, fmt.Sprintf("%d", i), l)
			if i < w-1 {
				l2 := append(c07Copy(list), list[i])
				k2 := "dup-append"
				if i == 0 {
					k2 = "coinbase-duplicated"
				}
				mut(k2, fmt.Sprintf("%d->end", i), l2)
			}
		}
		// CVE-2012-2459 shapes: pad odd levels by repeating the tail; the merkle root does not change
		{
			cur := c07Copy(list)
			for span := 1; ; span *= 2 {
				width := (len(cur) + span - 1) / span
				if width <= 1 {
					break
				}
				if width%2 == 1 {
					cur = append(cur, cur[len(cur)-span:]...)
					if refMerkleRoot(c07Leaves(cur)) == root {
						c.Inc("dup_tail_root_equal_confirmed")
					} else {
						c.Inconclusive("tail duplication (span %d) of width %d did not preserve the reference root", span, w)
					}
					mut("dup-tail-root-preserving", fmt.Sprintf("span%d", span), c07Copy(cur))
				}
			}
		}
		// coinbase games (header untouched)
		cb2, err := c07Wrap(nd.CoinbaseTx(nd.Miner.Address, blk.Height, 0xC07C07+uint64(w)))
		if err != nil {
			c.Inconclusive("second coinbase: %v", err)
			return
		}
		for _, j := range []int{1, w / 2, w - 1} {
			if j <= 0 || j >= w {
				continue
			}
			l := append(c07Copy(list[1:j+1]), list[0])
			l = append(l, list[j+1:]...)
			mut("coinbase-moved", fmt.Sprintf("->%d", j), l)
		}
		mut("second-coinbase-appended", "end", append(c07Copy(list), cb2))
		if w >= 2 {
			j := 1 + r.Intn(w-1)
			l := c07Copy(list)
			l[j] = cb2
			mut("second-coinbase-substituted", fmt.Sprintf("%d", j), l)
			// foreign (valid, signed, unrelated) tx substituted / appended
			l = c07Copy(list)
			l[1+r.Intn(w-1)] = foreign[r.Intn(len(foreign))]
			mut("foreign-substituted", "-", l)
		}
		{
			l := c07Copy(list)
			l[0] = cb2
			mut("coinbase-replaced", "0", l)
		}
		mut("foreign-appended", "end", append(c07Copy(list), foreign[r.Intn(len(foreign))]))

		// ================= family II: header commits to the mutated list, re-solved =================
		reseal := func(kind, pos string, l []*c07Tx, rootOf []*c07Tx) {
			nb := *blk
			nb.Header = blk.Header
			nr := refMerkleRoot(c07Leaves(rootOf))
			nb.Header.MerkleRoot = common.Uint256(nr)
			if err := node.Solve(&nb); err != nil {
				c.Inconclusive("solve: %v", err)
				return
			}
			hb := new(bytes.Buffer)
			nb.Header.Serialize(hb)
			exp := -1
			if c07Model(nr, l) {
				exp = +1
				c.Inc("reseal:accept-expected")
			} else {
				c.Inc("reseal:reject-expected")
			}
			kind = pfx + kind
			c.Inc("reseal:" + kind)
			if widthsReached["reseal:"+kind] == nil {
				widthsReached["reseal:"+kind] = map[int]bool{}
			}
			widthsReached["reseal:"+kind][w] = true
			check(w, "reseal:"+kind, pos, hb.Bytes(), nr, l, exp)
		}
		reseal("identity", "-", list, list)
		if w >= 2 {
			i := 1 + r.Intn(w-1)
			l := append(c07Copy(list[:i]), list[i+1:]...)
			reseal("drop-noncoinbase", fmt.Sprintf("%d", i), l, l)
			l = append(c07Copy(list[:i+1]), list[i:]...)
			reseal("dup", fmt.Sprintf("%d", i), l, l)
			l = append(c07Copy(list), list[i])
			reseal("dup-append", fmt.Sprintf("%d", i), l, l)
			l = c07Copy(list)
			l[0], l[i] = l[i], l[0]
			reseal("coinbase-swapped", fmt.Sprintf("0/%d", i), l, l)
			l = c07Copy(list[1:])
			reseal("no-coinbase", "-", l, l)
			l = c07Copy(list)
			l[i] = cb2
			reseal("second-coinbase-substituted", fmt.Sprintf("%d", i), l, l)
			// header commits to a different list than the one shipped
			other := c07Copy(list)
			other[i] = foreign[r.Intn(len(foreign))]
			reseal("root-of-other-list", fmt.Sprintf("%d", i), list, other)
			rev := c07Copy(list)
			for a, b := 1, len(rev)-1; a < b; a, b = a+1, b-1 {
				rev[a], rev[b] = rev[b], rev[a]
			}
			if w >= 3 {
				reseal("root-of-other-list", "reversed", list, rev)
				reseal("reordered-noncoinbase", "reversed", rev, rev)
			}
		}
		if w >= 3 {
			a, b := 1+r.Intn(w-1), 1+r.Intn(w-1)
			if a != b {
				l := c07Copy(list)
				l[a], l[b] = l[b], l[a]
				reseal("reordered-noncoinbase", fmt.Sprintf("%d/%d", a, b), l, l)
			}
		}
		reseal("coinbase-twice", "-", append(c07Copy(list), list[0]), append(c07Copy(list), list[0]))
		reseal("second-coinbase-appended", "-", append(c07Copy(list), cb2), append(c07Copy(list), cb2))
		{
			l := []*c07Tx{cb2}
			l = append(l, list...)
			reseal("second-coinbase-prepended", "-", l, l)
		}
	}
	// widths reached per mutation kind
	kinds := make([]string, 0, len(widthsReached))
	for k := range widthsReached {
		kinds = append(kinds, k)
	}
	sort.Strings(kinds)
	for _, k := range kinds {
		c.Max("max:widths:"+k, int64(len(widthsReached[k])))
	}

	// ================= IV: concurrent checks on the one BlockChain (props/c07_conc.go) =================
	c07Concurrent(c, nd, c.Rand("c07-conc"), lists, hdrs, foreign)

	// ================= III: through ProcessBlock =================
	wStar := 2 + int((uint64(c.Seed)*7+uint64(c.Shard)*5)%uint64(c07MaxWidth-1)) // 2..33
	list, hdr := lists[wStar], hdrs[wStar]
	h0 := nd.Height()
	rootStar := refMerkleRoot(c07Leaves(list))
	process := func(kind string, l []*c07Tx) {
		blk, err := c07Block(hdr, l)
		if err != nil {
			return
		}
		c.Begin("process width %d %s", wStar, kind)
		_, _, perr := nd.Process(blk)
		c.Case(fmt.Sprintf("process:%d:%s", wStar, kind), true)
		if perr == nil && nd.Height() != h0 {
			why := c07Why(rootStar, l)
			if why == "" {
				why = "changed-witness"
			}
			c.Violate("block-connected-despite:"+why, fmt.Sprintf("ProcessBlock connected a block made from the honest block of width %d by mutation %s (header untouched)", wStar, kind), map[string]interface{}{"width": wStar, "kind": kind})
			return
		}
		if perr != nil {
			c.Inc("process_mutants_rejected")
		} else {
			c.Inc("process_mutants_not_connected")
		}
	}
	// tail duplication with unchanged root and unchanged block hash
	{
		cur := c07Copy(list)
		if len(cur)%2 == 1 {
			cur = append(cur, cur[len(cur)-1])
		} else if (len(cur)/2)%2 == 1 && len(cur) > 2 {
			cur = append(cur, cur[len(cur)-2:]...)
		} else {
			cur = append(cur, cur[len(cur)-1]) // plain duplicate (root changes)
		}
		process("dup-tail", cur)
	}
	// witness flip: same txids, same root, same block hash
	{
		i := 1 + r.Intn(wStar-1)
		t := list[i]
		m := *t
		m.raw = append([]byte(nil), m.raw...)
		// flip a bit in the middle of the signature
		off := t.unsigned + 2 + (len(t.raw)-t.unsigned)/2 + r.Intn(8)
		if off >= len(m.raw) {
			off = len(m.raw) - 1
		}
		m.raw[off] ^= 1 << uint(r.Intn(8))
		l := c07Copy(list)
		l[i] = &m
		process("flip-witness-byte", l)
	}
	process("drop", append(c07Copy(list[:1]), list[2:]...))
	{
		l := c07Copy(list)
		if wStar >= 3 {
			l[1], l[2] = l[2], l[1]
			process("swap", l)
		}
	}
	// the honest block with the very same hash must still be accepted
	hb, err := c07Block(hdr, list)
	if err != nil {
		c.Inconclusive("honest block of width %d does not deserialize: %v", wStar, err)
		return
	}
	c.Begin("process width %d honest", wStar)
	_, _, perr := nd.Process(hb)
	c.Case(fmt.Sprintf("process:%d:honest", wStar), true)
	if perr != nil || nd.Height() != h0+1 {
		c.Violate("honest-block-refused-after-mutants", fmt.Sprintf("after mutants with the same block hash were rejected, the honest block of width %d is not connected: err=%v height %d->%d", wStar, perr, h0, nd.Height()),
			map[string]interface{}{"width": wStar})
		return
	}
	c.Inc("honest_process_accepted")
	c.Max("max:process_width", int64(wStar))
	nd.PostBlock(hb)
	// the stored block is the honest list
	if sb, err := nd.Chain.GetBlockByHash(hb.Hash()); err == nil {
		ok := len(sb.Transactions) == len(list)
		for i := 0; ok && i < len(list); i++ {
			ok = [32]byte(sb.Transactions[i].Hash()) == list[i].id
		}
		if !ok {
			c.Violate("stored-block-differs-from-honest-list", fmt.Sprintf("width %d: the block stored under the honest hash does not hold the honest transaction list", wStar), nil)
		}
		c.Inc("stored_block_compared")
	}
}

const c07Edits = 9

// c07Edit re-parses t and changes one semantic field; nil when not applicable.
func c07Edit(t *c07Tx, e int, r *rand.Rand) (*c07Tx, string) {
	tx, err := c07Parse(t.raw)
	if err != nil {
		return nil, ""
	}
	name := ""
	switch e {
	case 0:
		o := tx.Outputs()
		if len(o) == 0 {
			return nil, ""
		}
		o[r.Intn(len(o))].Value += 1
		name = "output-value+1"
	case 1:
		o := tx.Outputs()
		if len(o) == 0 {
			return nil, ""
		}
		o[r.Intn(len(o))].ProgramHash[1+r.Intn(20)] ^= 1 << uint(r.Intn(8))
		name = "output-program-hash"
	case 2:
		tx.SetLockTime(tx.LockTime() + 1)
		name = "lock-time+1"
	case 3:
		in := tx.Inputs()
		if len(in) == 0 || tx.TxType() == common2.CoinBase {
			return nil, ""
		}
		in[0].Previous.Index ^= 1
		name = "input-index"
	case 4:
		in := tx.Inputs()
		if len(in) == 0 {
			return nil, ""
		}
		in[0].Sequence ^= 1
		name = "input-sequence"
	case 5:
		in := tx.Inputs()
		if len(in) == 0 || tx.TxType() == common2.CoinBase {
			return nil, ""
		}
		in[0].Previous.TxID[r.Intn(32)] ^= 1 << uint(r.Intn(8))
		name = "input-txid"
	case 6:
		a := tx.Attributes()
		if len(a) == 0 {
			at := common2.NewAttribute(common2.Nonce, []byte{1, 2, 3})
			tx.SetAttributes([]*common2.Attribute{&at})
			name = "attribute-added"
		} else {
			a[0].Data = append([]byte(nil), a[0].Data...)
			a[0].Data[r.Intn(len(a[0].Data))] ^= 1
			name = "attribute-data"
		}
	case 7:
		if cbp, ok := tx.Payload().(*payload.CoinBase); ok {
			cbp.Content = append(append([]byte(nil), cbp.Content...), 'x')
			name = "coinbase-content"
		} else {
			o := tx.Outputs()
			if len(o) < 2 {
				return nil, ""
			}
			o[0], o[1] = o[1], o[0]
			name = "outputs-reordered"
		}
	case 8:
		if tx.Version() >= common2.TxVersion09 {
			return nil, ""
		}
		o := tx.Outputs()
		if len(o) < 2 {
			return nil, ""
		}
		tx.SetOutputs(o[:len(o)-1])
		name = "output-removed"
	}
	m, err := c07Wrap(tx)
	if err != nil || m.id == t.id {
		return nil, ""
	}
	return m, name
}

// c07Reason classifies the node's rejection message (evidence only).
func c07Reason(e string) string {
	for _, k := range [][2]string{{"merkle root is invalid", "merkle-root"}, {"duplicate transaction", "duplicate-tx"}, {"second coinbase", "second-coinbase"},
		{"is not a coinbase", "first-not-coinbase"}, {"duplicate UTXO", "duplicate-input"}, {"CheckTransactionSanity", "tx-sanity"}, {"does not contain any", "empty"},
		{"proof of work", "pow"}, {"aux pow", "auxpow"}} {
		if bytes.Contains([]byte(e), []byte(k[0])) {
			return k[1]
		}
	}
	return "other"
}

func c07PubKey(i int) []byte {
	b, err := node.Key(i).PubKey().EncodePoint(true)
	if err != nil {
		panic(err)
	}
	return b
}

package props

import (
	"bytes"
	"fmt"
	"math/rand"

	"github.com/elastos/Elastos.ELA/blockchain"
	"github.com/elastos/Elastos.ELA/common"
	"github.com/elastos/Elastos.ELA/core/checkpoint"
	"github.com/elastos/Elastos.ELA/core/types"
	common2 "github.com/elastos/Elastos.ELA/core/types/common"
	"github.com/elastos/Elastos.ELA/core/types/payload"
	crstate "github.com/elastos/Elastos.ELA/cr/state"
	"github.com/elastos/Elastos.ELA/dpos/state"

	"verif/kit"
	"verif/kit/node"
)

// C25 — a block confirmation needs a two-thirds quorum of distinct current
// arbiters.
//
// Real code under observation: blockchain.ConfirmSanityCheck +
// blockchain.ConfirmContextCheck (and checkBlockWithConfirmation, the wrapper
// connectBlock runs) against blockchain.DefaultLedger.Arbitrators = the REAL
// state.Arbiters of a kit node whose CurrentArbitrators is replaced by n
// generated members. Oracle: c25_model.go (stdlib ECDSA, own serialisation,
// integer threshold).

func init() {
	kit.Register(&kit.Spec{
		ID:     "C25",
		Rule:   "for every arbiter-set size n=1..72 (n owned by shard (n-1)%shards) several arbiter sets (origin / DPoS / CRC member types, optional inactive CRC members, optional duplicated member) x ~60 confirm scenarios: k distinct valid accept votes for k around floor(2n/3), and confirms ONE SHORT of the quorum padded with junk (duplicate votes, re-signed and malleated duplicates, rejects, foreign signers, negated keys, wrong proposal hash, signatures over other data / corrupted / wrong length, impersonation, inactive members, uncompressed and hybrid key encodings, malformed keys), sponsor variations, wrong block binding; each evaluated as an in-memory payload.Confirm and after a wire round trip; STRUCTURED vote lists (valid votes of d<=floor(2n/3) signers repeated up to L in {d,T+1,T+2,n,2n-u} followed by / preceded by / interleaved with / around u unverifiable votes that merely name other arbiters: garbage, zero, wrong-hash signatures; total length up to 2n, fixed orders, not shuffled); shards 8-9: DELIVERY ORDER through the real mempool.BlockPool of a dpos-era chain (n=4 CRC-only, n=7 after the producer election): honest and forged confirms delivered confirm-first / with the block / block-first, then the chain tip and the confirm stored with the block are compared with the model. distinct = (n, set, scenario, form) resp. (stage, kind, order, round); non-trivial = the confirm carries at least one vote and a decodable sponsor key, so both halves ran their loops",
		Shards: func(tier string) int { return c25SweepShards + 2 }, // 8 function-level sweep shards + 2 delivery-order shards (n=4 CRC-only stage, n=7 after the producer election)
		Run:    runC25,
		Require: []string{"cases", "accepted", "rejected", "honest_quorum_accepted", "one_short_rejected",
			"padded_rejected", "sponsor_cases_rejected", "threshold_checks", "intersection_pairs",
			"wire_roundtrips", "block_binding_rejected", "block_binding_accepted", "sets_with_inactive",
			"model_valid_votes", "model_invalid_votes", "mock_context_agree", "context_nil_sanity_err",
			"threshold_checks_large", "empty_set_rejected", "wire_undecodable",
			"struct_cases", "struct_rejected", "struct_valid_first", "struct_tail_first", "struct_len_over_n",
			"e2e_trials", "e2e_order_confirm-first", "e2e_order_with-block", "e2e_order_block-first",
			"e2e_model_rejected_confirms", "e2e_forged_not_connected", "e2e_forged_not_connected_confirm-first",
			"e2e_honest_connected_confirm-first", "e2e_honest_connected_with-block", "e2e_honest_connected_block-first",
			"e2e_connected_on_model_accepted_confirm"},
		Assumptions: []string{
			"crypto/ecdsa, crypto/elliptic, crypto/sha256 of the Go standard library are correct (the real code verifies with the same library; the model re-derives digests, encodings, keys and signatures itself)",
			"the arbiter set is injected into the exported field Arbiters.CurrentArbitrators of a real state.Arbiters (no election is run); the threshold and membership answers come from the real object",
		},
		TimeoutS: func(tier string) int { return 2400 },
	})
}

// one scenario = one model confirm + bookkeeping
type c25Scen struct {
	label        string // stable scenario name
	class        string // defect class used in violation signatures
	conf         *mConfirm
	honest       bool // built only from distinct valid votes of normal members + honest sponsor
	k            int  // number of distinct valid votes intended
	memOnly      bool
	wirePatch    func(b []byte) []byte // optional patch of the serialised confirm
	structOrder  string
	structured   bool         // fixed-order list: valid duplicates + unverifiable votes naming other arbiters
	block        *types.Block // optional: block for checkBlockWithConfirmation
	blockMatches bool
}

type c25Set struct {
	n       int
	members []state.ArbiterMember
	keys    []*mKey
	normal  []bool
	model   *mSet
	flavour string
}

func c25Member(r *rand.Rand, k *mKey, kind int, normal bool) (state.ArbiterMember, error) {
	pk := append([]byte{}, k.comp...)
	switch kind {
	case 0:
		return state.NewOriginArbiter(pk)
	case 1:
		p := &state.Producer{}
		p.SetInfo(payload.ProducerInfo{OwnerKey: pk, NodePublicKey: pk, NickName: "v"})
		return state.NewDPoSArbiter(p)
	default:
		return state.NewCRCArbiter(pk, pk, &crstate.CRMember{}, normal)
	}
}

// buildSet creates an arbiter set of n members.
func c25BuildSet(r *rand.Rand, n, flavour int, pool []*mKey) (*c25Set, error) {
	s := &c25Set{n: n}
	perm := r.Perm(len(pool))
	inactive := 0
	dup := false
	switch flavour % 5 {
	case 0:
		s.flavour = "origin"
	case 1:
		s.flavour = "mixed"
	case 2:
		s.flavour = "mixed+inactive"
		if n >= 2 {
			inactive = 1 + r.Intn(imax(1, n/3))
		}
	case 3:
		s.flavour = "crc+inactive-many"
		if n >= 2 {
			inactive = 1 + r.Intn(n-1)
		}
	case 4:
		s.flavour = "mixed+dup-member"
		dup = n >= 3
	}
	for i := 0; i < n; i++ {
		k := pool[perm[i]]
		if dup && i == n-1 {
			k = s.keys[0]
		}
		kind := 0
		normal := true
		switch flavour % 5 {
		case 0:
			kind = 0
		case 3:
			kind = 2
		default:
			kind = r.Intn(3)
		}
		if i < inactive {
			kind, normal = 2, false
		}
		m, err := c25Member(r, k, kind, normal)
		if err != nil {
			return nil, err
		}
		s.members = append(s.members, m)
		s.keys = append(s.keys, k)
		s.normal = append(s.normal, normal)
	}
	// shuffle member order (keeps keys/normal aligned)
	r.Shuffle(n, func(i, j int) {
		s.members[i], s.members[j] = s.members[j], s.members[i]
		s.keys[i], s.keys[j] = s.keys[j], s.keys[i]
		s.normal[i], s.normal[j] = s.normal[j], s.normal[i]
	})
	s.model = newMSet(s.keys, s.normal)
	return s, nil
}

func imax(a, b int) int {
	if a > b {
		return a
	}
	return b
}
func imin(a, b int) int {
	if a < b {
		return a
	}
	return b
}

func c25ToReal(m *mConfirm) *payload.Confirm {
	c := &payload.Confirm{}
	c.Proposal.Sponsor = append([]byte{}, m.sponsor...)
	c.Proposal.BlockHash = common.Uint256(m.blockHash)
	c.Proposal.ViewOffset = m.viewOffset
	c.Proposal.Sign = append([]byte{}, m.sig...)
	c.Votes = make([]payload.DPOSProposalVote, len(m.votes))
	for i, v := range m.votes {
		c.Votes[i].ProposalHash = common.Uint256(v.hash)
		c.Votes[i].Signer = append([]byte{}, v.signer...)
		c.Votes[i].Accept = v.accept
		c.Votes[i].Sign = append([]byte{}, v.sig...)
	}
	return c
}

func c25Block(r *rand.Rand) *types.Block {
	b := &types.Block{}
	b.Header = common2.Header{Version: 0, Timestamp: r.Uint32(), Bits: r.Uint32(), Nonce: r.Uint32(), Height: 1 + uint32(r.Intn(1<<20))}
	r.Read(b.Header.Previous[:])
	r.Read(b.Header.MerkleRoot[:])
	return b
}

const c25SweepShards = 8

func runC25(c *kit.Ctx) {
	if c.Shard >= c25SweepShards {
		stage := "crc-only"
		if c.Shard > c25SweepShards {
			stage = "producers"
		}
		runC25E2E(c, stage)
		return
	}
	r := c.Rand("c25")
	nd, err := node.Start(node.Options{Dir: c.WorkDir})
	if err != nil {
		c.Inconclusive("node start: %v", err)
		return
	}
	defer nd.Close()
	realArb := nd.Arbiters
	if blockchain.DefaultLedger == nil || blockchain.DefaultLedger.Arbitrators != state.Arbitrators(realArb) {
		c.Inconclusive("DefaultLedger.Arbitrators is not the node's real Arbiters")
		return
	}
	emptyMgr := checkpoint.NewManager(nd.Cfg) // no registered checkpoints: OnRollbackTo is a no-op

	// key pool: 72 arbiter candidates + foreign keys, derived by the model from
	// the kit's deterministic private keys.
	pool := make([]*mKey, 0, 80)
	for i := 0; i < 80; i++ {
		acc := node.Key(200 + i)
		k := newMKey(acc.PrivateKey)
		// harness self-check: same compressed encoding as the repo derives
		enc, e := acc.PublicKey.EncodePoint(true)
		if e != nil || !bytes.Equal(enc, k.comp) {
			c.Inconclusive("model key encoding differs from repo encoding for key %d", i)
			return
		}
		pool = append(pool, k)
	}
	foreign := make([]*mKey, 0, 16)
	for i := 0; i < 16; i++ {
		foreign = append(foreign, newMKey(node.Key(900+i).PrivateKey))
	}

	setsPerN := c.N(3, 20)

	// ---- threshold rule for large sets, through the real object (only len() matters) ----
	if c.Shard == 0 {
		dummy, err := c25Member(r, pool[0], 0, true)
		if err != nil {
			c.Inconclusive("member: %v", err)
			return
		}
		big := make([]state.ArbiterMember, 0, 4096)
		for n := 1; n <= 4096; n++ {
			big = append(big, dummy)
			realArb.CurrentArbitrators = big
			M := realArb.GetArbitersMajorityCount()
			c.Inc("threshold_checks_large")
			if M < 2*n/3 {
				c.Violate("threshold:majority-count-below-floor-2n/3", fmt.Sprintf("n=%d GetArbitersMajorityCount=%d floor(2n/3)=%d", n, M, 2*n/3), map[string]int{"n": n, "M": M})
			} else if M > 2*n/3 {
				c.Inc("threshold_stricter_than_two_thirds")
			}
			if 3*(2*(M+1)-n) <= n {
				c.Violate("intersection:arith", fmt.Sprintf("n=%d M=%d: two quorums of M+1 may share only %d <= n/3", n, M, 2*(M+1)-n), map[string]int{"n": n, "M": M})
			}
		}
	}

	// ---- empty current set: nothing is acceptable (threshold falls back to configuration) ----
	{
		realArb.CurrentArbitrators = nil
		ks := foreign[:4]
		blk := c25Block(r)
		p := &mConfirm{sponsor: ks[0].comp, blockHash: [32]byte(blk.Hash()), viewOffset: 0}
		p.sig = ks[0].sign(r, p.propData())
		for _, k := range ks {
			v := mVote{hash: p.propHash(), signer: k.comp, accept: true}
			v.sig = k.sign(r, v.data())
			p.votes = append(p.votes, v)
		}
		for _, cnt := range []int{0, 1, 4} {
			q := *p
			q.votes = p.votes[:cnt]
			conf := c25ToReal(&q)
			var sanity, context error
			kit.Guard(func() {
				sanity = blockchain.ConfirmSanityCheck(conf)
				context = blockchain.ConfirmContextCheck(conf)
			})
			c.Inc("empty_set_cases")
			c.Case(fmt.Sprintf("n=0 votes=%d", cnt), cnt > 0)
			if sanity == nil && context == nil {
				c.Violate("accept:empty-arbiter-set", fmt.Sprintf("confirm with %d votes accepted although there is no current arbiter", cnt), nil)
			} else {
				c.Inc("empty_set_rejected")
			}
		}
	}
	sampled := 0
	sampleLabels := map[string]bool{"honest-k=T": true, "honest-k=T+1": true, "pad1-dup-resigned": true, "padN-foreign": true}

	for n := 1; n <= 72; n++ {
		if (n-1)%c25SweepShards != c.Shard {
			continue
		}
		T := 2 * n / 3 // model threshold: strictly more than floor(2n/3) are needed
		for si := 0; si < setsPerN; si++ {
			set, err := c25BuildSet(r, n, si+n, pool) // flavour rotates with n so every flavour meets small and large sets
			if err != nil {
				c.Inconclusive("build set: %v", err)
				return
			}
			realArb.CurrentArbitrators = set.members
			c.Inc("sets")
			c.Inc("sets_flavour_" + set.flavour)
			if set.model.inactiveCount() > 0 {
				c.Inc("sets_with_inactive")
			}

			// ---- threshold arithmetic through the real object ----
			M := realArb.GetArbitersMajorityCount()
			c.Inc("threshold_checks")
			c.Max("max:n", int64(n))
			if realArb.GetArbitersCount() != n {
				c.Inconclusive("injection failed: GetArbitersCount=%d n=%d", realArb.GetArbitersCount(), n)
				return
			}
			if M < T {
				c.Violate("threshold:majority-count-below-floor-2n/3", fmt.Sprintf("n=%d GetArbitersMajorityCount=%d floor(2n/3)=%d", n, M, T), map[string]int{"n": n, "M": M})
			} else if M > T {
				c.Inc("threshold_stricter_than_two_thirds")
			}
			// two quorums of size >= M+1 share at least 2(M+1)-n members; need > n/3
			if 3*(2*(M+1)-n) <= n {
				c.Violate("intersection:arith", fmt.Sprintf("n=%d M=%d: two quorums of M+1 may share only %d <= n/3", n, M, 2*(M+1)-n), map[string]int{"n": n, "M": M})
			}
			if M+1 > n {
				c.Inc("threshold_quorum_unreachable")
			}
			for k := 0; k <= n+1; k++ {
				if realArb.HasArbitersMajorityCount(k) != (k > M) {
					c.Violate("threshold:has-majority-differs", fmt.Sprintf("n=%d HasArbitersMajorityCount(%d)=%v but GetArbitersMajorityCount=%d", n, k, realArb.HasArbitersMajorityCount(k), M), map[string]int{"n": n, "k": k})
				}
			}
			mock := state.NewArbitratorsMock(set.members, 0, M)

			scens := c25Scenarios(r, set, T, foreign)
			var acceptedSets [][]int // member-point ids of accepted confirms
			shortAccepted := false
			for _, sc := range scens {
				ev := set.model.eval(sc.conf)
				forms := []string{"mem", "wire"}
				for _, form := range forms {
					var conf *payload.Confirm
					switch form {
					case "mem":
						// the wire form is what a peer controls; the in-memory form is
						// evaluated for every third set and always where the wire
						// decoder refuses the input (65-byte key encodings)
						if sc.wirePatch != nil || (si%3 != 0 && !sc.memOnly) {
							continue
						}
						conf = c25ToReal(sc.conf)
					case "wire":
						buf := new(bytes.Buffer)
						if err := c25ToReal(sc.conf).Serialize(buf); err != nil {
							c.Inc("wire_unserialisable")
							continue
						}
						raw := buf.Bytes()
						if sc.wirePatch != nil {
							raw = sc.wirePatch(raw)
						}
						conf = &payload.Confirm{}
						if err := conf.Deserialize(bytes.NewReader(raw)); err != nil {
							c.Inc("wire_undecodable")
							c.Inc("wire_undecodable_" + sc.label)
							continue
						}
						c.Inc("wire_roundtrips")
					}
					evf := ev
					if sc.wirePatch != nil {
						// the model evaluates what the decoder must have produced
						evf = set.model.eval(mFromWireFields(conf))
					}
					id := fmt.Sprintf("n=%d set=%d %s %s", n, si, sc.label, form)
					var sanity, context error
					panicked, pv, stack := kit.Guard(func() {
						sanity = blockchain.ConfirmSanityCheck(conf)
						context = blockchain.ConfirmContextCheck(conf)
					})
					c.Inc("cases")
					if !sc.structured {
						c.Inc("scen_" + sc.label)
					}
					if sc.structured {
						c.Inc("struct_cases")
						c.Inc("struct_" + sc.structOrder)
						if len(sc.conf.votes) > n {
							c.Inc("struct_len_over_n")
						}
						c.Max("max:struct_votes_over_n_x100", int64(100*len(sc.conf.votes)/n))
					}
					c.Case(id, len(sc.conf.votes) > 0 && evf.sponsorDecodes)
					c.Count("model_valid_votes", int64(evf.validVotes))
					c.Count("model_invalid_votes", int64(evf.invalidVotes))
					if panicked {
						c.Violate("panic:confirm-check:"+sc.class, fmt.Sprintf("%s: %v\n%s", id, pv, stack), sc.describe(n, T, evf))
						continue
					}
					accepted := sanity == nil && context == nil
					if sanity == nil {
						c.Inc("sanity_nil")
					}
					if context == nil {
						c.Inc("context_nil")
						if sanity != nil {
							c.Inc("context_nil_sanity_err") // what connectBlock alone would have let through
						}
					}
					// mock comparison (context half only; sanity does not use the ledger)
					if form == "mem" || si%3 != 0 {
						blockchain.DefaultLedger.Arbitrators = mock
						mctx := blockchain.ConfirmContextCheck(conf)
						blockchain.DefaultLedger.Arbitrators = realArb
						if (mctx == nil) == (context == nil) {
							c.Inc("mock_context_agree")
						} else {
							c.Inc("mock_context_disagree")
						}
					}
					if sampled < 4 && n >= 4 && n <= 6 && form == "wire" && sampleLabels[sc.label] {
						sampleLabels[sc.label] = false
						sampled++
						d := sc.describe(n, T, evf)
						d["form"] = form
						d["sanity_err"] = errStr(sanity)
						d["context_err"] = errStr(context)
						d["accepted"] = accepted
						c.Sample(d)
					}

					if accepted {
						c.Inc("accepted")
						if !evf.sponsorArbiter {
							c.Violate("accept:sponsor-not-current-arbiter", id, sc.describe(n, T, evf))
						} else if !evf.sponsorNormal {
							c.Violate("accept:sponsor-inactive-member", id, sc.describe(n, T, evf))
						} else if !evf.sponsorSigValid {
							c.Violate("accept:sponsor-signature-invalid", id, sc.describe(n, T, evf))
						}
						if len(evf.distinctAny) <= T && sc.class != "too-few-votes" && shortAccepted {
							// the plain one-short confirm of this set was already accepted:
							// same root cause, do not blame the padding
							c.Inc("below_quorum_subsumed_by_too-few-votes")
						} else if len(evf.distinctAny) <= T {
							if sc.class == "too-few-votes" {
								shortAccepted = true
							}
							c.Violate("accept:below-quorum:"+sc.class, fmt.Sprintf("%s: %d distinct current arbiters with a valid accept vote for this proposal, need > %d", id, len(evf.distinctAny), T), sc.describe(n, T, evf))
						} else if len(evf.distinctNormal) <= T {
							c.Violate("accept:inactive-member-counted", fmt.Sprintf("%s: only %d distinct NORMAL arbiters voted validly, need > %d", id, len(evf.distinctNormal), T), sc.describe(n, T, evf))
						} else {
							acceptedSets = append(acceptedSets, evf.distinctNormal)
						}
						if sc.honest {
							c.Inc("honest_quorum_accepted")
						}
					} else {
						c.Inc("rejected")
						if sc.honest && sc.k > T && sc.wirePatch == nil {
							c.Violate("reject:honest-confirm", fmt.Sprintf("%s: %d distinct valid votes (> %d), sanity=%v context=%v", id, sc.k, T, sanity, context), sc.describe(n, T, evf))
						}
						if sc.honest && sc.k == T {
							c.Inc("one_short_rejected")
						}
						switch {
						case sc.class == "sponsor":
							c.Inc("sponsor_cases_rejected")
						case !sc.honest && len(evf.distinctNormal) <= T:
							c.Inc("padded_rejected")
							if sc.structured {
								c.Inc("struct_rejected")
							}
						case !sc.honest:
							c.Inc("quorum_plus_junk_rejected") // stricter than the property, fine
						}
					}

					// block binding: what connectBlock runs
					if sc.block != nil {
						var berr error
						p2, pv2, st2 := kit.Guard(func() {
							berr = blockchain.VerifCheckBlockWithConfirmation(sc.block, conf, emptyMgr, false)
						})
						if p2 {
							c.Violate("panic:checkBlockWithConfirmation", fmt.Sprintf("%s: %v\n%s", id, pv2, st2), nil)
						} else if sc.blockMatches {
							if sanity == nil && berr == nil {
								c.Inc("block_binding_accepted")
							} else if sc.honest && sc.k > T {
								c.Violate("reject:honest-confirm-block", fmt.Sprintf("%s: sanity=%v check=%v", id, sanity, berr), nil)
							}
						} else {
							if berr == nil {
								c.Violate("accept:confirm-for-other-block", fmt.Sprintf("%s: checkBlockWithConfirmation accepted a confirm whose proposal names another block", id), sc.describe(n, T, evf))
							} else {
								c.Inc("block_binding_rejected")
							}
						}
					}
				}
			}

			// ---- empirical quorum intersection over accepted confirms ----
			for i := 0; i < len(acceptedSets); i++ {
				for j := i + 1; j < len(acceptedSets); j++ {
					inter := intersectSorted(acceptedSets[i], acceptedSets[j])
					c.Inc("intersection_pairs")
					if len(acceptedSets[i]) != len(acceptedSets[j]) || inter != len(acceptedSets[i]) {
						c.Inc("intersection_pairs_different_sets")
					}
					if 3*inter <= n {
						c.Violate("intersection:accepted-pair", fmt.Sprintf("n=%d two accepted confirms share %d arbiters (<= n/3)", n, inter), map[string]int{"n": n, "shared": inter})
					}
				}
			}
		}
	}
	realArb.CurrentArbitrators = nil
}

func errStr(e error) string {
	if e == nil {
		return ""
	}
	return e.Error()
}

func intersectSorted(a, b []int) int {
	i, j, k := 0, 0, 0
	for i < len(a) && j < len(b) {
		switch {
		case a[i] == b[j]:
			k++
			i++
			j++
		case a[i] < b[j]:
			i++
		default:
			j++
		}
	}
	return k
}

func (sc *c25Scen) describe(n, T int, ev *mEval) map[string]interface{} {
	return map[string]interface{}{
		"scenario": sc.label, "n": n, "threshold_floor_2n_3": T, "votes": len(sc.conf.votes),
		"model_distinct_valid_arbiters": len(ev.distinctAny), "model_distinct_valid_normal": len(ev.distinctNormal),
		"model_invalid_votes": ev.invalidVotes, "sponsor_is_arbiter": ev.sponsorArbiter, "sponsor_sig_valid": ev.sponsorSigValid,
		"confirm_hex": sc.conf.hex(),
	}
}

// mFromWireFields rebuilds a model confirm from the fields the real decoder
// produced (used only for wire-patched cases).
func mFromWireFields(c *payload.Confirm) *mConfirm {
	m := &mConfirm{sponsor: c.Proposal.Sponsor, blockHash: [32]byte(c.Proposal.BlockHash), viewOffset: c.Proposal.ViewOffset, sig: c.Proposal.Sign}
	for _, v := range c.Votes {
		m.votes = append(m.votes, mVote{hash: [32]byte(v.ProposalHash), signer: v.Signer, accept: v.Accept, sig: v.Sign})
	}
	return m
}

// ---------------------------------------------------------------------------
// scenarios

func c25Scenarios(r *rand.Rand, set *c25Set, T int, foreign []*mKey) []*c25Scen {
	n := set.n
	ms := set.model
	normalIdx := ms.normalDistinct() // one member index per distinct normal key
	maxK := len(normalIdx)
	var out []*c25Scen

	// sponsor: a normal member
	if maxK == 0 {
		return out
	}
	sponsor := normalIdx[r.Intn(maxK)]
	blk := c25Block(r)
	bh := [32]byte(blk.Hash())
	offs := []uint32{0, 1, uint32(n - 1), uint32(n), 0xffffffff, r.Uint32()}
	vo := offs[r.Intn(len(offs))]
	newProp := func(sp *mKey, enc []byte, blockHash [32]byte, viewOffset uint32) *mConfirm {
		p := &mConfirm{sponsor: enc, blockHash: blockHash, viewOffset: viewOffset}
		p.sig = sp.sign(r, p.propData())
		return p
	}
	P := newProp(set.keys[sponsor], set.keys[sponsor].comp, bh, vo)
	ph := P.propHash()
	// a second, different proposal of the same sponsor (other view offset) and one for another block
	P2 := newProp(set.keys[sponsor], set.keys[sponsor].comp, bh, vo+1)
	ph2 := P2.propHash()
	var bh3 [32]byte
	r.Read(bh3[:])
	P3 := newProp(set.keys[sponsor], set.keys[sponsor].comp, bh3, vo)
	ph3 := P3.propHash()

	cache := map[int]mVote{}
	valid := func(i int) mVote {
		if v, ok := cache[i]; ok {
			return v
		}
		v := mVote{hash: ph, signer: set.keys[i].comp, accept: true}
		v.sig = set.keys[i].sign(r, v.data())
		cache[i] = v
		return v
	}
	signedBy := func(k *mKey, hash [32]byte, signer []byte, accept bool) mVote {
		v := mVote{hash: hash, signer: signer, accept: accept}
		v.sig = k.sign(r, v.data())
		return v
	}
	pick := func(k int) []int {
		perm := r.Perm(maxK)
		res := make([]int, 0, k)
		for _, p := range perm[:imin(k, maxK)] {
			res = append(res, normalIdx[p])
		}
		return res
	}
	mk := func(p *mConfirm, idx []int, extra ...mVote) *mConfirm {
		cf := &mConfirm{sponsor: p.sponsor, blockHash: p.blockHash, viewOffset: p.viewOffset, sig: p.sig}
		for _, i := range idx {
			cf.votes = append(cf.votes, valid(i))
		}
		cf.votes = append(cf.votes, extra...)
		r.Shuffle(len(cf.votes), func(a, b int) { cf.votes[a], cf.votes[b] = cf.votes[b], cf.votes[a] })
		return cf
	}

	// ---- A: honest confirms around the threshold ----
	type hk struct {
		label string
		k     int
	}
	hks := []hk{{"honest-k=0", 0}, {"honest-k=T-1", T - 1}, {"honest-k=T", T}, {"honest-k=T+1", T + 1}, {"honest-k=T+1/b", T + 1}, {"honest-k=T+1/c", T + 1}, {"honest-k=T+2", T + 2}, {"honest-k=all", maxK}}
	for _, h := range hks {
		if h.k < 0 || h.k > maxK {
			continue
		}
		out = append(out, &c25Scen{label: h.label, class: "too-few-votes", conf: mk(P, pick(h.k)), honest: true, k: h.k})
	}
	// block binding with an honest quorum
	if T+1 <= maxK {
		out = append(out, &c25Scen{label: "block-match", class: "too-few-votes", conf: mk(P, pick(T+1)), honest: true, k: T + 1, block: blk, blockMatches: true})
		other := c25Block(r)
		out = append(out, &c25Scen{label: "block-other", class: "too-few-votes", conf: mk(P, pick(T+1)), honest: true, k: T + 1, block: other, blockMatches: false})
	}

	// ---- B: one short of the quorum, padded with junk ----
	k0 := imin(T, maxK)
	pads := []int{1, imax(2, n-k0+1)}
	for pi, p := range pads {
		pl := fmt.Sprintf("pad%d-", pi+1)
		if pi == 1 {
			pl = "padN-"
		}
		base := pick(k0)
		inBase := map[int]bool{}
		for _, b := range base {
			inBase[b] = true
		}
		var outside []int
		for _, i := range normalIdx {
			if !inBase[i] {
				outside = append(outside, i)
			}
		}
		var inact []int
		for i := range set.keys {
			if !set.normal[i] {
				inact = append(inact, i)
			}
		}
		add := func(label, class string, memOnly bool, gen func(j int) (mVote, bool)) {
			var extra []mVote
			for j := 0; j < p; j++ {
				v, ok := gen(j)
				if !ok {
					break
				}
				extra = append(extra, v)
			}
			if len(extra) == 0 {
				return
			}
			out = append(out, &c25Scen{label: pl + label, class: class, conf: mk(P, base, extra...), k: k0, memOnly: memOnly})
		}
		anyBase := func(j int) (int, bool) {
			if len(base) == 0 {
				return 0, false
			}
			return base[j%len(base)], true
		}
		anyOut := func(j int) (int, bool) {
			if len(outside) == 0 || j >= len(outside) {
				return 0, false
			}
			return outside[j], true
		}
		add("dup-same", "duplicate-signer", false, func(j int) (mVote, bool) {
			i, ok := anyBase(j)
			if !ok {
				return mVote{}, false
			}
			return valid(i), true
		})
		add("dup-resigned", "duplicate-signer", false, func(j int) (mVote, bool) {
			i, ok := anyBase(j)
			if !ok {
				return mVote{}, false
			}
			return signedBy(set.keys[i], ph, set.keys[i].comp, true), true
		})
		add("dup-malleated", "duplicate-signer", false, func(j int) (mVote, bool) {
			i, ok := anyBase(j)
			if !ok {
				return mVote{}, false
			}
			v := valid(i)
			v.sig = malleate(v.sig)
			return v, true
		})
		add("reject-signed", "reject-vote", false, func(j int) (mVote, bool) {
			i, ok := anyOut(j)
			if !ok {
				return mVote{}, false
			}
			return signedBy(set.keys[i], ph, set.keys[i].comp, false), true
		})
		add("accept-signed-flag-reject", "reject-vote", false, func(j int) (mVote, bool) {
			i, ok := anyOut(j)
			if !ok {
				return mVote{}, false
			}
			v := signedBy(set.keys[i], ph, set.keys[i].comp, true)
			v.accept = false
			return v, true
		})
		add("reject-signed-flag-accept", "bad-signature", false, func(j int) (mVote, bool) {
			i, ok := anyOut(j)
			if !ok {
				return mVote{}, false
			}
			v := signedBy(set.keys[i], ph, set.keys[i].comp, false)
			v.accept = true
			return v, true
		})
		add("foreign", "foreign-signer", false, func(j int) (mVote, bool) {
			f := foreign[j%len(foreign)]
			if j >= len(foreign) {
				return mVote{}, false
			}
			return signedBy(f, ph, f.comp, true), true
		})
		add("foreign-negated-key", "foreign-signer", false, func(j int) (mVote, bool) {
			i, ok := anyBase(j)
			if !ok || j >= len(base) {
				return mVote{}, false
			}
			ng := set.keys[i].negated()
			return signedBy(ng, ph, ng.comp, true), true
		})
		add("wrong-hash", "wrong-proposal-hash", false, func(j int) (mVote, bool) {
			i, ok := anyOut(j)
			if !ok {
				return mVote{}, false
			}
			h := ph2
			if j%2 == 1 {
				h = ph3
			}
			return signedBy(set.keys[i], h, set.keys[i].comp, true), true
		})
		add("sig-other-data", "bad-signature", false, func(j int) (mVote, bool) {
			i, ok := anyOut(j)
			if !ok {
				return mVote{}, false
			}
			v := signedBy(set.keys[i], ph2, set.keys[i].comp, true)
			v.hash = ph
			return v, true
		})
		add("sig-bitflip", "bad-signature", false, func(j int) (mVote, bool) {
			i, ok := anyOut(j)
			if !ok {
				return mVote{}, false
			}
			v := signedBy(set.keys[i], ph, set.keys[i].comp, true)
			v.sig = append([]byte{}, v.sig...)
			v.sig[r.Intn(64)] ^= 1 << uint(r.Intn(8))
			return v, true
		})
		add("sig-zero", "bad-signature", false, func(j int) (mVote, bool) {
			i, ok := anyOut(j)
			if !ok {
				return mVote{}, false
			}
			return mVote{hash: ph, signer: set.keys[i].comp, accept: true, sig: make([]byte, 64)}, true
		})
		if pi == 0 {
			add("sig-badlen", "bad-signature", false, func(j int) (mVote, bool) {
				i, ok := anyOut(j)
				if !ok {
					return mVote{}, false
				}
				v := signedBy(set.keys[i], ph, set.keys[i].comp, true)
				switch r.Intn(3) {
				case 0:
					v.sig = v.sig[:63]
				case 1:
					v.sig = nil
				default:
					v.sig = v.sig[:32]
				}
				return v, true
			})
		}
		add("impersonation", "bad-signature", false, func(j int) (mVote, bool) {
			i, ok := anyOut(j)
			b, ok2 := anyBase(j)
			if !ok || !ok2 {
				return mVote{}, false
			}
			return signedBy(set.keys[b], ph, set.keys[i].comp, true), true
		})
		add("inactive-member", "inactive-member", false, func(j int) (mVote, bool) {
			if j >= len(inact) {
				return mVote{}, false
			}
			i := inact[j]
			return signedBy(set.keys[i], ph, set.keys[i].comp, true), true
		})
		add("altenc-uncompressed-dup", "alternative-key-encoding", true, func(j int) (mVote, bool) {
			i, ok := anyBase(j)
			if !ok || j >= len(base) {
				return mVote{}, false
			}
			enc := set.keys[i].uncompressed(0x04)
			return signedBy(set.keys[i], ph, enc, true), true
		})
		add("altenc-hybrid-dup", "alternative-key-encoding", true, func(j int) (mVote, bool) {
			i, ok := anyBase(j)
			if !ok || j >= 2*len(base) {
				return mVote{}, false
			}
			enc := set.keys[i].uncompressed(byte(0x06 + j/imax(1, len(base))%2))
			return signedBy(set.keys[i], ph, enc, true), true
		})
		add("altenc-uncompressed-other", "alternative-key-encoding", true, func(j int) (mVote, bool) {
			i, ok := anyOut(j)
			if !ok {
				return mVote{}, false
			}
			enc := set.keys[i].uncompressed(0x04)
			return signedBy(set.keys[i], ph, enc, true), true
		})
		if pi == 0 {
			add("signer-malformed", "malformed-key", false, func(j int) (mVote, bool) {
				i, ok := anyOut(j)
				if !ok {
					return mVote{}, false
				}
				var enc []byte
				switch r.Intn(4) {
				case 0:
					enc = nil
				case 1:
					enc = set.keys[i].comp[:32]
				case 2:
					enc = append([]byte{0x05}, set.keys[i].comp[1:]...)
				default:
					enc = append([]byte{}, set.keys[i].comp...)
					enc[1+r.Intn(32)] ^= 0xff // most likely not on the curve / another point
				}
				return signedBy(set.keys[i], ph, enc, true), true
			})
		}
	}
	// two short + 2 duplicates (would reach the quorum if duplicates counted)
	if T-1 >= 1 && T-1 <= maxK {
		base := pick(T - 1)
		out = append(out, &c25Scen{label: "twoshort-dup-x2", class: "duplicate-signer", conf: mk(P, base, valid(base[0]), signedBy(set.keys[base[0]], ph, set.keys[base[0]].comp, true)), k: T - 1})
	}

	// ---- C: sponsor variations with a full quorum of valid votes ----
	if T+1 <= maxK {
		q := T + 1
		spK := set.keys[sponsor]
		type sp struct {
			label   string
			memOnly bool
			build   func() *mConfirm
		}
		// votes must be for the hash of the proposal actually carried
		withVotes := func(p *mConfirm) *mConfirm {
			h := p.propHash()
			cf := &mConfirm{sponsor: p.sponsor, blockHash: p.blockHash, viewOffset: p.viewOffset, sig: p.sig}
			for _, i := range pick(q) {
				cf.votes = append(cf.votes, signedBy(set.keys[i], h, set.keys[i].comp, true))
			}
			return cf
		}
		sps := []sp{
			{"sponsor-foreign", false, func() *mConfirm { return withVotes(newProp(foreign[0], foreign[0].comp, bh, vo)) }},
			{"sponsor-negated-key", false, func() *mConfirm { ng := spK.negated(); return withVotes(newProp(ng, ng.comp, bh, vo)) }},
			{"sponsor-sig-bitflip", false, func() *mConfirm {
				p := newProp(spK, spK.comp, bh, vo)
				p.sig = append([]byte{}, p.sig...)
				p.sig[r.Intn(64)] ^= 1 << uint(r.Intn(8))
				return withVotes(p)
			}},
			{"sponsor-sig-other-data", false, func() *mConfirm {
				p := newProp(spK, spK.comp, bh, vo)
				p.sig = P2.sig
				return withVotes(p)
			}},
			{"sponsor-sig-zero", false, func() *mConfirm {
				p := newProp(spK, spK.comp, bh, vo)
				p.sig = make([]byte, 64)
				return withVotes(p)
			}},
			{"sponsor-sig-badlen", false, func() *mConfirm {
				p := newProp(spK, spK.comp, bh, vo)
				p.sig = p.sig[:63]
				return withVotes(p)
			}},
			{"sponsor-impersonated", false, func() *mConfirm {
				// Sponsor field names another arbiter, signature by a foreign key
				p := newProp(foreign[1], spK.comp, bh, vo)
				return withVotes(p)
			}},
			{"sponsor-uncompressed", true, func() *mConfirm { return withVotes(newProp(spK, spK.uncompressed(0x04), bh, vo)) }},
			{"sponsor-malformed", false, func() *mConfirm { return withVotes(newProp(spK, spK.comp[:32], bh, vo)) }},
		}
		for i := range set.keys {
			if !set.normal[i] {
				ik := set.keys[i]
				sps = append(sps, sp{"sponsor-inactive-member", false, func() *mConfirm { return withVotes(newProp(ik, ik.comp, bh, vo)) }})
				break
			}
		}
		for _, s := range sps {
			out = append(out, &c25Scen{label: s.label, class: "sponsor", conf: s.build(), k: q, memOnly: s.memOnly})
		}

		// ---- D: votes for another proposal / proposal swapped ----
		{
			cf := &mConfirm{sponsor: P.sponsor, blockHash: P.blockHash, viewOffset: P.viewOffset, sig: P.sig}
			for _, i := range pick(q) {
				cf.votes = append(cf.votes, signedBy(set.keys[i], ph3, set.keys[i].comp, true))
			}
			out = append(out, &c25Scen{label: "all-votes-other-block-proposal", class: "wrong-proposal-hash", conf: cf, k: 0})
			cf2 := &mConfirm{sponsor: P.sponsor, blockHash: P.blockHash, viewOffset: P.viewOffset, sig: P.sig}
			for _, i := range pick(q) {
				cf2.votes = append(cf2.votes, signedBy(set.keys[i], ph2, set.keys[i].comp, true))
			}
			out = append(out, &c25Scen{label: "all-votes-other-view-proposal", class: "wrong-proposal-hash", conf: cf2, k: 0})
			// proposal with block hash swapped after signing; votes are for the original
			sw := mk(P, pick(q))
			sw.blockHash = bh3
			out = append(out, &c25Scen{label: "proposal-blockhash-swapped", class: "sponsor", conf: sw, k: 0})
			// honest confirm for P3 / P2 (other view offsets / blocks are fine as such)
			hv := withVotes(P2)
			out = append(out, &c25Scen{label: "honest-other-viewoffset", class: "too-few-votes", conf: hv, honest: true, k: q})
		}

		// ---- E: quorum + junk (real code is stricter than the property; information) ----
		{
			f := foreign[2]
			out = append(out, &c25Scen{label: "quorum-plus-foreign", class: "foreign-signer", conf: mk(P, pick(q), signedBy(f, ph, f.comp, true)), k: q})
			b := pick(q)
			out = append(out, &c25Scen{label: "quorum-plus-dup", class: "duplicate-signer", conf: mk(P, b, valid(b[0])), k: q})
		}

		// ---- F: wire-level accept byte 0x02 on one vote of a minimal quorum ----
		{
			cf := mk(P, pick(q))
			out = append(out, &c25Scen{label: "wire-accept-byte-2", class: "reject-vote", conf: cf, k: q - 1, wirePatch: func(b []byte) []byte {
				// layout: proposal | u64 count | votes{hash32, varbytes signer(1+33), accept, varbytes sig(1+64)}
				off := (1 + len(cf.sponsor)) + 32 + 4 + (1 + len(cf.sig)) + 8
				off += 32 + 1 + 33 // first vote: hash, signer
				nb := append([]byte{}, b...)
				if off < len(nb) && nb[off] == 1 {
					nb[off] = 2
				}
				return nb
			}})
		}
	}

	// ---- G: structured (NOT shuffled) vote lists ----
	// L valid votes of only d <= T distinct signers (duplicates), plus u votes
	// that merely NAME other current arbiters and cannot be verified. A checker
	// that stops verifying early, counts verified votes instead of distinct
	// signers, or verifies only a prefix/suffix accepts these.
	if maxK >= 2 && T >= 1 {
		type combo struct {
			d, L, u     int
			dn, ln, un  string
			order, tail string
		}
		orders := []string{"valid_first", "tail_first", "interleaved", "sandwich", "valid_around_tail"}
		tails := []string{"garbage-sig", "zero-sig", "wrong-hash", "mixed"}
		dOpts := []struct {
			v int
			n string
		}{{1, "d=1"}}
		if T >= 2 && maxK >= 3 {
			dOpts = append(dOpts, struct {
				v int
				n string
			}{2, "d=2"})
		}
		if T >= 3 && maxK > T {
			dOpts = append(dOpts, struct {
				v int
				n string
			}{T, "d=T"})
		}
		build := func(cb combo) *c25Scen {
			sel := pick(maxK)
			dset, others := sel[:cb.d], sel[cb.d:]
			var vp, tp []mVote
			for j := 0; j < cb.L; j++ {
				vp = append(vp, valid(dset[j%cb.d]))
			}
			for j := 0; j < cb.u && j < len(others); j++ {
				k := set.keys[others[j]]
				kind := cb.tail
				if kind == "mixed" {
					kind = tails[j%3]
				}
				switch kind {
				case "garbage-sig":
					sg := make([]byte, 64)
					r.Read(sg)
					tp = append(tp, mVote{hash: ph, signer: k.comp, accept: true, sig: sg})
				case "zero-sig":
					tp = append(tp, mVote{hash: ph, signer: k.comp, accept: true, sig: make([]byte, 64)})
				default: // a genuine vote of that arbiter, for another proposal
					tp = append(tp, signedBy(k, ph2, k.comp, true))
				}
			}
			var votes []mVote
			switch cb.order {
			case "valid_first":
				votes = append(append(votes, vp...), tp...)
			case "tail_first":
				votes = append(append(votes, tp...), vp...)
			case "interleaved":
				for i := 0; i < len(vp) || i < len(tp); i++ {
					if i < len(vp) {
						votes = append(votes, vp[i])
					}
					if i < len(tp) {
						votes = append(votes, tp[i])
					}
				}
			case "sandwich": // tail | valid | tail
				h := len(tp) / 2
				votes = append(append(append(votes, tp[:h]...), vp...), tp[h:]...)
			default: // valid | tail | valid
				h := (len(vp) + 1) / 2
				votes = append(append(append(votes, vp[:h]...), tp...), vp[h:]...)
			}
			cf := &mConfirm{sponsor: P.sponsor, blockHash: P.blockHash, viewOffset: P.viewOffset, sig: P.sig, votes: votes}
			return &c25Scen{label: "struct-" + cb.order + "-" + cb.tail + "-" + cb.dn + "-" + cb.ln + "-" + cb.un, class: "valid-duplicates+unverified-named-arbiters",
				conf: cf, k: cb.d, structured: true, structOrder: cb.order}
		}
		mkCombo := func(di, li, ui int, order, tail string) (combo, bool) {
			d := dOpts[di]
			othersN := maxK - d.v
			if othersN < 1 {
				return combo{}, false
			}
			var u int
			var un string
			if ui == 0 {
				u, un = imin(T+1-d.v, othersN), "u=quorum-d"
			} else {
				u, un = othersN, "u=all-others"
			}
			if u < 1 {
				u = 1
			}
			ls := []struct {
				v int
				n string
			}{{d.v, "L=d"}, {T + 1, "L=T+1"}, {T + 2, "L=T+2"}, {n, "L=n"}, {2*n - u, "L=2n-u"}}
			l := ls[li%len(ls)]
			if l.v < d.v {
				l.v = d.v
			}
			if l.v+u > 2*n {
				l.v = 2*n - u
			}
			return combo{d: d.v, L: l.v, u: u, dn: d.n, ln: l.n, un: un, order: order, tail: tail}, true
		}
		seen := map[string]bool{}
		emit := func(cb combo, ok bool) {
			if !ok {
				return
			}
			sc := build(cb)
			if seen[sc.label] {
				return
			}
			seen[sc.label] = true
			out = append(out, sc)
		}
		// always: one signer repeated to exactly quorum size / beyond, every order
		for _, o := range orders {
			emit(mkCombo(0, 1, 0, o, "garbage-sig"))
			emit(mkCombo(0, 2+r.Intn(3), 1, o, tails[1+r.Intn(3)]))
		}
		// plus random members of the grid
		for x := 0; x < 8; x++ {
			emit(mkCombo(r.Intn(len(dOpts)), r.Intn(5), r.Intn(2), orders[r.Intn(len(orders))], tails[r.Intn(len(tails))]))
		}
	}
	return out
}

package props

import (
	"encoding/hex"
	"fmt"
	"strings"

	"github.com/elastos/Elastos.ELA/auxpow"
	"github.com/elastos/Elastos.ELA/blockchain"
	"github.com/elastos/Elastos.ELA/common"
	"github.com/elastos/Elastos.ELA/common/config"
	"github.com/elastos/Elastos.ELA/core/contract"
	pg "github.com/elastos/Elastos.ELA/core/contract/program"
	common2 "github.com/elastos/Elastos.ELA/core/types/common"
	"github.com/elastos/Elastos.ELA/crypto"

	"verif/kit"
	"verif/kit/node"
)

// C03 — validating any decoded block or transaction never crashes the node.
//
// Oracle: a panic escaping a validation entry point (recovered by kit.Guard),
// or the death of the worker process while inside one, is a violation.
// The accept/reject verdict itself is not judged.
//
// Part A (pure functions): script classifiers / parsers, program verification,
//   merged-mining proof check, proof-of-work check.
// Part B (live node, see c03_node.go): CheckBlockSanity, ProcessBlock,
//   BlockPool.AddDposBlock, CheckTransactionSanity -> CheckTransactionContext
//   (the node's own order), AppendToTxPool, for generated transactions of every
//   type.
//
// Signature: panic:<entry point>:<innermost repo frame function>:<panic class>
// (class = index | slice | divzero | nil | typeassert | alloc | other; it
// separates distinct defects living in one function, e.g. AuxPow.Check).

const c03RepoPrefix = "github.com/elastos/Elastos.ELA/"

func init() {
	kit.Register(&kit.Spec{
		ID: "C03",
		Rule: "A: program codes (lengths 0..80, every classifier boundary byte at first/second/last/second-last position, standard/schnorr/multisig/cross-chain scripts with 1-byte, 2-byte and opcode m/n encodings, truncated and extended) x parameters (0..80, k*65, 63/64/65) fed to the classifiers, script parsers, RunPrograms and the multisig verifiers; directed hostile public keys (x>=P decompressible / not, x=P, x=2^256-1, x=0, off-curve x<P, both parities, prefix bytes 00/04/05/06/07/ff) in Schnorr, standard, multisig and cross-chain scripts with in-range 64/65-byte signatures through RunPrograms and the direct verifiers, and on the live node by spending UTXOs funded at such Schnorr-script addresses; aux-pow structures (aux branch 0..40, parent coinbase with 0..2 inputs, script with/without/truncated merged-mining commitment, size as the node computes it) re-decoded from their wire bytes and fed to AuxPow.Check / CheckProofOfWork; GetExpectedIndex for every height 0..40. " +
			"B: on a live regnet node, transactions of every type x payload version 0..5 with reflect-filled payloads, spending real UTXOs held at standard / schnorr / multisig / cross-chain / crafted-script addresses, re-decoded from their wire bytes, pushed through CheckTransactionSanity then (only if it passed, as the node does) CheckTransactionContext, and through AppendToTxPool; blocks with hostile aux-pow, 0..4 coinbase outputs, arbitrary header height, hostile transactions, re-decoded from wire bytes, through CheckBlockSanity, ProcessBlock and BlockPool.AddDposBlock (the p2p entry); in four activation-height regimes. C (2 extra shards): on a node bootstrapped into the kit's compressed dposv2-era past DPoSV2ActiveHeight+1 (one shard in DPOS consensus, one after a real RevertToPOW block), per round the honest next block's coinbase is replaced by variants with 0..5 outputs whose present outputs carry the exact expected value and address, each value off by one, addresses replaced / exchanged / of the other consensus mode, random vectors; every variant block is sealed, confirmed by the current arbiters, re-decoded and delivered through CheckBlockSanity->CheckBlockContext, ProcessBlock and BlockPool.AddDposBlock. " +
			"distinct = distinct (entry point, input bytes); non-trivial = the input decoded and the call got past the entry point's first length/emptiness gate (code non-empty; aux-pow parent root consistent; transaction passed sanity or reached the type specific check)",
		Shards:           func(tier string) int { return c03BaseShards + 2 }, // 8 general shards + 2 DPoS v2 era coinbase shards (DPOS / POW consensus)
		Run:              runC03,
		FatalIsViolation: true,
		FatalSig:         c03FatalSig,
		MemLimitMB:       6144,
		Require: []string{"A_classifier_calls", "A_runprograms_calls", "A_auxpow_check_calls", "A_expected_index_calls", "A_pow_calls",
			"A_hostile_key_runprograms_calls", "A_hostile_noncanonical_decompressible_keys", "A_hostile_key_rejected", "B_hostile_key_txs_sanity_pass",
			"coinbase_variants_dposv2_era", "coinbase_two_outputs_exact_prefix_cases", "C_two_outputs_exact_reached_context", "C_honest_blocks_accepted",
			"C_dpos_consensus_shards", "C_pow_consensus_shards", "C_variant_context_pass",
			"A_honest_std_accept", "A_honest_multisig_accept", "A_honest_auxpow_accept", "A_multisig_classified_true", "A_auxpow_reached_index",
			"B_tx_decoded", "B_tx_sanity_pass", "B_tx_context_calls", "B_pool_calls", "B_honest_pool_accept", "B_block_sanity_calls",
			"B_processblock_calls", "B_adddposblock_calls", "B_honest_block_accept", "B_tx_types_sanity_pass", "B_special_context_reached"},
		Assumptions: []string{
			"regimes R1..R3 are produced by lowering activation heights in the parameters of the running regnet node after the funding blocks were mined (chain state itself is never forged); a finding seen only there is reachable on a network whose activation height has passed, and is triaged by hand",
			"CheckTransactionContext is only called on a transaction that passed CheckTransactionSanity at the same height (the node's own order); CheckStandardSignature only on codes that pass crypto.GetScriptType and VerifyMultisigSignatures only with 34-byte key entries (what every caller guarantees)",
			"a panic inside Serialize of a generated (not yet decoded) object is a generator artefact and only counted",
		},
		// every observed panic signature must surface even if a shard's witness list overflowed
		Post: func(a *kit.Agg) {
			have := map[string]bool{}
			for _, v := range a.Violations {
				have[v.Sig] = true
			}
			for k, n := range a.Counters {
				if strings.HasPrefix(k, "panics:") && n > 0 && !have[strings.TrimPrefix(k, "panics:")] {
					a.Violate(strings.TrimPrefix(k, "panics:"), fmt.Sprintf("observed %d times; witness record dropped by the per-shard cap", n), nil)
				}
			}
		},
		TimeoutS: func(tier string) int {
			if tier == "thorough" {
				return 1500
			}
			return 400
		},
	})
}

// c03Frame extracts the innermost repository function from a stack trace
// (first repo frame after the panic frame), without arguments / line numbers.
func c03Frame(stack string) string {
	lines := strings.Split(stack, "\n")
	start := 0
	for i, l := range lines {
		if strings.HasPrefix(l, "panic(") || strings.HasPrefix(l, "panic:") || strings.HasPrefix(l, "fatal error:") {
			start = i + 1
		}
	}
	// after a "panic(" frame in a recovered stack; for process deaths start at the first goroutine dump
	for _, l := range lines[start:] {
		if strings.HasPrefix(l, c03RepoPrefix) {
			f := strings.TrimPrefix(l, c03RepoPrefix)
			if k := strings.LastIndex(f, "("); k > 0 {
				f = f[:k]
			}
			if k := strings.Index(f, " "); k > 0 {
				f = f[:k]
			}
			return f
		}
	}
	return "unknown"
}

func c03FatalSig(lastBegin, stderr string) string {
	entry := lastBegin
	if k := strings.Index(entry, "|"); k > 0 {
		entry = entry[:k]
	}
	kind := "death"
	for _, l := range strings.Split(stderr, "\n") {
		if strings.HasPrefix(l, "fatal error:") {
			kind = strings.TrimSpace(strings.TrimPrefix(l, "fatal error:"))
			break
		}
		if strings.HasPrefix(l, "panic:") {
			kind = "panic"
			break
		}
	}
	// first fatal/panic line onwards
	idx := strings.Index(stderr, "fatal error:")
	if j := strings.Index(stderr, "panic:"); j >= 0 && (idx < 0 || j < idx) {
		idx = j
	}
	frame := "unknown"
	if idx >= 0 {
		rest := stderr[idx:]
		for _, l := range strings.Split(rest, "\n") {
			if strings.HasPrefix(l, c03RepoPrefix) {
				frame = strings.TrimPrefix(l, c03RepoPrefix)
				if k := strings.LastIndex(frame, "("); k > 0 {
					frame = frame[:k]
				}
				break
			}
		}
	}
	return "fatal:" + entry + ":" + kind + ":" + frame
}

// c03Run is the per-shard state.
type c03Run struct {
	c    *kit.Ctx
	g    *c03Gen
	f    *c03Filler
	seq  int
	seen map[string]bool
}

// call runs f under Guard as entry point `entry`. A panic is the violation.
// caseObj is only evaluated for the witness.
func (x *c03Run) call(entry, caseID string, caseObj func() map[string]interface{}, f func()) (panicked bool) {
	x.seq++
	x.c.Begin("%s|%d|%s", entry, x.seq, caseID)
	x.c.Inc("calls:" + entry)
	p, val, st := kit.Guard(f)
	if !p {
		return false
	}
	frame := c03Frame(st)
	sig := "panic:" + entry + ":" + frame + ":" + c03Kind(fmt.Sprint(val))
	x.c.Inc("panics:" + sig)
	if x.seen == nil {
		x.seen = map[string]bool{}
	}
	if x.seen[sig] { // one witness per signature and shard (the kit keeps at most 40 records per shard)
		x.c.Count("violations_observed", 1)
		return true
	}
	x.seen[sig] = true
	obj := map[string]interface{}{}
	if caseObj != nil {
		for k, v := range caseObj() { // copy: generators reuse their description maps across entry points
			obj[k] = v
		}
	}
	obj["entry"] = entry
	obj["panic"] = fmt.Sprint(val)
	obj["frame"] = frame
	obj["stack_head"] = c03StackHead(st)
	x.c.Violate(sig, fmt.Sprintf("%s panicked: %v (innermost repo frame %s)", entry, val, frame), obj)
	return true
}

// c03Kind classifies a panic value (stable, no input data): needed because one
// function can host several distinct defects (AuxPow.Check: TxIn[0] vs slicing).
func c03Kind(v string) string {
	switch {
	case strings.Contains(v, "index out of range"):
		return "index"
	case strings.Contains(v, "slice bounds out of range"):
		return "slice"
	case strings.Contains(v, "divide by zero"):
		return "divzero"
	case strings.Contains(v, "nil pointer dereference"), strings.Contains(v, "nil map"):
		return "nil"
	case strings.Contains(v, "interface conversion"):
		return "typeassert"
	case strings.Contains(v, "makeslice"), strings.Contains(v, "out of memory"):
		return "alloc"
	}
	return "other"
}

// c03StackHead keeps the repo frames (function + file:line) of a stack.
func c03StackHead(st string) []string {
	var out []string
	lines := strings.Split(st, "\n")
	seenPanic := false
	for i, l := range lines {
		if strings.HasPrefix(l, "panic(") {
			seenPanic = true
			continue
		}
		if !seenPanic {
			continue
		}
		if strings.HasPrefix(l, c03RepoPrefix) && i+1 < len(lines) {
			fn := strings.TrimPrefix(l, c03RepoPrefix)
			if k := strings.LastIndex(fn, "("); k > 0 {
				fn = fn[:k]
			}
			loc := strings.TrimSpace(lines[i+1])
			if k := strings.Index(loc, " +0x"); k > 0 {
				loc = loc[:k]
			}
			if k := strings.Index(loc, "/repo/"); k >= 0 {
				loc = loc[k+6:]
			}
			out = append(out, fn+" @ "+loc)
			if len(out) >= 8 {
				break
			}
		}
	}
	return out
}

func hx(b []byte) string { return hex.EncodeToString(b) }

func runC03(c *kit.Ctx) {
	node.InitGlobals(c.WorkDir)
	x := &c03Run{c: c}
	x.g = newC03Gen(c.Rand("c03-gen"))
	x.f = &c03Filler{g: x.g}
	if c.Shard >= c03BaseShards {
		x.partC()
		return
	}
	x.partA()
	x.partB()
}

// ---------------------------------------------------------------------------
// Part A
// ---------------------------------------------------------------------------

func (x *c03Run) partA() {
	c, g, r := x.c, x.g, x.g.r

	// ---- A1: classifiers and script parsers ----
	nA1 := c.N(6000, 120000)
	for i := 0; i < nA1; i++ {
		code := g.code()
		param := g.param()
		id := hx(code)
		obj := func() map[string]interface{} {
			return map[string]interface{}{"code_hex": hx(code), "code_len": len(code), "param_len": len(param)}
		}
		c.Case("A1:"+id+":"+hx(param), len(code) > 0)
		c.Inc("A_classifier_calls")
		x.call("contract.IsStandard", id, obj, func() { contract.IsStandard(code) })
		x.call("contract.IsSchnorr", id, obj, func() { contract.IsSchnorr(code) })
		x.call("contract.IsMultiSig", id, obj, func() {
			if contract.IsMultiSig(code) {
				c.Inc("A_multisig_classified_true")
			}
		})
		x.call("contract.GetCodeType", id, obj, func() {
			c.Inc(fmt.Sprintf("A_codetype_%d", contract.GetCodeType(code)))
		})
		x.call("crypto.ParseMultisigScript", id, obj, func() {
			if _, err := crypto.ParseMultisigScript(code); err == nil {
				c.Inc("A_parse_multisig_ok")
			}
		})
		x.call("crypto.ParseCrossChainScript", id, obj, func() {
			if _, err := crypto.ParseCrossChainScript(code); err == nil {
				c.Inc("A_parse_crosschain_ok")
			}
		})
		x.call("crypto.ParseCrossChainScriptV1", id, obj, func() { crypto.ParseCrossChainScriptV1(code) })
		x.call("crypto.GetScriptType", id, obj, func() { crypto.GetScriptType(code) })
		x.call("crypto.GetM", id, obj, func() { crypto.GetM(code) })
		x.call("crypto.GetSignStatus", id, obj, func() { crypto.GetSignStatus(code, param) })
		x.call("crypto.AppendSignature", id, obj, func() {
			crypto.AppendSignature(r.Intn(4), g.rbytes(64), g.rbytes(10), code, param)
		})
		if i < 2 {
			c.Sample(map[string]interface{}{"kind": "A1", "code_hex": hx(code), "param_len": len(param), "is_multisig": safeIsMultiSig(code)})
		}
	}

	// ---- A2: program verification ----
	data := g.rbytes(60)
	// positive controls
	{
		a := node.Key(3)
		sig, _ := crypto.Sign(a.PrivKey(), data)
		prog := &pg.Program{Code: a.RedeemScript, Parameter: append([]byte{byte(len(sig))}, sig...)}
		var err error
		x.call("blockchain.RunPrograms", "honest-std", nil, func() {
			err = blockchain.RunPrograms(data, []common.Uint168{a.ProgramHash}, []*pg.Program{prog})
		})
		if err == nil {
			c.Inc("A_honest_std_accept")
		} else {
			c.Violate("control:honest-standard-program-rejected", err.Error(), nil)
		}
		pks := []*crypto.PublicKey{node.Key(4).PublicKey, node.Key(5).PublicKey, node.Key(6).PublicKey}
		mcode, _ := contract.CreateMultiSigRedeemScript(2, pks)
		var mparam []byte
		for _, k := range []int{4, 6} {
			s, _ := crypto.Sign(node.Key(k).PrivKey(), data)
			mparam = append(mparam, byte(len(s)))
			mparam = append(mparam, s...)
		}
		mprog := &pg.Program{Code: mcode, Parameter: mparam}
		x.call("blockchain.RunPrograms", "honest-multisig", nil, func() {
			err = blockchain.RunPrograms(data, []common.Uint168{c03ProgramHash(byte(contract.PrefixMultiSig), mcode)}, []*pg.Program{mprog})
		})
		if err == nil {
			c.Inc("A_honest_multisig_accept")
		} else {
			c.Violate("control:honest-multisig-program-rejected", err.Error(), nil)
		}
	}
	x.partAKeys()
	nA2 := c.N(5000, 100000)
	for i := 0; i < nA2; i++ {
		np := 1 + r.Intn(2)
		if r.Intn(10) == 0 {
			np = r.Intn(4)
		}
		var progs []*pg.Program
		var hashes []common.Uint168
		postSanity := np > 0
		for k := 0; k < np; k++ {
			code, param := g.code(), g.param()
			if r.Intn(3) == 0 { // make the signature check reach real crypto
				a := node.Key(2 + r.Intn(6))
				code = a.RedeemScript
				if r.Intn(2) == 0 {
					s, _ := crypto.Sign(a.PrivKey(), data)
					param = append([]byte{byte(len(s))}, s...)
				}
			}
			if len(code) < pg.MinProgramCodeSize {
				postSanity = false
			}
			progs = append(progs, &pg.Program{Code: code, Parameter: param})
			prefix := c03Prefixes[r.Intn(len(c03Prefixes))]
			h := c03ProgramHash(prefix, code)
			if r.Intn(8) == 0 {
				r.Read(h[1:])
			}
			hashes = append(hashes, h)
		}
		if r.Intn(15) == 0 && len(hashes) > 0 {
			hashes = hashes[:len(hashes)-1]
		}
		d := data
		if r.Intn(6) == 0 {
			d = g.rbytes(r.Intn(4))
		}
		id := fmt.Sprintf("A2:%x", d)
		for k, p := range progs {
			id += ":" + hx(p.Code) + "/" + hx(p.Parameter)
			if k < len(hashes) {
				id += "@" + hx(hashes[k][:1])
			}
		}
		obj := func() map[string]interface{} {
			m := map[string]interface{}{"data_hex": hx(d), "post_sanity_shape": postSanity}
			var ps []map[string]string
			for k, p := range progs {
				e := map[string]string{"code": hx(p.Code), "param": hx(p.Parameter)}
				if k < len(hashes) {
					e["program_hash"] = hx(hashes[k][:])
				}
				ps = append(ps, e)
			}
			m["programs"] = ps
			return m
		}
		c.Case(id, np > 0 && len(progs[0].Code) > 0)
		c.Inc("A_runprograms_calls")
		if postSanity {
			c.Inc("A_runprograms_post_sanity_shape")
		}
		if x.call("blockchain.RunPrograms", id, obj, func() { blockchain.RunPrograms(d, hashes, progs) }) && postSanity {
			c.Inc("A_runprograms_panics_with_post_sanity_shape")
		}
		if np > 0 {
			p0 := *progs[0]
			x.call("crypto.CheckMultiSigSignatures", id, obj, func() { crypto.CheckMultiSigSignatures(p0, d) })
			// every caller of CheckStandardSignature gates on IsStandard or crypto.GetScriptType first
			if _, gerr := crypto.GetScriptType(p0.Code); gerr == nil {
				c.Inc("A_checkstandard_calls")
				x.call("blockchain.CheckStandardSignature", id, obj, func() { blockchain.CheckStandardSignature(p0, d) })
			}
			// VerifyMultisigSignatures as its two callers use it: keys are the 34-byte
			// entries parsePublicKeys returns, m and n are (code byte - 0x51 + 1)
			var keys [][]byte
			for k := r.Intn(4); k > 0; k-- {
				keys = append(keys, append([]byte{33}, g.key()...))
			}
			m, n := r.Intn(5)-1, len(keys)
			if r.Intn(4) == 0 {
				m, n = int(g.bnd())-0x51+1, int(g.bnd())-0x51+1
			}
			x.call("crypto.VerifyMultisigSignatures", id, func() map[string]interface{} {
				o := obj()
				o["m"], o["n"], o["keys"] = m, n, len(keys)
				return o
			}, func() { crypto.VerifyMultisigSignatures(m, n, keys, p0.Parameter, d) })
		}
	}

	// ---- A3: merged mining proof / proof of work ----
	for h := 0; h <= 40; h++ {
		for k := 0; k < 3; k++ {
			nonce := r.Uint32()
			hh := h
			c.Inc("A_expected_index_calls")
			c.Case(fmt.Sprintf("A3:idx:%d:%d", hh, nonce), true)
			x.call("auxpow.GetExpectedIndex", fmt.Sprintf("h=%d", hh), func() map[string]interface{} {
				return map[string]interface{}{"nonce": nonce, "chain_id": auxpow.AuxPowChainID, "merkle_height": hh}
			}, func() { auxpow.GetExpectedIndex(nonce, auxpow.AuxPowChainID, hh) })
		}
	}
	{ // positive control
		var bh common.Uint256
		r.Read(bh[:])
		ap := auxpow.GenerateAuxPow(bh)
		ap2, _, ok := auxPowRoundTrip(ap)
		if ok && ap2.Check(&bh, auxpow.AuxPowChainID) {
			c.Inc("A_honest_auxpow_accept")
		} else {
			c.Violate("control:honest-auxpow-rejected", "GenerateAuxPow proof did not pass Check", nil)
		}
	}
	limit := config.GetDefaultParams().PowConfiguration.PowLimit
	nA3 := c.N(6000, 120000)
	for i := 0; i < nA3; i++ {
		var bh common.Uint256
		r.Read(bh[:])
		ap0, info := g.auxPow(bh)
		ap, raw, ok := auxPowRoundTrip(ap0)
		if !ok {
			c.Inc("A_auxpow_not_decodable")
			continue
		}
		id := "A3:" + hx(raw)
		obj := func() map[string]interface{} {
			info["auxpow_hex"] = hx(raw)
			info["aux_block_hash"] = hx(bh[:])
			return info
		}
		c.Case(id, info["parent_root_consistent"] == true)
		c.Inc("A_auxpow_check_calls")
		if info["parent_root_consistent"] == true && info["par_coinbase_txin"].(int) > 0 && info["script_kind"].(int) >= 6 {
			c.Inc("A_auxpow_reached_index")
		}
		x.call("auxpow.AuxPow.Check", fmt.Sprint(i), obj, func() {
			if ap.Check(&bh, auxpow.AuxPowChainID) {
				c.Inc("A_auxpow_check_true")
			}
		})
		hdr := &common2.Header{Bits: []uint32{0x207fffff, 0x1d00ffff, 0, r.Uint32()}[r.Intn(4)], AuxPow: *ap}
		c.Inc("A_pow_calls")
		x.call("blockchain.CheckProofOfWork", fmt.Sprint(i), obj, func() { blockchain.CheckProofOfWork(hdr, limit) })
		if i < 2 {
			c.Sample(map[string]interface{}{"kind": "A3", "info": info, "auxpow_len": len(raw)})
		}
	}
}

func safeIsMultiSig(code []byte) (res string) {
	defer func() {
		if recover() != nil {
			res = "panic"
		}
	}()
	return fmt.Sprint(contract.IsMultiSig(code))
}

package props

import (
	"os"
	"strconv"

	"verif/kit"
)

// L2X: development entry point for the level-2 twin workload (not a property).
func init() {
	if os.Getenv("VERIF_L2X") == "" {
		return // development entry point: VERIF_L2X=1 ./check L2X quick
	}
	kit.Register(&kit.Spec{
		ID:   "L2X",
		Rule: "development run of the level-2 twin workload",
		Shards: func(tier string) int {
			if v, err := strconv.Atoi(os.Getenv("L2X_SHARDS")); err == nil {
				return v
			}
			return 2
		},
		Run: func(c *kit.Ctx) {
			if sd := os.Getenv("L2X_SEED"); sd != "" {
				seed, _ := strconv.ParseInt(sd, 10, 64)
				sp := l2Spec{Era: os.Getenv("L2X_ERA"), Seed: seed, SnapDPoS: true, SnapCR: true, Evidence: os.Getenv("L2X_EVID") != "", Trace: true}
				if l, err := strconv.Atoi(os.Getenv("L2X_LONG")); err == nil {
					sp = l2Spec{Era: "dpos-era", Seed: seed, SnapDPoS: true, SnapCR: true, Long: uint32(l), NeedSave: true, DutyPeriod: 5000, Trace: true}
				}
				if f, err := strconv.Atoi(os.Getenv("L2X_FROM")); err == nil {
					sp.From = uint32(f)
				}
				o, err := l2RunScenario(c, "dbg", sp)
				c21L2Account(c, o, err)
				if err == nil {
					c21L2Compare(c, o)
				}
				if keep := os.Getenv("L2X_KEEP"); keep != "" {
					os.RemoveAll(keep)
					os.Rename(o.Dir, keep)
				}
				return
			}
			switch os.Getenv("L2X_MODE") {
			case "c22":
				c22NodeLevel(c)
			case "c24":
				c24Twin(c)
			default:
				c21NodeLevel(c)
			}
		},
		TimeoutS: func(tier string) int { return 900 },
	})
}

package props

// Reference models shared by C39 (bloom filters), C08 (SPV merkle proofs) and
// C07 (block/header binding). Nothing in this file imports the code it models:
// murmur3, the BIP37-style bit addressing, the filter/tx matching protocol and
// the merkle tree are re-stated from their specifications on plain byte slices.

import (
	"crypto/sha256"
)

// ---- MurmurHash3 x86_32 (Austin Appleby, public domain reference) ----

func refRotl32(x uint32, r uint) uint32 { return x<<r | x>>(32-r) }

func refMurmur3(seed uint32, data []byte) uint32 {
	const c1, c2 = 0xcc9e2d51, 0x1b873593
	h := seed
	n := len(data)
	i := 0
	for ; i+4 <= n; i += 4 {
		k := uint32(data[i]) | uint32(data[i+1])<<8 | uint32(data[i+2])<<16 | uint32(data[i+3])<<24
		k *= c1
		k = refRotl32(k, 15)
		k *= c2
		h ^= k
		h = refRotl32(h, 13)
		h = h*5 + 0xe6546b64
	}
	var k uint32
	rem := n - i
	if rem >= 3 {
		k ^= uint32(data[i+2]) << 16
	}
	if rem >= 2 {
		k ^= uint32(data[i+1]) << 8
	}
	if rem >= 1 {
		k ^= uint32(data[i])
		k *= c1
		k = refRotl32(k, 15)
		k *= c2
		h ^= k
	}
	h ^= uint32(n)
	h ^= h >> 16
	h *= 0x85ebca6b
	h ^= h >> 13
	h *= 0xc2b2ae35
	h ^= h >> 16
	return h
}

// ---- reference bloom filter (BIP37 addressing) ----

type refBloom struct {
	bits  []byte
	k     uint32
	tweak uint32
}

func newRefBloom(sizeBytes int, k, tweak uint32) *refBloom {
	return &refBloom{bits: make([]byte, sizeBytes), k: k, tweak: tweak}
}

func (b *refBloom) clone() *refBloom {
	return &refBloom{bits: append([]byte(nil), b.bits...), k: b.k, tweak: b.tweak}
}

func (b *refBloom) pos(i uint32, data []byte) uint32 {
	return refMurmur3(i*0xfba4c795+b.tweak, data) % uint32(len(b.bits)*8)
}

// add inserts data. A zero-length bit array can hold nothing (and contains()
// then reports "maybe" for everything, which keeps the no-false-negative law).
func (b *refBloom) add(data []byte) {
	if len(b.bits) == 0 {
		return
	}
	for i := uint32(0); i < b.k; i++ {
		p := b.pos(i, data)
		b.bits[p/8] |= 1 << (p % 8)
	}
}

func (b *refBloom) contains(data []byte) bool {
	if len(b.bits) == 0 {
		return true
	}
	for i := uint32(0); i < b.k; i++ {
		p := b.pos(i, data)
		if b.bits[p/8]&(1<<(p%8)) == 0 {
			return false
		}
	}
	return true
}

// ---- protocol model of transaction matching ----

// refTx is what the filter protocol looks at, as plain bytes.
type refTx struct {
	hash   [32]byte
	txType byte
	outs   [][]byte // program hash (21 bytes) per output
	inputs [][]byte // serialized outpoint (32-byte txid || uint16 LE index) per input
}

func refOutPoint(txid [32]byte, index uint16) []byte {
	b := make([]byte, 34)
	copy(b, txid[:])
	b[32] = byte(index)
	b[33] = byte(index >> 8)
	return b
}

// refMatchTx is the protocol: (normal filter) a tx matches when its id, the
// program hash of any of its outputs, or any outpoint it spends is in the
// filter; every output whose program hash is in the filter gets its outpoint
// inserted (always: the ELA filter has no update-none mode). (Side-chain SPV
// filter, tweak 2^32-1) a tx matches when its type is one of the requested
// types or, for a non-empty bit array, when an output pays to a watched
// program hash; the filter is never updated.
func refMatchTx(b *refBloom, txTypes []byte, tx *refTx) bool {
	if b.tweak == 0xffffffff {
		for _, t := range txTypes {
			if t == tx.txType {
				return true
			}
		}
		if len(b.bits) != 0 {
			for _, o := range tx.outs {
				if b.contains(o) {
					return true
				}
			}
		}
		return false
	}
	matched := b.contains(tx.hash[:])
	for i, o := range tx.outs {
		if b.contains(o) {
			matched = true
			b.add(refOutPoint(tx.hash, uint16(i)))
		}
	}
	if matched {
		return true
	}
	for _, in := range tx.inputs {
		if b.contains(in) {
			return true
		}
	}
	return false
}

// ---- reference merkle tree (bitcoin style: odd level duplicates its last node) ----

func refSha256d(b []byte) [32]byte {
	a := sha256.Sum256(b)
	return sha256.Sum256(a[:])
}

func refParent(l, r [32]byte) [32]byte {
	var buf [64]byte
	copy(buf[:32], l[:])
	copy(buf[32:], r[:])
	return refSha256d(buf[:])
}

func refMerkleRoot(leaves [][32]byte) [32]byte {
	if len(leaves) == 0 {
		return [32]byte{}
	}
	level := append([][32]byte(nil), leaves...)
	for len(level) > 1 {
		var next [][32]byte
		for i := 0; i < len(level); i += 2 {
			if i+1 < len(level) {
				next = append(next, refParent(level[i], level[i+1]))
			} else {
				next = append(next, refParent(level[i], level[i]))
			}
		}
		level = next
	}
	return level[0]
}

// refBranchRoot folds a merkle branch: bit i of index says whether the running
// hash is the right child at level i.
func refBranchRoot(leaf [32]byte, branch [][32]byte, index int) [32]byte {
	h := leaf
	for _, s := range branch {
		if index&1 == 1 {
			h = refParent(s, h)
		} else {
			h = refParent(h, s)
		}
		index >>= 1
	}
	return h
}

// refBranch computes the authentic branch of leaf i.
func refBranch(leaves [][32]byte, i int) (branch [][32]byte, index int) {
	level := append([][32]byte(nil), leaves...)
	index = i
	for len(level) > 1 {
		sib := i ^ 1
		if sib >= len(level) {
			sib = i
		}
		branch = append(branch, level[sib])
		var next [][32]byte
		for j := 0; j < len(level); j += 2 {
			if j+1 < len(level) {
				next = append(next, refParent(level[j], level[j+1]))
			} else {
				next = append(next, refParent(level[j], level[j]))
			}
		}
		level = next
		i >>= 1
	}
	return
}

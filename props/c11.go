package props

import (
	"fmt"
	"math"
	"math/big"
	"math/rand"
	"reflect"
	"sort"
	"strings"

	"github.com/elastos/Elastos.ELA/common"
	"github.com/elastos/Elastos.ELA/common/config"
	"github.com/elastos/Elastos.ELA/core"
	"github.com/elastos/Elastos.ELA/core/types"
	common2 "github.com/elastos/Elastos.ELA/core/types/common"
	"github.com/elastos/Elastos.ELA/core/types/interfaces"
	"github.com/elastos/Elastos.ELA/core/types/outputpayload"

	"verif/kit"
	"verif/kit/node"
)

// C11 — issuance follows the schedule.
//
// Part 1 (pure): Configuration.GetBlockReward over the height space of the
// mainnet / testnet / regnet parameter sets (and a compressed schedule) against
// an exact integer model of the schedule: never negative, never increasing once
// the new schedule applies, equal to floor(inflation / blocksPerYear / 2^k).
//
// Part 2 (live node): blocks with random fee totals; per height the honest
// coinbase (from the node's own AssignCoinbaseTxRewards) and single mutations of
// its output vector, delivered through ProcessBlock. Oracle on every ACCEPTED
// block: every coinbase output >= 0 and the exact (big.Int) output sum equals
// subsidy(h) + fees, with subsidy from the Part 1 model and fees from an
// independent replay ledger. Honest coinbase must be accepted.
//
// Eras: the coinbase rule is era dependent. c11Eras lists the era workloads.
// Implemented here, both on a chain mined by proof of work only:
//   pow-h1  heights below PublicDPOSHeight (sum of all outputs == subsidy+fees)
//   pow-h2  heights at/above PublicDPOSHeight (two outputs paying subsidy+fees
//           minus the withheld 35% DPoS share); this is also the rule that
//           applies up to DPoSV2ActiveHeight+1.
// The DPoS v2 era needs a running DPoS v2 chain: write c11DposV2(c) on top of
// c11RunNodeEra (strict: true) and add it with c11RegisterEra.

func init() {
	kit.Register(&kit.Spec{
		ID:      "C11",
		Rule:    "part 1: per parameter set (mainnet, testnet, regnet, compressed) every *Height parameter +-2, every halving boundary up to 2^32-1 +-2, 0 and 2^32-1, plus seeded uniform and schedule-concentrated heights; each with its successor. part 2: per height 0..3 signed transfers with random fees (min fee .. half the coin), the honest coinbase vector and single mutations of it (each value +-1 and +-2^k, two values exchanged, split moved with total preserved, extra / missing output, a negative output compensated by a larger one, vectors whose int64 sum wraps such as [2^63-1, 2^63-1, total+2]) submitted as solved blocks to ProcessBlock on the current tip, in two eras: heights below PublicDPOSHeight and heights above it (proof-of-work chain, PublicDPOSHeight lowered to 12); every third height is a pure positive control; and in the DPoS v2 era (kit dposv2-era bootstrapped past DPoSV2ActiveHeight+1, first DPOS consensus, then POW consensus after a real RevertToPOW block): per height every such mutation plus each fixed address replaced by each other known address, the CR/DPoS addresses exchanged and the other consensus mode's addresses, each as a solved and confirmed block through the BlockPool, all of which must be refused before the honest block is accepted. distinct = distinct (parameter set, height) / distinct (era, height, class, output vector); non-trivial = height at or above the new-issuance height (part 1) / block passed proof-of-work and header checks so that the coinbase rule decided (part 2: every candidate is a solved block on the tip)",
		Shards:  func(tier string) int { return 8 },
		Run:     runC11,
		Require: []string{"p1_heights", "p1_monotone_pairs", "p1_halving_boundaries", "p1_exact_matches", "p2_rounds", "p2_honest_accepted", "p2_honest_accepted:pow-h1", "p2_honest_accepted:pow-h2", "p2_honest_accepted:dposv2", "p2_v2_honest_accepted:dpos", "p2_v2_honest_accepted:pow", "p2_v2_mutants_submitted:dpos", "p2_v2_mutants_submitted:pow", "p2_v2_fee_blocks:dpos", "p2_mutants_submitted", "p2_mutants_rejected", "p2_fee_blocks", "p2_replays", "p2_wrap_candidates", "p2_negative_candidates"},
		Assumptions: []string{"math/big and integer division are correct",
			"schedule model: 4% of 33,000,000 ELA per year before NewELAIssuanceHeight, 4% of 20,000,000 ELA per year after it, 262800 blocks per year, halved at HalvingRewardHeight and every HalvingRewardInterval after it; result truncated to 1e-8 ELA",
			"kit node: regnet parameters, CheckRewardHeight=0 (coinbase amount errors are not discarded)",
			"part 2 covers the two coinbase rules that apply before DPoSV2ActiveHeight+2 on a chain without registered producers (no arbiter round rewards; the H2 rule is reached by lowering PublicDPOSHeight to 12 on regnet) and the DPoS v2 rule on the kit's compressed dposv2-era chain (props/c11_dposv2.go: real producers, committee, stake and votes; CRDutyPeriod raised so that the committee lasts; blocks confirmed with the harness keys of the current arbiters)",
			"DPoS v2 rule as stated: three outputs, exact sum subsidy+fees, CR and DPoS shares within 1 sela of ceil(30%) / ceil(35%) in exact rationals, CR / DPoS share paid to the CR assets / DPoS v2 reward accumulation address in DPOS consensus and to the destroy address in POW consensus; the miner's own address is not fixed by the statement; per height only one value vector may be accepted",
			"in the H2 era the coinbase pays subsidy+fees minus ceil(35%) (the DPoS share is withheld); the oracle allows +-1 sela for the node's float arithmetic"},
	})
}

// ---------------------------------------------------------------- schedule model

const (
	c11OldInflationPerYear = 3300 * 10000 * 100000000 / 100 * 4 // 4% of 33M ELA, in sela
	c11NewInflationPerYear = 2000 * 10000 * 100000000 / 100 * 4 // 4% of 20M ELA
	c11BlocksPerYear       = 365 * 24 * 60 * 60 / 120
)

type c11Sched struct{ newH, halvH, halvI uint32 }

// halvings returns the number of halvings that apply at height h (h >= newH).
func (s c11Sched) halvings(h uint32) uint64 {
	if h < s.halvH {
		return 0
	}
	return 1 + uint64(h-s.halvH)/uint64(s.halvI)
}

// reward is the exact schedule value in sela.
func (s c11Sched) reward(h uint32) *big.Int {
	if h < s.newH {
		return new(big.Int).Div(big.NewInt(c11OldInflationPerYear), big.NewInt(c11BlocksPerYear))
	}
	k := s.halvings(h)
	den := new(big.Int).Lsh(big.NewInt(c11BlocksPerYear), uint(k))
	return new(big.Int).Div(big.NewInt(c11NewInflationPerYear), den)
}

// fast path of reward for bulk sampling (same arithmetic in uint64)
func (s c11Sched) reward64(h uint32) int64 {
	if h < s.newH {
		return c11OldInflationPerYear / c11BlocksPerYear
	}
	k := s.halvings(h)
	if k >= 40 {
		return 0
	}
	return int64(uint64(c11NewInflationPerYear) / (uint64(c11BlocksPerYear) << k))
}

type c11Net struct {
	name string
	cfg  *config.Configuration
}

func c11Nets() []c11Net {
	comp := config.GetDefaultParams()
	comp.NewELAIssuanceHeight, comp.HalvingRewardHeight, comp.HalvingRewardInterval = 1000, 3000, 200000
	return []c11Net{
		{"mainnet", config.GetDefaultParams()},
		{"testnet", config.GetDefaultParams().TestNet()},
		{"regnet", config.GetDefaultParams().RegNet()},
		{"compressed", comp},
	}
}

// c11HeightParams collects every uint32 configuration field whose name
// contains "Height" (era boundaries), recursively.
func c11HeightParams(v reflect.Value, out map[uint32]string, path string) {
	switch v.Kind() {
	case reflect.Ptr:
		if !v.IsNil() {
			c11HeightParams(v.Elem(), out, path)
		}
	case reflect.Struct:
		for i := 0; i < v.NumField(); i++ {
			f := v.Type().Field(i)
			if f.PkgPath != "" {
				continue
			}
			fv := v.Field(i)
			if fv.Kind() == reflect.Uint32 && strings.Contains(f.Name, "Height") {
				out[uint32(fv.Uint())] = path + f.Name
			} else if fv.Kind() == reflect.Struct {
				c11HeightParams(fv, out, path+f.Name+".")
			}
		}
	}
}

func c11Part1(c *kit.Ctx) {
	r := c.Rand("c11-p1")
	for _, nt := range c11Nets() {
		cfg := nt.cfg
		s := c11Sched{cfg.NewELAIssuanceHeight, cfg.HalvingRewardHeight, cfg.HalvingRewardInterval}
		if s.halvI == 0 || s.halvH < s.newH {
			c.Inconclusive("%s: schedule parameters outside the model (interval %d, halving %d < new %d)", nt.name, s.halvI, s.halvH, s.newH)
			continue
		}
		mism, tracked := 0, 0
		checkOne := func(h uint32, exactBig bool) int64 {
			got := int64(cfg.GetBlockReward(h))
			c.Inc("p1_heights")
			if exactBig || tracked < 5000 {
				// boundary heights and the first sampled heights go to the distinct-case tracker (it is capped per shard)
				tracked++
				c.Case(fmt.Sprintf("p1:%s:%d", nt.name, h), h >= s.newH)
			}
			if got < 0 {
				c.Violate("reward:negative", fmt.Sprintf("%s: GetBlockReward(%d) = %d", nt.name, h, got), map[string]interface{}{"net": nt.name, "height": h})
			}
			want := s.reward64(h)
			if exactBig {
				wb := s.reward(h)
				if !wb.IsInt64() || wb.Int64() != want {
					c.Violate("harness:model-mismatch", fmt.Sprintf("big/uint64 models differ at %d", h), nil)
				}
			}
			switch d := got - want; {
			case d == 0:
				c.Inc("p1_exact_matches")
			case d >= -1 && d <= 1:
				// float64 rounding of the same formula: not a violation of the statement
				c.Inc("p1_off_by_one_sela")
				if mism++; mism <= 3 {
					c.Note("%s: GetBlockReward(%d) = %d, exact floor = %d (float rounding, within 1 sela)", nt.name, h, got, want)
				}
			default:
				c.Violate("reward:off-schedule", fmt.Sprintf("%s: GetBlockReward(%d) = %d but the schedule gives %d (halvings=%d)", nt.name, h, got, want, s.halvings(h)),
					map[string]interface{}{"net": nt.name, "height": h})
			}
			return got
		}
		pair := func(h uint32, exactBig bool) {
			a := checkOne(h, exactBig)
			if h == math.MaxUint32 {
				return
			}
			b := checkOne(h+1, exactBig)
			if h >= s.newH {
				c.Inc("p1_monotone_pairs")
				if b > a {
					c.Violate("reward:increases", fmt.Sprintf("%s: GetBlockReward(%d) = %d > GetBlockReward(%d) = %d", nt.name, h+1, b, h, a),
						map[string]interface{}{"net": nt.name, "height": h})
				}
			}
		}
		// --- boundaries (shard 0 only: deterministic list)
		if c.Shard == 0 {
			bset := map[uint32]string{0: "zero", math.MaxUint32: "max"}
			c11HeightParams(reflect.ValueOf(cfg), bset, "")
			nHalv := 0
			for h := uint64(s.halvH); h <= math.MaxUint32; h += uint64(s.halvI) {
				bset[uint32(h)] = "halving"
				nHalv++
			}
			c.Count("p1_halving_boundaries", int64(nHalv))
			c.Count("p1_era_parameters:"+nt.name, int64(len(bset)-nHalv))
			var hs []uint32
			for b := range bset {
				for d := -2; d <= 2; d++ {
					v := int64(b) + int64(d)
					if v >= 0 && v <= math.MaxUint32 {
						hs = append(hs, uint32(v))
					}
				}
			}
			sort.Slice(hs, func(i, j int) bool { return hs[i] < hs[j] })
			var prevH uint32
			var prevV int64 = -1
			for _, h := range hs {
				pair(h, true)
				v := int64(cfg.GetBlockReward(h))
				// monotone along the whole sorted boundary list, not only between neighbours
				if prevV >= 0 && prevH >= s.newH && v > prevV {
					c.Violate("reward:increases", fmt.Sprintf("%s: GetBlockReward(%d) = %d > GetBlockReward(%d) = %d", nt.name, h, v, prevH, prevV), nil)
				}
				prevH, prevV = h, v
			}
			// first height with zero subsidy and the last halving epochs
			for k := uint64(0); k < 64; k++ {
				h := uint64(s.halvH) + k*uint64(s.halvI)
				if h > math.MaxUint32 {
					break
				}
				if cfg.GetBlockReward(uint32(h)) == 0 {
					c.Max("max:p1_halvings_until_zero:"+nt.name, int64(k+1))
					break
				}
			}
			c.Sample(map[string]interface{}{"part": 1, "net": nt.name, "new_issuance_height": s.newH, "halving_height": s.halvH, "halving_interval": s.halvI,
				"reward_before": int64(cfg.GetBlockReward(s.newH - 1)), "reward_new": int64(cfg.GetBlockReward(s.newH)), "reward_first_halving": int64(cfg.GetBlockReward(s.halvH)),
				"reward_at_max_height": int64(cfg.GetBlockReward(math.MaxUint32))})
		}
		// --- sampled heights
		n := c.N(16000, 320000) // x 2 heights x 4 nets x 8 shards ~ 1M / 20M evaluations
		top := uint64(s.halvH) + 40*uint64(s.halvI)
		if top > math.MaxUint32 {
			top = math.MaxUint32
		}
		for i := 0; i < n; i++ {
			var h uint32
			switch i % 4 {
			case 0:
				h = r.Uint32()
			case 1: // where the schedule still pays
				h = uint32(r.Int63n(int64(top) + 1))
			case 2: // around a random halving boundary
				k := uint64(r.Intn(45))
				b := uint64(s.halvH) + k*uint64(s.halvI) + uint64(r.Intn(7)) - 3
				if b > math.MaxUint32 {
					b = math.MaxUint32
				}
				h = uint32(b)
			default: // around the switch to the new schedule
				h = s.newH + uint32(r.Intn(2001)) - 1000
			}
			pair(h, false)
		}
	}
}

// ---------------------------------------------------------------- part 2

// c11Era is one era workload of part 2.
type c11Era struct {
	Name string
	Run  func(c *kit.Ctx)
}

var c11Eras = []c11Era{{Name: "pow-h1", Run: c11PowEra}, {Name: "pow-h2", Run: c11PowH2Era}}

// c11RegisterEra adds an era workload. Shards are distributed round robin over
// the registered eras. The DPoS v2 era, once a DPoS v2 capable node fixture
// exists, is a new file props/c11_dposv2.go of this shape:
//
//	func init() { c11RegisterEra(c11Era{Name: "dposv2", Run: c11DposV2}) }
//	func c11DposV2(c *kit.Ctx) {
//		c11RunNodeEra(c, c11NodeEra{name: "dposv2", strict: true, payRange: c11ExactTotal,
//			tweak:   /* era heights */, warm: /* producers, stake, votes, mine past DPoSV2ActiveHeight+1 */,
//			process: /* ProcessBlock with the confirm of the current arbiters */})
//	}
//
// strict makes every accepted non-honest vector (exchanged values, moved split,
// replaced address, extra/merged output) a violation "coinbase:variant-accepted:<class>".
// Add "p2_honest_accepted:dposv2" to Spec.Require then.
func c11RegisterEra(e c11Era) { c11Eras = append(c11Eras, e) }

func runC11(c *kit.Ctx) {
	// part 2 first: its cases must not fall victim to the per-shard cap of the distinct-case tracker
	e := c11Eras[c.Shard%len(c11Eras)]
	c.Inc("p2_era:" + e.Name)
	e.Run(c)
	c11Part1(c)
}

// c11Cand is one candidate coinbase output vector.
type c11Cand struct {
	class string
	vals  []int64
	addrs []common.Uint168
	// verdict by the era oracle, filled by the caller:
	mustReject bool
}

func (k c11Cand) clone(class string) c11Cand {
	return c11Cand{class: class, vals: append([]int64(nil), k.vals...), addrs: append([]common.Uint168(nil), k.addrs...)}
}

func c11ExactSum(v []int64) *big.Int {
	s := new(big.Int)
	for _, x := range v {
		s.Add(s, big.NewInt(x))
	}
	return s
}

func c11HasNeg(v []int64) bool {
	for _, x := range v {
		if x < 0 {
			return true
		}
	}
	return false
}

// c11Classify names the way an output vector departs from "all >= 0 and exact
// sum == total" ("" = it does not).
func c11Classify(v []int64, total int64) string {
	if c11HasNeg(v) {
		return "coinbase:negative-output"
	}
	s := c11ExactSum(v)
	if s.Cmp(big.NewInt(total)) == 0 {
		return ""
	}
	m := new(big.Int).Sub(s, big.NewInt(total))
	if new(big.Int).Mod(m, new(big.Int).Lsh(big.NewInt(1), 64)).Sign() == 0 {
		return "coinbase:wrapping-sum"
	}
	return "coinbase:wrong-total"
}

// c11Mutants derives the single mutations of the honest vector. total is the
// honest exact sum. Order: total-changing / negative / wrapping first
// (shuffled), then at most one total-preserving non-negative variant.
func c11Mutants(c *kit.Ctx, r *rand.Rand, round int, hon c11Cand, total int64, miner common.Uint168) (bad []c11Cand, neutral []c11Cand) {
	n := len(hon.vals)
	add := func(k c11Cand) { bad = append(bad, k) }
	for i := 0; i < n; i++ {
		for _, d := range []int64{1, -1} {
			k := hon.clone(fmt.Sprintf("value%+d", d))
			k.vals[i] += d
			add(k)
		}
		ks := []int{1 + r.Intn(20), 21 + r.Intn(20), 41 + r.Intn(21), 62}
		if !c.Quick() && i == round%n { // thorough: every exponent for one output per round (rotating)
			ks = ks[:0]
			for e := 1; e <= 62; e++ {
				ks = append(ks, e)
			}
		}
		for _, e := range ks {
			for _, sgn := range []int64{1, -1} {
				k := hon.clone("value+-2^k")
				k.vals[i] += sgn * (int64(1) << uint(e))
				add(k)
			}
		}
	}
	// extra output
	for _, x := range []int64{1, int64(1) << uint(1+r.Intn(61)), -1} {
		k := hon.clone("extra-output")
		k.vals = append(k.vals, x)
		k.addrs = append(k.addrs, miner)
		add(k)
	}
	// missing output (total changes)
	if n > 2 {
		k := hon.clone("missing-output")
		j := r.Intn(n)
		k.vals = append(k.vals[:j:j], k.vals[j+1:]...)
		k.addrs = append(k.addrs[:j:j], k.addrs[j+1:]...)
		add(k)
	}
	// negative output with compensating positive output (total preserved)
	for i := 0; i < n; i++ {
		j := (i + 1 + r.Intn(n-1)) % n
		x := int64(1)
		switch r.Intn(3) {
		case 0:
			x = 1 + r.Int63n(1<<40)
		case 1:
			x = total * 1000
		}
		k := hon.clone("negative-compensated")
		k.vals[j] += k.vals[i] + x
		k.vals[i] = -x
		add(k)
		c.Inc("p2_negative_candidates")
	}
	{ // negative extra output, miner takes the difference
		k := hon.clone("negative-extra-compensated")
		x := 1 + r.Int63n(1<<50)
		k.vals[1] += x
		k.vals = append(k.vals, -x)
		k.addrs = append(k.addrs, miner)
		add(k)
		c.Inc("p2_negative_candidates")
	}
	// int64 sums that wrap: exact sum = total + w*2^64, every value in [0, 2^63-1]
	for w := 1; w <= 2; w++ {
		parts := wrapVec(r, total, w)
		k := c11Cand{class: fmt.Sprintf("wrap-k%d", w), vals: parts}
		for i := range parts {
			a := miner
			if i < n {
				a = hon.addrs[i]
			}
			k.addrs = append(k.addrs, a)
		}
		add(k)
		c.Inc("p2_wrap_candidates")
	}
	{ // the canonical witness [2^63-1, 2^63-1, total+2] with the small value at a random position
		v := []int64{math.MaxInt64, math.MaxInt64, math.MaxInt64}
		v[r.Intn(3)] = total + 2
		k := c11Cand{class: "wrap-canonical", vals: v, addrs: []common.Uint168{hon.addrs[0], hon.addrs[1], miner}}
		add(k)
		c.Inc("p2_wrap_candidates")
	}
	r.Shuffle(len(bad), func(i, j int) { bad[i], bad[j] = bad[j], bad[i] })

	// total-preserving, non-negative
	if n >= 2 {
		i := r.Intn(n)
		j := (i + 1 + r.Intn(n-1)) % n
		k := hon.clone("exchange-two-values")
		k.vals[i], k.vals[j] = k.vals[j], k.vals[i]
		neutral = append(neutral, k)
		k = hon.clone("split-moved")
		if k.vals[i] > 0 {
			x := 1 + r.Int63n(k.vals[i])
			k.vals[i] -= x
			k.vals[j] += x
			neutral = append(neutral, k)
		}
		k = hon.clone("extra-zero-output")
		k.vals = append(k.vals, 0)
		k.addrs = append(k.addrs, miner)
		neutral = append(neutral, k)
		if n > 2 {
			k = hon.clone("merged-outputs")
			k.vals[n-2] += k.vals[n-1]
			k.vals, k.addrs = k.vals[:n-1], k.addrs[:n-1]
			neutral = append(neutral, k)
		}
		k = c11Cand{class: "single-output", vals: []int64{total}, addrs: []common.Uint168{hon.addrs[0]}}
		neutral = append(neutral, k)
		// each address replaced (values untouched)
		k = hon.clone("address-replaced")
		a := r.Intn(n)
		if k.addrs[a] == miner {
			k.addrs[a] = hon.addrs[0]
		} else {
			k.addrs[a] = miner
		}
		if k.addrs[a] != hon.addrs[a] {
			neutral = append(neutral, k)
		}
	}
	return
}

// c11Block builds a solved block on parent with the given coinbase vector.
func c11Block(nd *node.Node, parent *types.Block, txs []interfaces.Transaction, k c11Cand, nonce uint64) (*types.Block, error) {
	h := parent.Height + 1
	cb := nd.CoinbaseTx(nd.Miner.Address, h, nonce)
	var outs []*common2.Output
	for i, v := range k.vals {
		outs = append(outs, &common2.Output{AssetID: core.ELAAssetID, Value: common.Fixed64(v), ProgramHash: k.addrs[i], Type: common2.OTNone, Payload: &outputpayload.DefaultOutput{}})
	}
	cb.SetOutputs(outs) // before the first Hash(): the hash is cached
	blk := &types.Block{
		Header:       common2.Header{Version: 0, Previous: parent.Hash(), Timestamp: parent.Timestamp + 1, Bits: nd.Cfg.PowConfiguration.PowLimitBits, Height: h},
		Transactions: append([]interfaces.Transaction{cb}, txs...),
	}
	return blk, node.Seal(blk, true)
}

// c11Honest asks the node's own AssignCoinbaseTxRewards for the coinbase vector.
func c11Honest(nd *node.Node, parent *types.Block, total common.Fixed64) (c11Cand, error) {
	h := parent.Height + 1
	cb := nd.CoinbaseTx(nd.Miner.Address, h, 1)
	blk := &types.Block{Header: common2.Header{Height: h, Previous: parent.Hash()}, Transactions: []interfaces.Transaction{cb}}
	if err := nd.Pow.AssignCoinbaseTxRewards(blk, total); err != nil {
		return c11Cand{}, err
	}
	k := c11Cand{class: "honest"}
	for _, o := range blk.Transactions[0].Outputs() {
		k.vals = append(k.vals, int64(o.Value))
		k.addrs = append(k.addrs, o.ProgramHash)
	}
	return k, nil
}

type c11Coin struct {
	ref node.UTXORef
}

// c11NodeEra describes a node era for the generic coinbase-mutation driver.
type c11NodeEra struct {
	name  string
	tweak func(cfg *config.Configuration)
	// warm mines into the era after funding; returns an error text if the era cannot be reached.
	warm func(nd *node.Node) error
	// process delivers a block (default: ProcessBlock without confirm); a DPoS era supplies the confirm here.
	process func(nd *node.Node, b *types.Block) error
	// strict: the split is fixed by consensus in this era (DPoS v2): only the honest vector may be accepted.
	strict bool
	// payRange is the admissible exact coinbase sum for subsidy+fees == total.
	payRange func(cfg *config.Configuration, h uint32, total int64) (lo, hi *big.Int)
}

func c11ExactTotal(cfg *config.Configuration, h uint32, total int64) (lo, hi *big.Int) {
	return big.NewInt(total), big.NewInt(total)
}

// c11PowEra: heights below PublicDPOSHeight. Rule observed at the real node:
// exact output sum == subsidy + fees, every output >= 0. The split between the
// outputs is not fixed in this era (only the total and the 30% floor of the
// first output are), so total-preserving non-negative variants may be accepted.
func c11PowEra(c *kit.Ctx) {
	c11RunNodeEra(c, c11NodeEra{name: "pow-h1", payRange: c11ExactTotal})
}

// c11PowH2Era: heights at or above PublicDPOSHeight on a chain that is still
// mined by proof of work only (no producers registered, so no arbiter round
// rewards): the coinbase has two outputs paying subsidy+fees minus the 35%
// DPoS share, which is withheld for the arbiters.
func c11PowH2Era(c *kit.Ctx) {
	const h2 = 12
	c11RunNodeEra(c, c11NodeEra{name: "pow-h2",
		tweak: func(cfg *config.Configuration) { cfg.PublicDPOSHeight = h2 },
		warm: func(nd *node.Node) error {
			for nd.Height() < h2+2 {
				if err := nd.MineN(1); err != nil {
					return fmt.Errorf("height %d: %v", nd.Height()+1, err)
				}
			}
			return nil
		},
		payRange: func(cfg *config.Configuration, h uint32, total int64) (lo, hi *big.Int) {
			if h < cfg.PublicDPOSHeight {
				return c11ExactTotal(cfg, h, total)
			}
			// total - ceil(35% of total), exact, +-1 sela for the float arithmetic of the node
			share := new(big.Int).Mul(big.NewInt(total), big.NewInt(7))
			share.Add(share, big.NewInt(19)).Div(share, big.NewInt(20))
			p := new(big.Int).Sub(big.NewInt(total), share)
			return new(big.Int).Sub(p, big.NewInt(1)), new(big.Int).Add(p, big.NewInt(1))
		}})
}

// c11RunNodeEra is the generic driver of part 2.
func c11RunNodeEra(c *kit.Ctx, era c11NodeEra) {
	nd, err := node.Start(node.Options{Dir: c.WorkDir, CoinbaseMaturity: 2, Tweak: era.tweak})
	if err != nil {
		c.Inconclusive("node start: %v", err)
		return
	}
	defer nd.Close()
	r := c.Rand("c11-p2")
	cfg := nd.Cfg
	sched := c11Sched{cfg.NewELAIssuanceHeight, cfg.HalvingRewardHeight, cfg.HalvingRewardInterval}
	minFee := int64(cfg.MinTransactionFee)

	// fund coins
	if err := nd.MineN(int(cfg.PowConfiguration.CoinbaseMaturity) + 1); err != nil {
		c.Inconclusive("mining: %v", err)
		return
	}
	g := nd.GenesisUTXO()
	var outs []node.Out
	per := common.Fixed64(10000 * 1e8)
	accts := []int{2, 3, 4, 5}
	const perAcct = 8
	for _, a := range accts {
		for k := 0; k < perAcct; k++ {
			outs = append(outs, node.Out{To: node.Key(a).ProgramHash, Value: per})
		}
	}
	outs = append(outs, node.Out{To: nd.Found.ProgramHash, Value: g.Value - per*common.Fixed64(len(outs)) - 1000})
	fund := node.Transfer([]node.UTXORef{g}, outs, common2.TxVersion09)
	if _, err := nd.MineTip(fund); err != nil {
		c.Inconclusive("funding block rejected: %v", err)
		return
	}
	var coins []*c11Coin
	for i := 0; i < len(accts)*perAcct; i++ {
		coins = append(coins, &c11Coin{ref: node.UTXORef{TxID: fund.Hash(), Index: uint16(i), Value: per, Owner: node.Key(accts[i/perAcct])}})
	}

	if era.warm != nil {
		if err := era.warm(nd); err != nil {
			c.Inconclusive("era %s not reachable: %v", era.name, err)
			return
		}
	}
	witnessed := map[string]bool{}   // mutant classes wrongly accepted on this node
	explained := map[uint32]string{} // heights at which a violating block was accepted (already reported)
	feesAt := map[uint32]int64{}     // harness-side fee total per accepted height
	rounds := c.N(25, 100)
	var nonce uint64 = uint64(c.Shard+1) << 32
	sampled := 0
	notedAddr := false
	for round := 0; round < rounds; round++ {
		parent := nd.TipBlock()
		h := parent.Height + 1
		// --- transactions with random fees
		var txs []interfaces.Transaction
		type upd struct {
			coin *c11Coin
			ref  node.UTXORef
		}
		var upds []upd
		var fees int64
		nTx := r.Intn(4)
		perm := r.Perm(len(coins))
		for t := 0; t < nTx; t++ {
			coin := coins[perm[t]]
			v := int64(coin.ref.Value)
			if v < 4*minFee {
				continue
			}
			var fee int64
			switch r.Intn(4) {
			case 0:
				fee = minFee
			case 1:
				fee = minFee + r.Int63n(100000)
			case 2:
				fee = minFee + r.Int63n(10*1e8)
			default:
				fee = v / 2
			}
			if fee > v-1 {
				fee = v - 1
			}
			tx := node.Transfer([]node.UTXORef{coin.ref}, []node.Out{{To: coin.ref.Owner.ProgramHash, Value: common.Fixed64(v - fee)}}, common2.TxVersion09)
			txs = append(txs, tx)
			fees += fee
			upds = append(upds, upd{coin, node.UTXORef{TxID: tx.Hash(), Index: 0, Value: common.Fixed64(v - fee), Owner: coin.ref.Owner}})
		}
		subsidy := sched.reward64(h)
		if got := int64(cfg.GetBlockReward(h)); got != subsidy {
			c.Violate("reward:off-schedule", fmt.Sprintf("node parameters: GetBlockReward(%d) = %d, schedule %d", h, got, subsidy), nil)
		}
		total := subsidy + fees
		hon, err := c11Honest(nd, parent, common.Fixed64(total))
		if err != nil {
			c.Inconclusive("AssignCoinbaseTxRewards: %v", err)
			return
		}
		// what the coinbase must pay at this height: the era's admissible range around subsidy+fees
		lo, hi := era.payRange(cfg, h, total)
		paidB := c11ExactSum(hon.vals)
		if c11HasNeg(hon.vals) || paidB.Cmp(lo) < 0 || paidB.Cmp(hi) > 0 {
			c.Violate("coinbase:assign-off-schedule", fmt.Sprintf("AssignCoinbaseTxRewards(height %d, subsidy+fees %d) produced %v (exact sum %s, admissible %s..%s)", h, total, hon.vals, paidB, lo, hi), nil)
			continue
		}
		paid := paidB.Int64()
		bad, neutral := c11Mutants(c, r, round, hon, paid, nd.Miner.ProgramHash)
		var cands []c11Cand
		if round%3 != 2 { // every third round is a pure positive control (honest block only)
			for _, k := range bad {
				if !witnessed[k.class] { // a class already accepted (and reported) on this node would end every later round early
					cands = append(cands, k)
				}
			}
			if round%2 == 1 && len(neutral) > 0 {
				cands = append(cands, neutral[r.Intn(len(neutral))])
			}
		}
		cands = append(cands, hon)

		c.Inc("p2_rounds")
		if fees > 0 {
			c.Inc("p2_fee_blocks")
		}
		c.Max("max:p2_fee_total", fees)
		acceptedAny := false
		for _, k := range cands {
			cls := c11Classify(k.vals, paid)
			nonce++
			blk, err := c11Block(nd, parent, txs, k, nonce)
			if err != nil {
				c.Inconclusive("assemble: %v", err)
				return
			}
			c.Begin("C11 %s height %d class %s vals %v", era.name, h, k.class, k.vals)
			c.Case(fmt.Sprintf("p2:%s:%d:%s:%v", era.name, h, k.class, k.vals), true)
			tip0 := nd.Tip()
			var perr error
			if era.process != nil {
				perr = era.process(nd, blk)
			} else {
				_, _, perr = nd.Process(blk)
			}
			accepted := nd.Tip() == blk.Hash()
			if !accepted && nd.Tip() != tip0 {
				c.Violate("coinbase:tip-moved-elsewhere", fmt.Sprintf("height %d class %s: tip changed to a third block", h, k.class), nil)
			}
			if k.class != "honest" {
				c.Inc("p2_mutants_submitted")
				c.Inc("p2_class:" + k.class)
			}
			if sampled < 3 && c.Shard == 0 && (k.class == "honest" || strings.HasPrefix(k.class, "wrap") || strings.HasPrefix(k.class, "negative")) {
				sampled++
				c.Sample(map[string]interface{}{"part": 2, "era": era.name, "height": h, "fees": fees, "subsidy": subsidy, "class": k.class, "coinbase_values": fmt.Sprint(k.vals),
					"exact_sum": c11ExactSum(k.vals).String(), "accepted": accepted, "error": fmt.Sprint(perr)})
			}
			if !accepted {
				if k.class == "honest" {
					c.Violate("coinbase:honest-rejected", fmt.Sprintf("height %d fees %d: honest coinbase %v rejected: %v", h, fees, k.vals, perr), nil)
				} else {
					c.Inc("p2_mutants_rejected")
				}
				continue
			}
			// accepted: the block is on the chain now
			acceptedAny = true
			nd.PostBlock(blk)
			feesAt[h] = fees
			for _, u := range upds {
				u.coin.ref = u.ref
			}
			switch {
			case cls != "":
				explained[h] = cls
				witnessed[k.class] = true
				c.Violate(cls, fmt.Sprintf("ProcessBlock accepted block %d whose coinbase outputs %v (class %s) have exact sum %s; subsidy %d + fees %d = %d, coinbase must pay %d", h, k.vals, k.class, c11ExactSum(k.vals), subsidy, fees, total, paid),
					map[string]interface{}{"era": era.name, "height": h, "class": k.class, "values": fmt.Sprint(k.vals), "subsidy": subsidy, "fees": fees, "must_pay": paid})
			case k.class == "honest":
				c.Inc("p2_honest_accepted")
				c.Inc("p2_honest_accepted:" + era.name)
			case era.strict:
				c.Violate("coinbase:variant-accepted:"+k.class, fmt.Sprintf("%s: block %d accepted with coinbase outputs %v (class %s); the honest split is %v", era.name, h, k.vals, k.class, hon.vals),
					map[string]interface{}{"era": era.name, "height": h, "class": k.class, "values": fmt.Sprint(k.vals), "honest": fmt.Sprint(hon.vals)})
			default:
				c.Inc("p2_neutral_accepted:" + era.name + ":" + k.class)
				if k.class == "address-replaced" && k.addrs[0] != hon.addrs[0] {
					// outside the statement before DPoS v2 (addresses are fixed only there); recorded as an observation
					c.Inc("p2_first_output_address_replaced_accepted:" + era.name)
					if !notedAddr {
						notedAddr = true
						c.Note("%s: block %d accepted although the coinbase's first output (foundation / CR share) pays the miner's address: CoinBaseTransaction.SpecialContextCheck is not reached for the coinbase of a block (not a C11 violation in this era)", era.name, h)
					}
				}
			}
			break
		}
		if !acceptedAny {
			// nothing accepted (honest rejected, reported above): keep going on the same tip with fresh txs
			continue
		}
		if round%8 == 7 || round == rounds-1 {
			c11Replay(c, nd, sched, explained, feesAt, era)
		}
	}
}

// c11Replay re-derives, from the blocks the node itself serves, the exact
// issuance of every block with an independent ledger and compares it with the
// schedule. Heights in explained carry an already reported violation.
func c11Replay(c *kit.Ctx, nd *node.Node, sched c11Sched, explained map[uint32]string, feesAt map[uint32]int64, era c11NodeEra) {
	l := nd.Replay()
	c.Inc("p2_replays")
	for _, is := range l.Issues {
		if _, ok := explained[is.Height]; ok || (is.Kind == "issuance-total" && len(explained) > 0) {
			c.Inc("p2_replay_issues_explained")
			continue
		}
		c.Violate("ledger:"+is.Kind, fmt.Sprintf("%s: height %d tx %s: %s", era.name, is.Height, is.TxID, is.Detail), nil)
	}
	created := map[node.OutKey]int64{}
	for _, b := range l.Blocks {
		fees := new(big.Int)
		var cb *big.Int
		neg := false
		for ti, tx := range b.Transactions {
			out := new(big.Int)
			for i, o := range tx.Outputs() {
				out.Add(out, big.NewInt(int64(o.Value)))
				created[node.OutKey{TxID: tx.Hash(), Index: uint16(i)}] = int64(o.Value)
				if ti == 0 && o.Value < 0 {
					neg = true
				}
			}
			if ti == 0 {
				cb = out
				continue
			}
			in := new(big.Int)
			for _, inp := range tx.Inputs() {
				in.Add(in, big.NewInt(created[node.OutKey{TxID: inp.Previous.TxID, Index: inp.Previous.Index}]))
			}
			fees.Add(fees, new(big.Int).Sub(in, out))
		}
		if b.Height == 0 {
			continue
		}
		c.Inc("p2_replayed_blocks")
		if f, ok := feesAt[b.Height]; ok && fees.Cmp(big.NewInt(f)) != 0 {
			c.Violate("harness:fee-bookkeeping", fmt.Sprintf("height %d: harness fees %d, replay fees %s", b.Height, f, fees), nil)
		}
		if _, ok := explained[b.Height]; ok {
			continue
		}
		want := new(big.Int).Add(sched.reward(b.Height), fees)
		if neg {
			c.Violate("coinbase:negative-output", fmt.Sprintf("%s: chain block %d has a negative coinbase output", era.name, b.Height), nil)
		}
		if !want.IsInt64() {
			c.Violate("coinbase:chain-issuance-differs", fmt.Sprintf("%s: chain block %d: subsidy+fees %s out of range", era.name, b.Height, want), nil)
			continue
		}
		lo, hi := era.payRange(nd.Cfg, b.Height, want.Int64())
		if cb.Cmp(lo) < 0 || cb.Cmp(hi) > 0 {
			c.Violate("coinbase:chain-issuance-differs", fmt.Sprintf("%s: chain block %d: exact coinbase sum %s, subsidy %s + fees %s, admissible %s..%s", era.name, b.Height, cb, sched.reward(b.Height), fees, lo, hi), nil)
		}
	}
}

package props

import (
	"bytes"
	"fmt"
	"math/rand"
	"sync"
	"sync/atomic"

	"github.com/elastos/Elastos.ELA/common"
	"github.com/elastos/Elastos.ELA/core/types"
	common2 "github.com/elastos/Elastos.ELA/core/types/common"
	"github.com/elastos/Elastos.ELA/core/types/interfaces"

	"verif/kit"
	"verif/kit/node"
)

// C07, family IV — the binding holds whatever else is being checked at the
// same time.
//
// CheckBlockSanity is reached from BlockChain.ProcessBlock (chain mutex), from
// BlockPool.appendBlock/appendBlockAndConfirm (pool lock only) and directly, so
// several checks of different blocks overlap on ONE BlockChain in a running
// node. Here N goroutines hammer those real entry points with pairs
// (honest block H, forged body F under H's header / H's body under another
// header) of 2..400 transactions. Every goroutine owns freshly deserialized
// block objects (nothing but the BlockChain is shared). Oracle: the verdict of
// every single call equals the sequential reference verdict computed from the
// bytes by c07Why (independent merkle tree): a body that does not hash to its
// header's root is never accepted, an honest block is never rejected by the
// direct sanity check.

type c07Pair struct {
	name   string
	hdr    []byte
	root   [32]byte
	honest []*c07Tx
	forged [][]*c07Tx // bodies that must be rejected under hdr
	fnames []string
}

// c07SyntheticBlock: a sanity-valid block of n transactions (coinbase + signed
// transfers of non-existent outpoints; CheckBlockSanity is context free).
func c07SyntheticBlock(nd *node.Node, r *rand.Rand, n int) (*types.Block, error) {
	var txs []interfaces.Transaction
	var fees common.Fixed64
	for i := 0; i < n-1; i++ {
		var id common.Uint256
		r.Read(id[:])
		val := common.Fixed64(1000*1e8 + r.Int63n(1e8))
		fee := common.Fixed64(10000 + r.Int63n(1000))
		ref := node.UTXORef{TxID: id, Index: uint16(r.Intn(3)), Value: val, Owner: node.Key(2 + i%6)}
		outs := []node.Out{{To: node.Key(2 + r.Intn(8)).ProgramHash, Value: val - fee}}
		ver := common2.TxVersion09
		if i%2 == 0 {
			ver = common2.TxVersionDefault
		}
		txs = append(txs, node.Transfer([]node.UTXORef{ref}, outs, ver))
		fees += fee
	}
	return nd.Assemble(node.BlockSpec{Txs: txs, Fees: fees})
}

func c07MakePair(nd *node.Node, r *rand.Rand, name string, blk *types.Block, foreign []*c07Tx) (*c07Pair, error) {
	hb := new(bytes.Buffer)
	if err := blk.Header.Serialize(hb); err != nil {
		return nil, err
	}
	p := &c07Pair{name: name, hdr: hb.Bytes(), root: [32]byte(blk.Header.MerkleRoot)}
	for _, tx := range blk.Transactions {
		t, err := c07Wrap(tx)
		if err != nil {
			return nil, err
		}
		p.honest = append(p.honest, t)
	}
	if c07Why(p.root, p.honest) != "" {
		return nil, fmt.Errorf("pair %s: honest block does not satisfy the reference model", name)
	}
	n := len(p.honest)
	// coinbase paying someone else (same height, other miner address, other nonce)
	cb2, err := c07Wrap(nd.CoinbaseTx(node.Key(9).Address, blk.Height, 0xF07CED+uint64(n)))
	if err != nil {
		return nil, err
	}
	f := c07Copy(p.honest)
	f[0] = cb2
	p.forged, p.fnames = append(p.forged, f), append(p.fnames, "coinbase-replaced")
	if n >= 2 {
		for _, pos := range []int{n - 1, 1 + r.Intn(n-1)} {
			f = c07Copy(p.honest)
			f[pos] = foreign[r.Intn(len(foreign))]
			p.forged, p.fnames = append(p.forged, f), append(p.fnames, fmt.Sprintf("tx%d-of-%d-replaced", pos, n))
		}
	}
	for i, f := range p.forged {
		if c07Why(p.root, f) == "" {
			return nil, fmt.Errorf("pair %s: forged body %s satisfies the model", name, p.fnames[i])
		}
	}
	return p, nil
}

func c07Concurrent(c *kit.Ctx, nd *node.Node, r *rand.Rand, lists [][]*c07Tx, hdrs [][]byte, foreign []*c07Tx) {
	// ---- pairs over a range of tx counts ----
	var pairs []*c07Pair
	sizes := []int{2, 5, 17, 64, 150, 400}
	if c.Quick() {
		sizes = []int{2, 7, 40, 150, 400}
	}
	for _, n := range sizes {
		blk, err := c07SyntheticBlock(nd, r, n)
		if err != nil {
			c.Inconclusive("concurrent family: synthetic block of %d txs: %v", n, err)
			return
		}
		p, err := c07MakePair(nd, r, fmt.Sprintf("synthetic-%d", n), blk, foreign)
		if err != nil {
			c.Inconclusive("concurrent family: %v", err)
			return
		}
		pairs = append(pairs, p)
	}
	// the real (context-valid) honest block of the largest width as well
	{
		w := len(lists) - 1
		blk, err := c07Block(hdrs[w], lists[w])
		if err == nil {
			if p, err := c07MakePair(nd, r, fmt.Sprintf("real-%d", w), blk, foreign); err == nil {
				pairs = append(pairs, p)
			}
		}
	}
	// bodies under ANOTHER block's header: H_i's body with H_j's header
	type cross struct {
		hdr  []byte
		body []*c07Tx
		name string
	}
	var crosses []cross
	for i := range pairs {
		j := (i + 1) % len(pairs)
		if c07Why(pairs[j].root, pairs[i].honest) != "" {
			crosses = append(crosses, cross{pairs[j].hdr, pairs[i].honest, fmt.Sprintf("%s-body-under-%s-header", pairs[i].name, pairs[j].name)})
		}
	}

	// ---- sequential control: the reference verdicts are the node's verdicts when nothing overlaps ----
	for _, p := range pairs {
		hb, err := c07Block(p.hdr, p.honest)
		if err != nil {
			c.Inconclusive("concurrent family: %s does not deserialize: %v", p.name, err)
			return
		}
		if err := nd.Chain.CheckBlockSanity(hb); err != nil {
			c.Violate("valid-block-rejected:concurrent-family-control", fmt.Sprintf("%s checked alone is rejected: %v", p.name, err), nil)
			return
		}
		for i, f := range p.forged {
			fb, err := c07Block(p.hdr, f)
			if err != nil {
				continue
			}
			if nd.Chain.CheckBlockSanity(fb) == nil {
				c.Violate("block-accepted-despite:"+c07Why(p.root, f), fmt.Sprintf("%s/%s checked alone is accepted", p.name, p.fnames[i]), nil)
				return
			}
			c.Inc("conc_sequential_controls")
		}
	}

	// ---- concurrent rounds ----
	const workers = 6
	rounds := c.N(120, 600)
	calls := 6
	var inflight, maxInflight int64
	var forgedAccepted, honestRejected int64
	for round := 0; round < rounds; round++ {
		p := pairs[round%len(pairs)]
		if round%3 == 0 { // bias to the big blocks: widest windows
			p = pairs[len(pairs)-2-(round/3)%2]
		}
		fi := round % len(p.forged)
		if round%2 == 0 {
			fi = 0
		}
		var cr *cross
		if len(crosses) > 0 {
			cr = &crosses[round%len(crosses)]
		}
		c.Begin("concurrent round %d pair %s forged %s", round, p.name, p.fnames[fi])
		var overlap int32
		start := make(chan struct{})
		var wg sync.WaitGroup
		for g := 0; g < workers; g++ {
			g := g
			// every worker owns its block objects
			var blk *types.Block
			var err error
			role := ""
			expectAccept := false
			why := ""
			switch g {
			case 0, 1:
				blk, err = c07Block(p.hdr, p.honest)
				role, expectAccept = "honest:direct", true
			case 2:
				blk, err = c07Block(p.hdr, p.forged[fi])
				role, why = "forged:direct", c07Why(p.root, p.forged[fi])
			case 3:
				blk, err = c07Block(p.hdr, p.forged[fi])
				role, why = "forged:blockpool", c07Why(p.root, p.forged[fi])
			case 4:
				blk, err = c07Block(p.hdr, p.forged[fi])
				role, why = "forged:processblock", c07Why(p.root, p.forged[fi])
			default:
				if cr != nil {
					blk, err = c07Block(cr.hdr, cr.body)
					role, why = "forged:direct:other-header", "merkle-root-mismatch"
				} else {
					blk, err = c07Block(p.hdr, p.forged[fi])
					role, why = "forged:direct", c07Why(p.root, p.forged[fi])
				}
			}
			if err != nil || blk == nil {
				continue
			}
			wg.Add(1)
			go func() {
				defer wg.Done()
				<-start
				for k := 0; k < calls; k++ {
					cur := atomic.AddInt64(&inflight, 1)
					if cur > 1 {
						atomic.StoreInt32(&overlap, 1)
					}
					for {
						m := atomic.LoadInt64(&maxInflight)
						if cur <= m || atomic.CompareAndSwapInt64(&maxInflight, m, cur) {
							break
						}
					}
					var cerr error
					switch {
					case role == "forged:blockpool":
						_, _, cerr = nd.BlockPool.AppendDposBlock(&types.DposBlock{Block: blk})
					case role == "forged:processblock":
						_, _, cerr = nd.Chain.ProcessBlock(blk, nil)
					default:
						cerr = nd.Chain.CheckBlockSanity(blk)
					}
					atomic.AddInt64(&inflight, -1)
					c.Inc("concurrent_sanity_calls")
					c.Inc("conc_calls:" + role)
					accepted := cerr == nil
					switch {
					case expectAccept && accepted:
						c.Inc("honest_accepted_concurrently")
					case expectAccept && !accepted:
						if atomic.AddInt64(&honestRejected, 1) <= 2 {
							c.Violate("valid-block-rejected:under-concurrent-checks", fmt.Sprintf("round %d: the honest block %s (%d txs) is rejected by CheckBlockSanity while other blocks are being checked on the same BlockChain: %v (checked alone it is accepted)", round, p.name, len(p.honest), cerr),
								map[string]interface{}{"pair": p.name, "txs": len(p.honest), "role": role})
						}
					case !expectAccept && accepted:
						if atomic.AddInt64(&forgedAccepted, 1) <= 2 {
							c.Violate("block-accepted-despite:"+why+":under-concurrent-checks", fmt.Sprintf("round %d: entry %s accepts a block whose body (%s of pair %s, %d txs) does not hash to its header's merkle root, while the honest block is being checked on the same BlockChain (checked alone it is rejected)", round, role, p.fnames[fi], p.name, len(blk.Transactions)),
								map[string]interface{}{"pair": p.name, "forged": p.fnames[fi], "role": role, "txs": len(blk.Transactions)})
						}
					default:
						c.Inc("forged_rejected_concurrently")
					}
				}
			}()
		}
		close(start)
		wg.Wait()
		c.Case(fmt.Sprintf("conc:%s:%s:%d", p.name, p.fnames[fi], round), true)
		c.Inc("concurrent_rounds")
		if overlap == 1 {
			c.Inc("concurrent_rounds_with_overlap")
		}
	}
	c.Max("max:concurrent_calls_in_flight", maxInflight)
	c.Count("concurrent_forged_accepted", forgedAccepted)
	c.Count("concurrent_honest_rejected", honestRejected)
}

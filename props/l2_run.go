package props

import (
	"bytes"
	"encoding/json"
	"fmt"
	"math/rand"
	"os"
	"path/filepath"
	"time"

	"github.com/elastos/Elastos.ELA/dpos/state"

	"verif/kit"
	"verif/kit/node"
)

// ---------------------------------------------------------------------------
// Parent side of the Level-2 twin workload: run one scenario (builder, linear
// twin B, reorganising node A - three separate processes) and hand the
// observation streams to the property-specific comparators.
// ---------------------------------------------------------------------------

type l2Spec struct {
	Era        string
	Seed       int64
	Long       uint32 // != 0: quiet chain to this height with NeedSave (checkpoint save boundary)
	NeedSave   bool
	DutyPeriod uint32
	Evidence   bool
	SnapDPoS   bool
	SnapCR     bool
	Decisions  bool
	NoA        bool   // C24: no reorganising node
	From       uint32 // first fork point of node A (0 = CRVotingStartHeight+1, l2FromV2Active = shortly before DPoS v2 activation)
	Trace      bool
	Profile    int // 1 = committee-focused losing branches
}

const l2FromV2Active = ^uint32(0)

// l2FromFor spreads the first fork point over the eras.
func l2FromFor(era string, k int) uint32 {
	e := node.EraOf(era)
	opts := []uint32{0, e.CRClaimDPOSNodeStart + 2, e.ChangeCommitteeNewCR + 3, e.VoteStart + 1, e.ChangeCommitteeNewCR + 20, e.CRCommitteeStart + 2}
	if era == "dposv2-era" {
		opts = []uint32{e.DPoSV2Start - 4, 0, l2FromV2Active, e.ChangeCommitteeNewCR + 3, l2FromV2Active, e.VoteStart + 1, e.CRClaimDPOSNodeStart + 2, e.DPoSV2Start + 8}
	}
	return opts[k%len(opts)]
}

type l2Outcome struct {
	Spec   l2Spec
	Dir    string
	Record string
	Build  *l2Result
	B      *l2Result
	A      *l2Result
	Reorgs []l2Reorg
	SBuild []*l2Snap
	SB     []*l2Snap
	SA     []*l2Snap
}

func (o *l2Outcome) cleanup() { os.RemoveAll(o.Dir) }

func l2MergeCounters(c *kit.Ctx, prefix string, r *l2Result) {
	if r == nil {
		return
	}
	for k, v := range r.Counters {
		c.Count(prefix+k, v)
	}
}

// l2PlanReorgs draws the fork points of node A for a canonical chain of n blocks.
func l2PlanReorgs(r *rand.Rand, e *node.Era, n uint32, long uint32, from uint32) []l2Reorg {
	var out []l2Reorg
	if long != 0 {
		// one reorganisation across the save height 720: fork below it, tip above it
		d := 2 + r.Intn(4)
		top := uint32(720 + 1 + r.Intn(2)) // losing tip height
		at := top - uint32(d)
		if at >= 720 {
			at = 719
			d = int(top - at)
		}
		return []l2Reorg{{At: at, Depth: d, Seed: r.Int63(), Offline: r.Intn(2)}}
	}
	// A rollback below CRVotingStartHeight resets the committee's function table
	// (see "l2:rollback-panic"), and the divergences of an early reorganisation
	// often leave node A unable to follow the recorded chain at all: the first
	// fork point is therefore chosen per scenario, so that every era is reached.
	h := from + uint32(r.Intn(6))
	if h < e.VoteStart+1 {
		h = e.VoteStart + 1
	}
	for {
		d := []int{1, 1, 2, 2, 3, 3, 4, 4, 5, 5, 6}[r.Intn(11)]
		if h+uint32(d) >= e.RevertToPOWStart-1 && d > 5 {
			d = 5
		}
		if h+uint32(d)+2 > n {
			break
		}
		off := 0
		if h > e.PublicDPOS+1 {
			off = []int{0, 0, 1, 1, 2}[r.Intn(5)]
		}
		out = append(out, l2Reorg{At: h, Depth: d, Seed: r.Int63(), Offline: off})
		h += uint32(d) + 2 + uint32(r.Intn(9))
	}
	return out
}

// l2RunScenario runs builder, B and A. The returned outcome owns a directory
// under c.WorkDir (cleanup()).
func l2RunScenario(c *kit.Ctx, tag string, sp l2Spec) (*l2Outcome, error) {
	dir := filepath.Join(c.WorkDir, "l2-"+tag)
	os.MkdirAll(dir, 0755)
	o := &l2Outcome{Spec: sp, Dir: dir, Record: filepath.Join(dir, "chain.rec")}
	base := l2Params{Era: sp.Era, Seed: sp.Seed, Record: o.Record, NeedSave: sp.NeedSave, DutyPeriod: sp.DutyPeriod, Long: sp.Long,
		SnapDPoS: sp.SnapDPoS, SnapCR: sp.SnapCR, Decisions: sp.Decisions, MaxProcs: 3}
	if sp.Long != 0 {
		base.SnapFrom = 700
	}
	mk := func(role, name string) *l2Params {
		p := base
		p.Role, p.Name = role, name
		p.Dir = filepath.Join(dir, name)
		p.Out = filepath.Join(dir, name+".json")
		p.Snap = filepath.Join(dir, name+".snap")
		return &p
	}
	timeout := 240 * time.Second
	if !c.Quick() {
		timeout = 600 * time.Second
	}
	pb := mk("build", "builder")
	if sp.Trace {
		pb.Trace = filepath.Join(dir, "builder.trace")
	}
	var err error
	if o.Build, err = l2Spawn(pb, timeout)(); err != nil {
		return o, err
	}
	if !o.Build.Done {
		return o, fmt.Errorf("builder: %s", o.Build.Err)
	}
	os.RemoveAll(pb.Dir)
	rr := rand.New(rand.NewSource(sp.Seed ^ 0x7e0a6))
	from := sp.From
	if from == 0 {
		from = node.EraOf(sp.Era).CRVotingStart + 1
	}
	if from == l2FromV2Active {
		from = node.EraOf(sp.Era).ChangeCommitteeNewCR + 3
		if o.Build.V2Active > 6 {
			from = o.Build.V2Active - 6
		}
	}
	o.Reorgs = l2PlanReorgs(rr, node.EraOf(sp.Era), o.Build.Height, sp.Long, from)
	pB := mk("replay", "twinB")
	pA := mk("replay", "nodeA")
	pA.Reorgs = o.Reorgs
	pA.Profile = sp.Profile
	if sp.Profile == 1 {
		for i := range pA.Reorgs {
			pA.Reorgs[i].Offline = 0
		}
	}
	pA.Evidence = sp.Evidence
	waitB := l2Spawn(pB, timeout)
	var waitA func() (*l2Result, error)
	if !sp.NoA {
		waitA = l2Spawn(pA, timeout)
	}
	o.B, err = waitB()
	var errA error
	if waitA != nil {
		o.A, errA = waitA()
	}
	os.RemoveAll(pB.Dir)
	os.RemoveAll(pA.Dir)
	if err != nil {
		return o, err
	}
	if errA != nil {
		return o, errA
	}
	if !o.B.Done {
		return o, fmt.Errorf("twin B: %s", o.B.Err)
	}
	if o.SBuild, err = l2ReadSnaps(pb.Snap); err != nil {
		return o, err
	}
	if o.SB, err = l2ReadSnaps(pB.Snap); err != nil {
		return o, err
	}
	if o.A != nil {
		if o.SA, err = l2ReadSnaps(pA.Snap); err != nil {
			return o, err
		}
	}
	return o, nil
}

// ---------- DPoS snapshot decoding / comparison ----------

func l2DecodeDPoS(s *l2Snap) (*c21Snap, error) {
	cp := &state.CheckPoint{}
	if err := cp.Deserialize(bytes.NewReader(s.DPoS)); err != nil {
		return nil, fmt.Errorf("dpos checkpoint at %d does not deserialize: %v", s.Height, err)
	}
	var ex l2Extra
	if err := json.Unmarshal(s.Extra, &ex); err != nil {
		return nil, err
	}
	return &c21Snap{CheckPoint: cp, LastIrreversibleHeight: ex.LastIrreversibleHeight, ConsensusAlgorithm: ex.ConsensusAlgorithm,
		Degradation: ex.Degradation, HistoryHeight: ex.HistoryHeight, CRMember: ex.CRMember}, nil
}

// l2CanonIndex: 'S' snapshots of a linear node by height.
func l2LinearIndex(ss []*l2Snap) map[uint32]*l2Snap {
	m := map[uint32]*l2Snap{}
	for _, s := range ss {
		if s.Event == 'S' {
			m[s.Height] = s
		}
	}
	return m
}

// l2CompareDPoS is c21Compare with one more normalisation, needed because the
// walker compares slices position by position: when two arbiter lists differ
// in MEMBERSHIP or ORDER, that is one divergence ("CheckPoint.<List>"), not one
// per field of every shifted member. Lists with the same key sequence are
// still compared member by member.
func l2CompareDPoS(a, b *c21Snap) []c21Diff {
	var extra []c21Diff
	ca, cb := *a.CheckPoint, *b.CheckPoint
	seq := func(l []state.ArbiterMember) string {
		s := ""
		for _, m := range l {
			s += fmt.Sprintf("%x/%d ", m.GetNodePublicKey()[:min(5, len(m.GetNodePublicKey()))], m.GetType())
		}
		return s
	}
	for _, f := range []struct {
		name string
		x, y *[]state.ArbiterMember
	}{{"LastArbitrators", &ca.LastArbitrators, &cb.LastArbitrators}, {"CurrentArbitrators", &ca.CurrentArbitrators, &cb.CurrentArbitrators},
		{"NextArbitrators", &ca.NextArbitrators, &cb.NextArbitrators}, {"NextCandidates", &ca.NextCandidates, &cb.NextCandidates},
		{"CurrentCandidates", &ca.CurrentCandidates, &cb.CurrentCandidates}, {"NextCRCArbiters", &ca.NextCRCArbiters, &cb.NextCRCArbiters}} {
		if sx, sy := seq(*f.x), seq(*f.y); sx != sy {
			extra = append(extra, c21Diff{Class: "CheckPoint." + f.name, Path: "CheckPoint." + f.name + ".members", A: sx, B: sy})
			*f.x, *f.y = nil, nil
		}
	}
	x, y := *a, *b
	x.CheckPoint, y.CheckPoint = &ca, &cb
	return append(extra, c21Compare(&x, &y)...)
}

func nodeEra(name string) *node.Era { return node.EraOf(name) }

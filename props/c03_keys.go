package props

import (
	"crypto/elliptic"
	"fmt"
	"math/big"

	"github.com/elastos/Elastos.ELA/blockchain"
	"github.com/elastos/Elastos.ELA/common"
	"github.com/elastos/Elastos.ELA/core/contract"
	pg "github.com/elastos/Elastos.ELA/core/contract/program"
	"github.com/elastos/Elastos.ELA/crypto"
)

// ---------------------------------------------------------------------------
// C03: hostile public keys. The key decoders (crypto.Unmarshal for Schnorr,
// crypto.DecodePoint for standard / multisig / cross-chain) solve the curve
// equation for y modulo P but take x as it comes, so the interesting inputs
// are the NON-CANONICAL field elements x in [P, 2^256): about half of them
// "decompress" to a non-nil (x, y) that is not a point of the curve, and
// whatever consumes it afterwards must still reject instead of panicking.
// The generator only uses math/big and the curve constants (no repo code).
// ---------------------------------------------------------------------------

type c03HostileKey struct {
	Class string // stable label (goes into counters / witnesses, not signatures)
	Key   []byte // 33 bytes
}

var (
	c03P    = elliptic.P256().Params().P
	c03B    = elliptic.P256().Params().B
	c03N    = elliptic.P256().Params().N
	c03Two  = new(big.Int).Lsh(big.NewInt(1), 256)
	c03Span = new(big.Int).Sub(c03Two, c03P) // number of non-canonical 256-bit x values
)

// c03Residue says whether x^3 - 3x + b is a square modulo P (x taken mod P in
// the cube only matters not: every term is reduced mod P in the end).
func c03Residue(x *big.Int) bool {
	y2 := new(big.Int).Exp(x, big.NewInt(3), c03P)
	y2.Sub(y2, new(big.Int).Mul(big.NewInt(3), x))
	y2.Add(y2, c03B)
	y2.Mod(y2, c03P)
	return y2.Sign() == 0 || big.Jacobi(y2, c03P) == 1
}

func c03Key33(prefix byte, x *big.Int) []byte {
	k := make([]byte, 33)
	k[0] = prefix
	b := x.Bytes()
	copy(k[33-len(b):], b)
	return k
}

// nonCanonical draws x in [P, 2^256) with the requested decompressibility.
func (g *c03Gen) nonCanonical(residue bool) *big.Int {
	for {
		x := new(big.Int).Rand(g.r, c03Span)
		if g.r.Intn(3) == 0 { // near the lower edge: P + small
			x = big.NewInt(int64(g.r.Intn(1 << 16)))
		}
		x.Add(x, c03P)
		if c03Residue(x) == residue {
			return x
		}
	}
}

// offCurve draws a canonical x < P for which no y exists.
func (g *c03Gen) offCurve() *big.Int {
	for {
		x := new(big.Int).Rand(g.r, c03P)
		if !c03Residue(x) {
			return x
		}
	}
}

// hostileKeys is the directed list: every class appears in every shard.
func (g *c03Gen) hostileKeys() []c03HostileKey {
	var ks []c03HostileKey
	add := func(class string, prefix byte, x *big.Int) {
		ks = append(ks, c03HostileKey{class, c03Key33(prefix, x)})
	}
	max := new(big.Int).Sub(c03Two, big.NewInt(1))
	for _, pf := range []byte{2, 3} {
		add("x=P", pf, c03P)
		add("x=P+1", pf, new(big.Int).Add(c03P, big.NewInt(1)))
		add("x=2^256-1", pf, max)
		add("x=0", pf, big.NewInt(0))
		add("x=P-1", pf, new(big.Int).Sub(c03P, big.NewInt(1)))
		for k := 0; k < 4; k++ {
			add("x>=P,decompressible", pf, g.nonCanonical(true))
		}
		for k := 0; k < 2; k++ {
			add("x>=P,no-root", pf, g.nonCanonical(false))
			add("x<P,off-curve", pf, g.offCurve())
		}
	}
	good := new(big.Int).SetBytes(g.pubs[3][1:])
	for _, pf := range []byte{0x00, 0x04, 0x05, 0x06, 0x07, 0xff} {
		add(fmt.Sprintf("prefix=%02x", pf), pf, good)
		add(fmt.Sprintf("prefix=%02x,x>=P", pf), pf, g.nonCanonical(true))
	}
	// first decompressible non-canonical values above P (deterministic, seed independent)
	x := new(big.Int).Set(c03P)
	for n := 0; n < 3; {
		x.Add(x, big.NewInt(1))
		if c03Residue(x) {
			add("x=P+k,first-decompressible", 2, x)
			add("x=P+k,first-decompressible", 3, x)
			n++
		}
	}
	return ks
}

// hostileKey is the random-draw variant used inside key().
func (g *c03Gen) hostileKey() []byte {
	pf := byte(2 + g.r.Intn(2))
	switch g.r.Intn(6) {
	case 0:
		return c03Key33(pf, g.nonCanonical(false))
	case 1:
		return c03Key33(pf, g.offCurve())
	case 2:
		return c03Key33(pf, c03P)
	default:
		return c03Key33(pf, g.nonCanonical(true))
	}
}

// sig64 is a 64-byte Schnorr / ECDSA signature body with r < P and s < N, so
// the verifiers get past their range checks and really use the key.
func (g *c03Gen) sig64() []byte {
	s := g.rbytes(64)
	if g.r.Intn(4) > 0 {
		s[0] &= 0x7f
		s[32] &= 0x7f
	}
	if new(big.Int).SetBytes(s[32:]).Cmp(c03N) >= 0 {
		s[32] = 0
	}
	return s
}

func c03SchnorrCode(key []byte) []byte { return append([]byte{0x51, 33}, key...) }

// partAKeys: every hostile key through every verifier, at function level.
func (x *c03Run) partAKeys() {
	c, g := x.c, x.g
	other := g.pubs[5]
	data := g.rbytes(60)
	for rep := 0; rep < c.N(2, 20); rep++ {
		for ki, hk := range g.hostileKeys() {
			key, class := hk.Key, hk.Class
			if class == "x>=P,decompressible" || class == "x=P+k,first-decompressible" {
				c.Inc("A_hostile_noncanonical_decompressible_keys")
			}
			sig := g.sig64()
			param65 := append([]byte{0x40}, sig...)
			type tc struct {
				name   string
				code   []byte
				param  []byte
				prefix byte
			}
			sch := c03SchnorrCode(key)
			std := append(append([]byte{33}, key...), 0xac)
			ms := append(append(append(append([]byte{0x51, 33}, key...), 33), other...), 0x52, 0xae)
			ms2 := append(append(append(append([]byte{0x51, 33}, other...), 33), key...), 0x52, 0xae)
			cc := append(append([]byte{}, ms[:len(ms)-1]...), 0xaf)
			cases := []tc{
				{"schnorr@standard", sch, sig, byte(contract.PrefixStandard)},
				{"schnorr@deposit", sch, sig, byte(contract.PrefixDeposit)},
				{"schnorr@crosschain", sch, sig, byte(contract.PrefixCrossChain)},
				{"schnorr+65@standard", sch, param65, byte(contract.PrefixStandard)},
				{"standard@standard", std, param65, byte(contract.PrefixStandard)},
				{"standard@deposit", std, param65, byte(contract.PrefixDeposit)},
				{"multisig@multisig", ms, param65, byte(contract.PrefixMultiSig)},
				{"multisig2@multisig", ms2, append(append([]byte{}, param65...), param65...), byte(contract.PrefixMultiSig)},
				{"multisig@standard", ms, param65, byte(contract.PrefixStandard)},
				{"crosschain@crosschain", cc, param65, byte(contract.PrefixCrossChain)},
			}
			for _, t := range cases {
				t := t
				prog := &pg.Program{Code: t.code, Parameter: t.param}
				ph := c03ProgramHash(t.prefix, t.code)
				id := fmt.Sprintf("AK:%s:%s:%s", t.name, hx(key), hx(t.param))
				obj := func() map[string]interface{} {
					return map[string]interface{}{"template": t.name, "key_class": class, "key_hex": hx(key), "code_hex": hx(t.code),
						"param_hex": hx(t.param), "program_hash": hx(ph[:]), "data_hex": hx(data)}
				}
				c.Case(id, true)
				c.Inc("A_hostile_key_runprograms_calls")
				var err error
				p := x.call("blockchain.RunPrograms", id, obj, func() {
					err = blockchain.RunPrograms(data, []common.Uint168{ph}, []*pg.Program{prog})
				})
				if !p && err != nil { // the verdict itself is not judged by C03, only counted
					c.Inc("A_hostile_key_rejected")
				} else if !p {
					c.Inc("A_hostile_key_accepted")
				}
			}
			// the verifiers the other callers use directly (payload signatures, mapping outputs ...)
			id := fmt.Sprintf("AK:direct:%s", hx(key))
			obj := func() map[string]interface{} {
				return map[string]interface{}{"key_class": class, "key_hex": hx(key)}
			}
			x.call("crypto.CheckMultiSigSignatures", id, obj, func() {
				crypto.CheckMultiSigSignatures(pg.Program{Code: ms, Parameter: param65}, data)
			})
			x.call("blockchain.CheckStandardSignature", id, obj, func() {
				blockchain.CheckStandardSignature(pg.Program{Code: std, Parameter: param65}, data)
			})
			x.call("crypto.VerifyMultisigSignatures", id, obj, func() {
				crypto.VerifyMultisigSignatures(1, 2, [][]byte{append([]byte{33}, key...), append([]byte{33}, other...)}, param65, data)
			})
			if rep == 0 && ki < 2 {
				c.Sample(map[string]interface{}{"kind": "A-hostile-key", "key_class": class, "key_hex": hx(key)})
			}
		}
	}
}

package props

import (
	"encoding/json"
	"fmt"
	"os"
	"os/exec"
	"path/filepath"
	"strconv"
	"strings"
	"time"

	"verif/kit"
	"verif/kit/node"
)

// ---------------------------------------------------------------------------
// C12 around the era boundary CRCOnlyDPOSHeight.
//
// State.IsIrreversible is the only exception the property allows ("unless
// switching would detach a block at or below the last irreversible height").
// In the code it is gated by the era: for best heights <= CRCOnlyDPOSHeight
// nothing is irreversible and a strictly heavier valid branch must be followed
// however deep the fork is; above it a reorganisation detaching more than 6
// blocks is refused. The random trees of c12.go run far below the regnet value
// (211000), so this file places fork scenarios exactly ON the boundary: nodes
// of their own (sub-processes, one node per process) with CRCOnlyDPOSHeight
// lowered to B in 18..30, and a scripted sequence of strictly heavier valid
// branches of depth 1..12 arriving while the tip is at B-1, then B, then B+1.
// The oracle is the unchanged C12 oracle (c12H.deliverOne/afterDelivery: the
// tip must be the max-work fully valid delivered chain, height index, best
// node, store height, UTXO index, ledger replay). Judged cases are restricted
// to tips <= B (any depth) and tips above B with depth <= 6 (the guard does not
// apply either); a final, unjudged control delivers a >6-deep heavier branch
// above B and only counts what the node does (C30 territory).
// ---------------------------------------------------------------------------

type c12BoundaryJob struct {
	Seq int    `json:"seq"`
	Cfg c12Cfg `json:"cfg"`
	D   [4]int `json:"depths"` // fork depth with the tip at B-1, B, B+1 (<=6) and for the control (>6)
}

// boundaryRuns spawns the era-boundary sub-runs of this shard and merges what
// they observed into this shard's context.
func (h *c12H) boundaryRuns() {
	c := h.c
	per := c.N(2, 6)
	for j := 0; j < per && !h.stuck; j++ {
		g := c.Shard*per + j // global index of the sub-run: the depth schedule below covers 1..12 at every tip position
		r := c.Rand(fmt.Sprintf("c12-boundary-%d", j))
		job := c12BoundaryJob{Seq: j, Cfg: c12Cfg{Maturity: h.maturity, CRCOnly: uint32(18 + r.Intn(13))}}
		s := int(c.Seed % 12)
		if s < 0 {
			s = -s
		}
		// even sub-runs meet the boundary height with a fork deeper than 6, odd ones with a shallow one;
		// the tip at B-1 gets the opposite class, so every quick run has deep forks at both positions.
		deep := 7 + (g/2+s)%6
		shallow := 1 + (g/2+s)%6
		if g%2 == 0 {
			job.D[0], job.D[1] = shallow, deep
		} else {
			job.D[0], job.D[1] = deep, shallow
		}
		job.D[2] = 1 + r.Intn(6)
		job.D[3] = 7 + r.Intn(6)
		if c.Shard%2 == 1 {
			job.Cfg.VoteStart = 6
		}
		h.spawnBoundary(job)
	}
}

func (h *c12H) spawnBoundary(job c12BoundaryJob) {
	c := h.c
	dir := filepath.Join(c.WorkDir, fmt.Sprintf("boundary%03d", job.Seq))
	if err := os.MkdirAll(dir, 0755); err != nil {
		c.Inconclusive("boundary sub-run: %v", err)
		return
	}
	defer os.RemoveAll(dir)
	jb, _ := json.Marshal(&job)
	jobPath := filepath.Join(dir, "job.json")
	if err := os.WriteFile(jobPath, jb, 0644); err != nil {
		c.Inconclusive("boundary sub-run: %v", err)
		return
	}
	self, err := os.Executable()
	if err != nil {
		c.Inconclusive("boundary sub-run: %v", err)
		return
	}
	cmd := exec.Command(self, "--child", c.Prop, c.Tier, strconv.FormatInt(c.Seed, 10),
		strconv.Itoa(c.Shard), strconv.Itoa(c.Shards), dir)
	cmd.Env = append(os.Environ(), "VERIF_C12_BOUNDARY="+jobPath)
	if err := cmd.Start(); err != nil {
		c.Inconclusive("boundary sub-run: %v", err)
		return
	}
	done := make(chan error, 1)
	go func() { done <- cmd.Wait() }()
	select {
	case err = <-done:
	case <-time.After(240 * time.Second): // watchdog: inconclusive, never a verdict
		cmd.Process.Kill()
		<-done
		c.Inconclusive("boundary sub-run %d: watchdog", job.Seq)
		return
	}
	var res kit.Result
	raw, rerr := os.ReadFile(filepath.Join(dir, "result.json"))
	if rerr == nil {
		rerr = json.Unmarshal(raw, &res)
	}
	if err != nil || rerr != nil || !res.Done {
		c.Inconclusive("boundary sub-run %d (%s) died: %v %v", job.Seq, job.Cfg, err, rerr)
		return
	}
	for k, v := range res.Counters {
		switch {
		case k == "evaluations" || k == "violations_observed":
		case strings.HasPrefix(k, "max:"):
			c.Max(k, v)
		default:
			c.Count(k, v)
		}
	}
	for _, v := range res.Violations {
		c.Violate(v.Sig, v.Detail, v.Case)
	}
	for _, n := range res.Notes {
		c.Note("boundary %d: %s", job.Seq, n)
	}
	for _, s := range res.Inconcl {
		c.Inconclusive("boundary sub-run %d: %s", job.Seq, s)
	}
	c.Inc("boundary_runs")
	c.Case(fmt.Sprintf("boundary:%d:%v:%d:%d", job.Cfg.CRCOnly, job.D, c.Shard, job.Seq), res.Counters["boundary_steps_judged"] > 0)
}

// runC12Boundary runs inside the sub-process: one node whose CRCOnlyDPOSHeight
// is B, the tip walked to B-1, then forks at B-1, B, B+1.
func runC12Boundary(c *kit.Ctx, jobPath string) {
	var job c12BoundaryJob
	raw, err := os.ReadFile(jobPath)
	if err == nil {
		err = json.Unmarshal(raw, &job)
	}
	if err != nil {
		c.Inconclusive("job: %v", err)
		return
	}
	B := job.Cfg.CRCOnly
	h := &c12H{c: c, r: c.Rand(fmt.Sprintf("c12-boundary-run-%d", job.Seq)), m: newC12Model(),
		maturity: job.Cfg.Maturity, cfg: job.Cfg, maxBlocks: 40}
	nd, err := node.Start(c12Options(c.WorkDir, h.cfg))
	if err != nil {
		c.Inconclusive("node start: %v", err)
		return
	}
	defer nd.Close()
	h.nd = nd
	// funding block is at height maturity+2; walk the tip to B-1
	fund := int(h.maturity) + 2
	if !h.bootstrap(int(B) - 1 - fund) {
		return
	}
	if h.tipBlk.height != B-1 || nd.Cfg.CRCOnlyDPOSHeight != B {
		c.Inconclusive("boundary setup: tip %d, CRCOnlyDPOSHeight %d, wanted tip %d", h.tipBlk.height, nd.Cfg.CRCOnlyDPOSHeight, B-1)
		return
	}
	for step := 0; step < 3 && !h.stuck; step++ {
		if !h.boundaryStep(step, job.D[step], B) {
			return
		}
	}
	if !h.stuck {
		h.boundaryControl(job.D[3], B)
	}
}

func c12TipPos(tip, B uint32) string {
	switch {
	case tip == B:
		return "crconly_height"
	case tip+1 == B:
		return "crconly_height_minus_1"
	case tip == B+1:
		return "crconly_height_plus_1"
	case tip < B:
		return "below_crconly_height"
	}
	return "above_crconly_height"
}

// boundaryStep delivers, with the tip where it is, a strictly heavier valid
// branch forking depth blocks below the tip (sometimes after an equal-work
// rival that must not be followed) and lets the generic oracle judge.
func (h *c12H) boundaryStep(step, depth int, B uint32) bool {
	c, r := h.c, h.r
	tip := h.tipBlk
	pos := c12TipPos(tip.height, B)
	if uint32(depth) > tip.height-h.minRoot {
		depth = int(tip.height - h.minRoot)
	}
	cls := "shallow"
	if depth > 6 {
		cls = "deep"
	}
	h.treeNo = step
	h.sigTag = fmt.Sprintf("%s-fork-tip-at-%s", cls, strings.ReplaceAll(pos, "_", "-"))
	h.nontrivial = false
	root := tip.ancestorAt(tip.height - uint32(depth))
	var tree []*c12Blk
	build := func(n int) *c12Blk {
		cur := root
		for i := 0; i < n; i++ {
			nb := h.mkBlock(cur, "", step)
			if nb == nil {
				return nil
			}
			tree = append(tree, nb)
			cur = nb
		}
		return cur
	}
	if r.Intn(3) == 0 {
		if build(depth) == nil { // equal-work rival
			return false
		}
		c.Inc("boundary_equal_work_rivals")
	}
	want := build(depth + 1) // strictly heavier by one block
	if want == nil {
		return false
	}
	order, mode := h.genOrder(tree)
	h.treeBlocks, h.order = tree, nil
	c.Inc("boundary_steps_judged")
	c.Inc(cls + "_fork_with_tip_at_" + pos)
	c.Inc("order:" + mode)
	c.Max("max:boundary_fork_depth", int64(depth))
	for _, i := range order {
		if h.stuck {
			break
		}
		h.order = append(h.order, tree[i].id)
		h.deliverOne(tree[i])
	}
	c.Case(fmt.Sprintf("boundary-step:%d:%s:%d:%v", B, pos, depth, h.order), true)
	if h.stuck {
		return false
	}
	if h.tipBlk != want {
		// the generic oracle has already reported whatever went wrong (and healing moved the tip on)
		c.Inc("boundary_steps_not_on_expected_tip")
		return false
	}
	c.Inc(cls + "_fork_adopted_with_tip_at_" + pos)
	if depth > 6 && tip.height <= B {
		c.Inc("deep_fork_depth_over_6_pow_era_adopted")
	}
	h.checkIndex(want, 0)
	h.compareUTXO(want)
	if step == 1 && c.Shard < 2 {
		// positive control: the chain that crossed the boundary is valid for a fresh node with the same parameters
		if ok, s := h.twinConfirm(want); !ok {
			c.Inconclusive("boundary: model and twin disagree: %s", s)
			h.stuck = true
			return false
		}
	}
	l := h.nd.Replay()
	c.Inc("ledger_replays")
	for _, is := range l.Issues {
		c.Violate("ledger:"+is.Kind, fmt.Sprintf("boundary step %d: height %d tx %s: %s", step, is.Height, is.TxID, is.Detail), h.witness(nil))
	}
	return true
}

// boundaryControl: above the boundary a strictly heavier branch detaching more
// than 6 blocks. Not judged here (the irreversibility rule is C30's); it shows
// that the lowered boundary is the one the node really uses.
func (h *c12H) boundaryControl(depth int, B uint32) {
	c := h.c
	tip := h.tipBlk
	if tip.height <= B || uint32(depth) > tip.height-h.minRoot {
		return
	}
	cur := tip.ancestorAt(tip.height - uint32(depth))
	var branch []*c12Blk
	for i := 0; i < depth+1; i++ {
		nb := h.mkBlock(cur, "", 99)
		if nb == nil {
			return
		}
		branch = append(branch, nb)
		cur = nb
	}
	for _, b := range branch {
		if p, _, _ := kit.Guard(func() { h.nd.Process(b.blk) }); p {
			c.Note("control: ProcessBlock panicked")
			return
		}
	}
	c.Inc("control_deep_fork_above_crconly_height")
	if h.nd.Tip() == cur.hash {
		c.Inc("control_deep_fork_above_crconly_height_adopted")
	} else if h.nd.Tip() == tip.hash {
		c.Inc("control_deep_fork_above_crconly_height_refused")
	} else {
		c.Inc("control_deep_fork_above_crconly_height_other")
	}
}

#!/usr/bin/env python3
"""compare a `go test -json` log with /root/.vp/BASELINE.json stable_pass list"""
import json, sys
base=json.load(open('/root/.vp/BASELINE.json'))
stable=set(base['stable_pass'])
res={}
for line in open(sys.argv[1]):
    try: e=json.loads(line)
    except Exception: continue
    if e.get('Action') in ('pass','fail','skip') and e.get('Test'):
        res[e['Package']+'::'+e['Test']]=e['Action']
missing=[t for t in stable if res.get(t)!='pass']
print("stable:",len(stable),"passed of stable:",len(stable)-len(missing))
for t in sorted(missing): print("NOT PASS:",t,res.get(t))
fails=[t for t,a in res.items() if a=='fail' and t not in stable]
print("other failures:",len(fails))
for t in sorted(fails): print("  fail (not in stable set):",t)
sys.exit(1 if missing else 0)

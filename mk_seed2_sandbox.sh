#!/bin/sh
# usage: mk_seed2_sandbox.sh <Cxx>  -> /tmp/s2-<Cxx>/repo (git worktree), property.json, TASK.md (second round: changes C and D)
set -e
id=$1; d=/tmp/s2-$id
rm -rf $d; mkdir -p $d
git -C /repo worktree prune
git -C /repo worktree add --detach $d/repo HEAD >/dev/null 2>&1
jq -c "select(.id==\"$id\")" /verif/properties.jsonl | jq . > $d/property.json
sed "s#/tmp/sd-@ID@#/tmp/s2-@ID@#g; s/@ID@/$id/g; s/(\"A\" and \"B\")/(\"C\" and \"D\")/; s/A and B/C and D/g; s/{A,B}/{C,D}/" /verif/SEED_PROMPT.txt > $d/TASK.md
{
echo
echo "Other people already produced changes for this property; yours must use DIFFERENT mechanisms and code sites than these:"
for x in A B; do [ -f /verif/seeded/$id-$x/meta.json ] && jq -r '" - " + .title' /verif/seeded/$id-$x/meta.json; done
echo "Name your two deliverable directories C and D (i.e. /tmp/s2-$id/C and /tmp/s2-$id/D)."
} >> $d/TASK.md
echo $d

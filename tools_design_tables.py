#!/usr/bin/env python3
"""Regenerates the auto-generated tables of DESIGN.md (between the AUTOGEN markers) from
known_findings.json and seeded/*/{meta,result}.json."""
import json, glob, os, re
f=json.load(open('/verif/known_findings.json'))
out=[]
out.append("### 8.4 Genuine defects found by the checks (generated from known_findings.json)\n")
out.append("**Repaired (`fix:` commits in /repo).** A fixed entry suppresses nothing: the check passes on the repaired tree and reports the violation again if it returns.\n")
out.append("| property | commit | what failed |\n|---|---|---|")
for l in f['fixed']:
    m=re.match(r"fixed: property=(C\d+) ([\w+]+) (.*)",l)
    if not m: continue
    out.append(f"| {m.group(1)} | `{m.group(2)}` | {m.group(3).replace('|','/')} |")
out.append("\n**Recorded, not repaired (known findings; each keyed by its exact violation signature, any other signature of the same property still prints `VIOLATION`).**\n")
out.append("| property | signature | what fails / why not repaired |\n|---|---|---|")
for k in f['findings']:
    out.append(f"| {k['property']} | `{k['signature']}` | {k['what'].replace('|','/')} |")
out.append("\n### 8.5 Seeded changes and which checks catch them (generated from /verif/seeded)\n")
out.append("Each change was written by a fresh sub-agent that saw only the property text and a scratch worktree; kept only after the patch applied, the repository built, the demonstration passed without and failed with the patch, and the touched packages' tests still passed (re-confirmed by `tools_seeded.py confirm` in a scratch worktree). `tools_seeded.py run` applies the patch to /repo, runs the quick check, and undoes it.\n")
out.append("| seeded id | property | change | needs to manifest | quick check verdict | signatures |\n|---|---|---|---|---|---|")
for d in sorted(glob.glob('/verif/seeded/*')):
    sid=os.path.basename(d)
    try: meta=json.load(open(d+'/meta.json'))
    except Exception: continue
    res=json.load(open(d+'/result.json')) if os.path.exists(d+'/result.json') else {}
    verd=[]; sigs=[]
    for p,r in res.items():
        verd.append(f"{p}: {'detected' if r.get('detected') else 'MISSED (exit %s)'%r.get('exit')}")
        sigs+= [s.replace('signature: ','') for s in r.get('signatures',[])][:3]
    t=lambda s,n: (s or '').replace('|','/').replace('\n',' ')[:n]
    out.append(f"| {sid} | {meta.get('property')} | {t(meta.get('title'),140)} | {t(meta.get('needs_to_manifest'),160)} | {'; '.join(verd) or 'not run yet'} | {', '.join('`'+s+'`' for s in sigs)} |")
txt="\n".join(out)+"\n"
s=open('/verif/DESIGN.md').read()
a="<!-- AUTOGEN:BEGIN -->"; b="<!-- AUTOGEN:END -->"
if a in s:
    s=s[:s.index(a)+len(a)]+"\n"+txt+s[s.index(b):]
else:
    s+= "\n"+a+"\n"+txt+b+"\n"
open('/verif/DESIGN.md','w').write(s)
print("ok",len(f['fixed']),len(f['findings']))

// vcheck runs one property check (parent) or one shard of it (child).
package main

import (
	"fmt"
	"os"

	"verif/kit"
	_ "verif/props"
)

func main() {
	args := os.Args[1:]
	if len(args) >= 1 && args[0] == "--child" {
		os.Exit(kit.ChildMain(args[1:]))
	}
	if len(args) >= 2 && args[0] == "--needs-race" {
		if s := kit.Lookup(args[1]); s != nil && s.Race {
			fmt.Println("yes")
		}
		return
	}
	if len(args) >= 1 && args[0] == "--list" {
		for _, id := range kit.IDs() {
			fmt.Println(id)
		}
		return
	}
	if len(args) < 1 {
		fmt.Fprintln(os.Stderr, "usage: vcheck <Cxx> [quick|thorough] [--replay file]")
		os.Exit(2)
	}
	prop := args[0]
	tier := os.Getenv("VERIF_TIER")
	replay := ""
	for i := 1; i < len(args); i++ {
		switch args[i] {
		case "quick", "thorough":
			tier = args[i]
		case "--replay":
			if i+1 < len(args) {
				replay = args[i+1]
				i++
			}
		}
	}
	if tier == "" {
		tier = "quick"
	}
	os.Exit(kit.ParentMain(prop, tier, replay))
}

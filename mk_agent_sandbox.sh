#!/bin/sh
# usage: mk_agent_sandbox.sh <name>   -> /tmp/ag-<name>/{verif,repo}
set -e
n=$1; d=/tmp/ag-$n
rm -rf $d; mkdir -p $d
git -C /repo worktree prune
git -C /repo worktree add --detach $d/repo HEAD >/dev/null 2>&1
mkdir -p $d/verif
rsync -a --exclude .git --exclude .work --exclude bin --exclude evidence --exclude replay --exclude seeded /verif/ $d/verif/
mkdir -p $d/verif/evidence $d/verif/replay
sed -i "s#=> /repo#=> $d/repo#" $d/verif/go.mod
echo "$d"

#!/usr/bin/env python3
"""Generates /verif/MANIFEST.json from manifest_table.json (one entry per claimed property)
and properties.jsonl (everything not claimed goes to not_applicable with its reason)."""
import json
props=[json.loads(l) for l in open('/verif/properties.jsonl')]
tab=json.load(open('/verif/manifest_table.json'))
checks=[]; na=[]
for p in props:
    i=p['id']
    e=tab['claimed'].get(i)
    if e:
        checks.append({
          "property_id": i,
          "quick_cmd": f"./check {i} quick",
          "thorough_cmd": f"./check {i} thorough",
          "evidence_file": f"/verif/evidence/{i}.json",
          "replay_cmd_template": f"./check {i} --replay {{path}}",
          "engine": "vcheck",
          "level_claimed": {"category": e.get("category","exploration"), "text": e["text"], "design_ref": e.get("design_ref", f"DESIGN.md §2 {i}")},
          "level_note": e["note"],
          "technique": e["technique"],
        })
    else:
        na.append({"property_id": i, "reason": tab['not_applicable'].get(i, "check not built yet in this session; no claim is made")})
m={
 "version":1,
 "setup_cmd":"./setup.sh",
 "hooks":{"guard":"verif","enable":"go build -tags verif (the ./check wrapper rebuilds bin/vcheck and, for race properties, bin/vcheck-race with -race -tags verif from /repo's working tree via the replace directive in /verif/go.mod)",
   "baseline_off_cmd":"cd /repo && GOFLAGS=-mod=mod GOPROXY=off GOSUMDB=off go test -json -vet=off -count=1 -timeout 25m ./...",
   "source_commits": tab.get("hook_commits",[]), "add_only": True},
 "engines":[{"name":"vcheck","path":"/verif/cmd/vcheck","serves_properties":[c["property_id"] for c in checks],
   "kind_free_text":"runtime monitoring: seeded hostile workloads drive the real code in isolated child processes (optionally -race); oracles = reference models, exact arithmetic, twin runs, recorded-history checkers; evidence reports what the monitors observed"}],
 "checks":checks,
 "notes":"Exit 0 = held on what was observed; exit 1 + VIOLATION line = unlisted violation; exit 2 = inconclusive/harness failure (never a VIOLATION line). Known findings: /verif/known_findings.json (read-only at run time).",
 "not_applicable":na,
}
json.dump(m,open('/verif/MANIFEST.json','w'),indent=1)
print("claimed",len(checks),"not_applicable",len(na))

#!/usr/bin/env python3
# validates MANIFEST.json and evidence/*.json against the schemas in /root/.vp
import json, sys, glob
import jsonschema
ok = True
def v(path, schema):
    global ok
    try:
        jsonschema.validate(json.load(open(path)), json.load(open(schema)))
        print("ok  ", path)
    except Exception as e:
        ok = False
        print("FAIL", path, str(e).splitlines()[0])
v("/verif/MANIFEST.json", "/root/.vp/MANIFEST.schema.json")
for p in sorted(glob.glob("/verif/evidence/*.json")):
    v(p, "/root/.vp/EVIDENCE.schema.json")
sys.exit(0 if ok else 1)

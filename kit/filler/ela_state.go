package filler

// Elastos.ELA type knowledge for the persisted state (checkpoints):
// dpos/state.CheckPoint, cr/state.Checkpoint, wallet.CoinsCheckPoint.

import (
	"bytes"
	"reflect"

	common2 "github.com/elastos/Elastos.ELA/core/types/common"
	"github.com/elastos/Elastos.ELA/core/types/outputpayload"
	crstate "github.com/elastos/Elastos.ELA/cr/state"
	dstate "github.com/elastos/Elastos.ELA/dpos/state"
	"github.com/elastos/Elastos.ELA/wallet"
)

func init() {
	PkgAlias["github.com/elastos/Elastos.ELA/cr/state"] = "crstate"
	PkgAlias["github.com/elastos/Elastos.ELA/dpos/state"] = "dstate"
	PkgAlias["github.com/elastos/Elastos.ELA/dpos/p2p/msg"] = "dmsg"
}

// ArbiterTypes returns the concrete (pointer) types behind
// dpos/state.ArbiterMember. They are unexported; instances are obtained from
// the package's own factory by decoding an all-zero body for each type byte.
func ArbiterTypes() []reflect.Type {
	var out []reflect.Type
	seen := map[reflect.Type]bool{}
	for _, tb := range []byte{byte(dstate.Origin), byte(dstate.DPoS), byte(dstate.CRC)} {
		buf := append([]byte{tb}, make([]byte, 2048)...)
		am, err := dstate.ArbiterMemberFromReader(bytes.NewReader(buf))
		if err != nil || am == nil {
			panic("cannot obtain arbiter member type")
		}
		t := reflect.TypeOf(am)
		if !seen[t] {
			seen[t] = true
			out = append(out, t)
		}
	}
	return out
}

// ELAState returns the configuration for checkpoint types (a superset of ELA()).
func ELAState() *Config {
	c := ELA()
	skip := Rule{Skip: true}
	// back pointers to the live objects a checkpoint is attached to, and locks
	for _, k := range []string{
		"dstate.CheckPoint.arbitrators",
		"crstate.Checkpoint.committee",
		"wallet.CoinsCheckPoint.RWMutex",
	} {
		c.Rules[k] = skip
	}
	c.Impl[reflect.TypeOf((*dstate.ArbiterMember)(nil)).Elem()] = ArbiterTypes()
	// decoder caps
	c.Rules["dstate.crcArbiter.nodePk"] = Rule{MaxLen: 33}
	c.Rules["dstate.originArbiter.key"] = Rule{MaxLen: 33}
	c.Rules["crstate.CRMember.DPOSPublicKey"] = Rule{MaxLen: 33}
	c.Rules["crstate.ProposalState.ProposalOwner"] = Rule{MaxLen: 33}
	// wallet: a coin's output must be well-formed for the coin's tx version
	c.Types[reflect.TypeOf(wallet.Coin{})] = func(f *Filler, v reflect.Value, path string) {
		f.Field(v, "TxVersion", path, nil)
		prev, had := f.Ctx[CtxTxVersion]
		f.Ctx[CtxTxVersion] = common2.TransactionVersion(v.FieldByName("TxVersion").Uint())
		f.Field(v, "Output", path, nil)
		if had {
			f.Ctx[CtxTxVersion] = prev
		} else {
			delete(f.Ctx, CtxTxVersion)
		}
		f.Field(v, "Height", path, nil)
	}
	// coins are taken from decoded transactions, so their output payloads are
	// canonical: a version-0 vote output has no per-candidate amounts
	c.Post[reflect.TypeOf(outputpayload.VoteOutput{})] = func(f *Filler, v reflect.Value, path string) {
		if v.FieldByName("Version").Uint() >= uint64(outputpayload.VoteProducerAndCRVersion) {
			return
		}
		cs := v.FieldByName("Contents")
		for i := 0; i < cs.Len(); i++ {
			cv := cs.Index(i).FieldByName("CandidateVotes")
			for j := 0; j < cv.Len(); j++ {
				cv.Index(j).FieldByName("Votes").SetInt(0)
			}
		}
	}
	// the all-zero outpoint is the list terminator of the owned-coins list
	// (stored as nil): never generate a pointer to it
	c.Rules["wallet.CoinLinkedItem.prev"] = Rule{NilOK: true}
	c.Rules["wallet.CoinLinkedItem.next"] = Rule{NilOK: true}
	c.Post[reflect.TypeOf(wallet.CoinLinkedItem{})] = func(f *Filler, v reflect.Value, path string) {
		for _, n := range []string{"prev", "next"} {
			p := Access(v.FieldByName(n))
			if !p.IsNil() && p.Elem().IsZero() {
				p.Set(reflect.Zero(p.Type()))
			}
		}
	}
	return c
}

// NewDPoSCheckPoint / NewCRCheckpoint return empty values the way the
// checkpoint Generator() functions create them before Deserialize.
func NewDPoSCheckPoint() *dstate.CheckPoint { return &dstate.CheckPoint{} }
func NewCRCheckpoint() *crstate.Checkpoint  { return &crstate.Checkpoint{} }

package filler

// Elastos.ELA type knowledge for the wire types (transactions, payloads,
// output payloads, headers, blocks). Length caps are the ones enforced by the
// decoders (core/types/payload/*.go Deserialize, common.ReadVarBytes caps).

import (
	"bytes"
	"fmt"
	"reflect"

	"github.com/elastos/Elastos.ELA/auxpow"
	"github.com/elastos/Elastos.ELA/core/contract/program"
	"github.com/elastos/Elastos.ELA/core/transaction"
	"github.com/elastos/Elastos.ELA/core/types"
	common2 "github.com/elastos/Elastos.ELA/core/types/common"
	"github.com/elastos/Elastos.ELA/core/types/interfaces"
	"github.com/elastos/Elastos.ELA/core/types/outputpayload"
	"github.com/elastos/Elastos.ELA/core/types/payload"
)

// TxKind is one transaction type with the payload versions declared as
// constants in core/types/payload.
type TxKind struct {
	Type     common2.TxType
	Name     string
	Versions []byte
}

// TxTable lists every transaction type accepted by transaction.GetTransaction
// with every payload version constant declared for its payload.
var TxTable = []TxKind{
	{common2.CoinBase, "CoinBase", []byte{0x00, payload.CoinBaseVersion}},
	{common2.RegisterAsset, "RegisterAsset", []byte{0}},
	{common2.TransferAsset, "TransferAsset", []byte{0}},
	{common2.Record, "Record", []byte{payload.RecordVersion}},
	{common2.SideChainPow, "SideChainPow", []byte{payload.SideChainPowVersion}},
	{common2.WithdrawFromSideChain, "WithdrawFromSideChain", []byte{payload.WithdrawFromSideChainVersion, payload.WithdrawFromSideChainVersionV1, payload.WithdrawFromSideChainVersionV2}},
	{common2.TransferCrossChainAsset, "TransferCrossChainAsset", []byte{payload.TransferCrossChainVersion, payload.TransferCrossChainVersionV1}},
	{common2.RegisterProducer, "RegisterProducer", []byte{payload.ProducerInfoVersion, payload.ProducerInfoDposV2Version, payload.ProducerInfoSchnorrVersion, payload.ProducerInfoMultiVersion}},
	{common2.CancelProducer, "CancelProducer", []byte{payload.ProcessProducerVersion, payload.ProcessProducerSchnorrVersion, payload.ProcessMultiCodeVersion}},
	{common2.UpdateProducer, "UpdateProducer", []byte{payload.ProducerInfoVersion, payload.ProducerInfoDposV2Version, payload.ProducerInfoSchnorrVersion, payload.ProducerInfoMultiVersion}},
	{common2.ReturnDepositCoin, "ReturnDepositCoin", []byte{payload.ReturnDepositCoinVersion}},
	{common2.ActivateProducer, "ActivateProducer", []byte{payload.ActivateProducerVersion}},
	{common2.IllegalProposalEvidence, "IllegalProposalEvidence", []byte{payload.IllegalProposalVersion}},
	{common2.IllegalVoteEvidence, "IllegalVoteEvidence", []byte{payload.IllegalVoteVersion}},
	{common2.IllegalBlockEvidence, "IllegalBlockEvidence", []byte{payload.IllegalBlockVersion}},
	{common2.IllegalSidechainEvidence, "IllegalSidechainEvidence", []byte{payload.SidechainIllegalDataVersion}},
	{common2.InactiveArbitrators, "InactiveArbitrators", []byte{payload.InactiveArbitratorsVersion}},
	{common2.UpdateVersion, "UpdateVersion", []byte{payload.UpdateVersionVersion}},
	{common2.NextTurnDPOSInfo, "NextTurnDPOSInfo", []byte{payload.NextTurnDPOSInfoVersion, payload.NextTurnDPOSInfoVersion2}},
	{common2.ProposalResult, "ProposalResult", []byte{payload.CustomIDResultVersion}},
	{common2.RegisterCR, "RegisterCR", []byte{payload.CRInfoVersion, payload.CRInfoDIDVersion, payload.CRInfoSchnorrVersion, payload.CRInfoMultiSignVersion}},
	{common2.UnregisterCR, "UnregisterCR", []byte{payload.UnregisterCRVersion, payload.UnregisterCRSchnorrVersion, payload.UnregisterCRMultiVersion}},
	{common2.UpdateCR, "UpdateCR", []byte{payload.CRInfoVersion, payload.CRInfoDIDVersion, payload.CRInfoSchnorrVersion, payload.CRInfoMultiSignVersion}},
	{common2.ReturnCRDepositCoin, "ReturnCRDepositCoin", []byte{payload.ReturnDepositCoinVersion}},
	{common2.CRCProposal, "CRCProposal", []byte{payload.CRCProposalVersion, payload.CRCProposalVersion01}},
	{common2.CRCProposalReview, "CRCProposalReview", []byte{payload.CRCProposalReviewVersion, payload.CRCProposalReviewVersion01}},
	{common2.CRCProposalTracking, "CRCProposalTracking", []byte{payload.CRCProposalTrackingVersion, payload.CRCProposalTrackingVersion01}},
	{common2.CRCAppropriation, "CRCAppropriation", []byte{payload.CRCAppropriationVersion}},
	{common2.CRCProposalWithdraw, "CRCProposalWithdraw", []byte{payload.CRCProposalWithdrawDefault, payload.CRCProposalWithdrawVersion01}},
	{common2.CRCProposalRealWithdraw, "CRCProposalRealWithdraw", []byte{payload.CRCProposalRealWithdrawVersion}},
	{common2.CRAssetsRectify, "CRAssetsRectify", []byte{payload.CRAssetsRectifyVersion}},
	{common2.CRCouncilMemberClaimNode, "CRCouncilMemberClaimNode", []byte{payload.CurrentCRClaimDPoSNodeVersion, payload.NextCRClaimDPoSNodeVersion}},
	{common2.RevertToPOW, "RevertToPOW", []byte{payload.RevertToPOWVersion}},
	{common2.RevertToDPOS, "RevertToDPOS", []byte{payload.RevertToDPOSVersion}},
	{common2.ReturnSideChainDepositCoin, "ReturnSideChainDepositCoin", []byte{payload.ReturnSideChainDepositCoinVersion, payload.ReturnSideChainDepositCoinVersionV1}},
	{common2.DposV2ClaimReward, "DposV2ClaimReward", []byte{payload.DposV2ClaimRewardVersionV0, payload.DposV2ClaimRewardVersionV1}},
	{common2.DposV2ClaimRewardRealWithdraw, "DposV2ClaimRewardRealWithdraw", []byte{payload.DposV2ClaimRewardRealWithdrawVersion}},
	{common2.ExchangeVotes, "ExchangeVotes", []byte{0}},
	{common2.Voting, "Voting", []byte{payload.VoteVersion, payload.RenewalVoteVersion}},
	{common2.ReturnVotes, "ReturnVotes", []byte{payload.ReturnVotesVersionV0, payload.ReturnVotesSchnorrVersion}},
	{common2.VotesRealWithdraw, "VotesRealWithdraw", []byte{payload.VotesRealWithdrawPayloadVersion}},
	{common2.RecordSponsor, "RecordSponsor", []byte{payload.RecordSponsorVersion}},
	{common2.CreateNFT, "CreateNFT", []byte{payload.CreateNFTVersion, payload.CreateNFTVersion2}},
	{common2.NFTDestroyFromSideChain, "NFTDestroyFromSideChain", []byte{payload.NFTDestroyFromSideChainVersion}},
}

// TxVersions returns the tx versions under which a type byte is expressible:
// a type byte > 0x08 cannot be written with tx version 0 (the leading byte
// would be read as a version), see core/types/common/transaction.go.
func TxVersions(t common2.TxType) []common2.TransactionVersion {
	if byte(t) <= 0x08 {
		return []common2.TransactionVersion{common2.TxVersionDefault, common2.TxVersion09}
	}
	return []common2.TransactionVersion{common2.TxVersion09}
}

// OutputTypes are all output payload types known to Output.Deserialize.
var OutputTypes = []common2.OutputType{common2.OTNone, common2.OTVote, common2.OTMapping, common2.OTCrossChain,
	common2.OTWithdrawFromSideChain, common2.OTReturnSideChainDepositCoin, common2.OTDposV2Vote, common2.OTStake}

func outputPayloadFor(t common2.OutputType) common2.OutputPayload {
	switch t {
	case common2.OTNone:
		return new(outputpayload.DefaultOutput)
	case common2.OTVote, common2.OTDposV2Vote:
		return new(outputpayload.VoteOutput)
	case common2.OTMapping:
		return new(outputpayload.Mapping)
	case common2.OTCrossChain:
		return new(outputpayload.CrossChainOutput)
	case common2.OTWithdrawFromSideChain:
		return new(outputpayload.Withdraw)
	case common2.OTReturnSideChainDepositCoin:
		return new(outputpayload.ReturnSideChainDeposit)
	case common2.OTStake:
		return new(outputpayload.ExchangeVotesOutput)
	}
	return nil
}

// CtxTxVersion is the Ctx key holding the common2.TransactionVersion that
// outputs are generated for.
const (
	CtxTxVersion   = "txVersion"
	CtxOutputTypes = "outputTypes" // map[common2.OutputType]int, counts what was generated
	CtxNoAuxPow    = "noAuxPow"    // bool: leave Header.AuxPow zero
	CtxSmall       = "small"       // bool: generate small transactions (for blocks)
	// CtxForceOutputType pins the payload type of every generated output.
	CtxForceOutputType = "forceOutputType"
)

// buildOutput generates an Output that is well-formed for the tx version in
// Ctx: under version < 0x09 neither Type nor Payload exist on the wire.
func buildOutput(f *Filler, v reflect.Value, path string) {
	f.Field(v, "AssetID", path, nil)
	f.Field(v, "Value", path, nil)
	f.Field(v, "OutputLock", path, nil)
	f.Field(v, "ProgramHash", path, nil)
	txv, _ := f.Ctx[CtxTxVersion].(common2.TransactionVersion)
	if txv < common2.TxVersion09 {
		return
	}
	ot := OutputTypes[f.Choice(len(OutputTypes))]
	if fo, ok := f.Ctx[CtxForceOutputType].(common2.OutputType); ok {
		ot = fo
	}
	if m, ok := f.Ctx[CtxOutputTypes].(map[common2.OutputType]int); ok {
		m[ot]++
	}
	v.FieldByName("Type").SetUint(uint64(ot))
	p := outputPayloadFor(ot)
	f.Value(reflect.ValueOf(p).Elem(), TypeKey(reflect.TypeOf(p)), path+".Payload")
	v.FieldByName("Payload").Set(reflect.ValueOf(p))
}

// three parallel slices of equal length
func buildTransferCrossChainAsset(f *Filler, v reflect.Value, path string) {
	tk := "payload.TransferCrossChainAsset."
	n, _ := f.siteLen(f.Cfg.Rules[tk+"CrossChainAddresses"], SiteSlice, false, tk+"CrossChainAddresses", path+".CrossChainAddresses")
	outer := f.S
	f.S = NewRng(outer.Uint64())
	defer func() { f.S = outer }()
	for _, name := range []string{"CrossChainAddresses", "OutputIndexes", "CrossChainAmounts"} {
		fv := v.FieldByName(name)
		s := reflect.MakeSlice(fv.Type(), n, n)
		for i := 0; i < n; i++ {
			f.valueRule(s.Index(i), Rule{}, tk+name, fmt.Sprintf("%s.%s[%d]", path, name, i))
		}
		fv.Set(s)
	}
}

func u64s(xs ...uint64) []uint64 { return xs }

// ProposalTypes are the CRCProposalType constants declared in
// core/types/payload/crcproposal.go plus one undeclared value (which takes the
// default "normal" layout).
var ProposalTypes = u64s(0x0000, 0x0100, 0x0101, 0x0102, 0x0200, 0x0201, 0x0202,
	0x0400, 0x0401, 0x0402, 0x0410, 0x0500, 0x0501, 0x0502, 0x0300)

// ForceKey is the Ctx key that pins the integer leaf `key` to a value.
func ForceKey(key string) string { return "force:" + key }

// ELA returns the configuration for the wire types.
func ELA() *Config {
	c := NewConfig()
	skip := Rule{Skip: true}
	for _, k := range []string{
		// caches and validation scratch state, not part of the value
		"transaction.BaseTransaction.fee", "transaction.BaseTransaction.feePerKB", "transaction.BaseTransaction.txHash",
		"transaction.DefaultChecker.parameters", "transaction.DefaultChecker.references",
		"payload.DPOSProposal.hash", "payload.DPOSProposalVote.hash", "payload.BlockEvidence.hash",
		"payload.DPOSIllegalBlocks.hash", "payload.DPOSIllegalProposals.hash", "payload.DPOSIllegalVotes.hash",
		"payload.InactiveArbitrators.hash", "payload.NextTurnDPOSInfo.hash", "payload.SidechainIllegalData.hash",
		"payload.CRCProposal.hash", "payload.CRCProposalInfo.hash",
	} {
		c.Rules[k] = skip
	}
	// enum ranges enforced by the codec itself
	c.Rules["common.Attribute.Usage"] = Rule{Values: u64s(0x00, 0x20, 0x81, 0x90, 0x91, 0x92)}
	// discriminator that selects the wire layout; declared constants + one undeclared
	c.Rules["payload.CRCProposal.ProposalType"] = Rule{Values: ProposalTypes}
	c.Rules["payload.CRCProposalInfo.ProposalType"] = c.Rules["payload.CRCProposal.ProposalType"]
	// length caps (decoder): signatures 64 bytes, script-sized signatures larger
	for _, k := range []string{"payload.ActivateProducer.Signature", "payload.ProducerInfo.Signature", "payload.ProcessProducer.Signature",
		"payload.CRCProposalTracking.OwnerSignature", "payload.CRCProposalTracking.NewOwnerSignature", "payload.CRCProposalTracking.SecretaryGeneralSignature",
		"payload.DPOSProposal.Sign", "payload.DPOSProposalVote.Sign", "outputpayload.Mapping.Signature",
		"payload.CRCProposal.Signature", "payload.CRCProposal.NewOwnerSignature", "payload.CRCProposal.SecretaryGeneraSignature",
		"payload.CRCProposal.CRCouncilMemberSignature"} {
		c.Rules[k] = Rule{MaxLen: 64}
	}
	c.Rules["payload.SidechainIllegalData.Signs"] = Rule{ElemMaxLen: 64}
	c.Rules["payload.CRCProposalTracking.OwnerKey"] = Rule{MaxLen: 35}
	c.Rules["payload.CRCProposalTracking.NewOwnerKey"] = Rule{MaxLen: 35}
	for _, k := range []string{"payload.CRCProposalReview.Signature", "payload.CRCProposalWithdraw.Signature", "payload.CRCouncilMemberClaimNode.CRCouncilCommitteeSignature",
		"payload.CRInfo.Signature", "payload.UnregisterCR.Signature", "payload.DPoSV2ClaimReward.Signature", "payload.ReturnVotes.Signature",
		"payload.CRInfo.Code", "payload.ProducerInfo.OwnerKey", "payload.ProcessProducer.OwnerKey",
		"payload.DPoSV2ClaimReward.Code", "payload.ReturnVotes.Code", "payload.CreateNFT.TargetOwnerKey", "payload.VotesWithLockTime.Candidate",
		"outputpayload.CandidateVotes.Candidate", "outputpayload.Mapping.OwnerKey", "payload.CoinBase.Content", "payload.Record.Content",
		"payload.CRCProposalReview.OpinionData", "payload.CRCProposalTracking.MessageData", "payload.CRCProposalTracking.SecretaryGeneralOpinionData",
		"payload.CRCProposal.DraftData", "payload.SideChainPow.Signature", "payload.BlockEvidence.Header", "payload.BlockEvidence.BlockConfirm",
		"payload.ProposalEvidence.BlockHeader", "outputpayload.CrossChainOutput.TargetData", "outputpayload.Withdraw.TargetData",
		"outputpayload.Mapping.SideProducerID", "common.Attribute.Data"} {
		c.Rules[k] = Rule{MaxLen: 140}
	}
	c.Rules["program.Program.Code"] = Rule{MaxLen: 120}
	c.Rules["program.Program.Parameter"] = Rule{MaxLen: 200}
	c.Rules["auxpow.BtcTxIn.SignatureScript"] = Rule{MaxLen: 120}
	c.Rules["auxpow.BtcTxOut.PkScript"] = Rule{MaxLen: 80}
	// decoder caps (the limit passed to common.ReadVarBytes by the field's
	// Deserialize) for fields that admit more than ordinary instances use;
	// the boundary-length pass goes up to them. Fields without an entry are
	// capped at their generator maximum (33-byte keys, 64-byte signatures ...).
	const (
		capSigScript = 64001            // crypto.MaxSignatureScriptLength
		capMultiCode = 34003            // crypto.MaxMultiSignCodeLength
		capMB        = 1024 * 1024      // payload.MaxPayloadDataSize & co.
		capVarString = 16 * 1024 * 1024 // common.MaxVarStringLength
	)
	for k, n := range map[string]int{
		"payload.CRCProposalReview.Signature": capSigScript, "payload.CRCProposalWithdraw.Signature": capSigScript,
		"payload.CRCouncilMemberClaimNode.CRCouncilCommitteeSignature": capSigScript, "payload.CRInfo.Signature": capSigScript,
		"payload.UnregisterCR.Signature": capSigScript, "payload.DPoSV2ClaimReward.Signature": capSigScript, "payload.ReturnVotes.Signature": capSigScript,
		"payload.CRInfo.Code": capMultiCode, "payload.ProducerInfo.OwnerKey": capMultiCode, "payload.ProducerInfo.NodePublicKey": capMultiCode,
		"payload.ProcessProducer.OwnerKey": capMultiCode, "payload.DPoSV2ClaimReward.Code": capMultiCode, "payload.ReturnVotes.Code": capMultiCode,
		"payload.CreateNFT.TargetOwnerKey": capMultiCode, "payload.VotesWithLockTime.Candidate": capMultiCode,
		"outputpayload.CandidateVotes.Candidate": capMultiCode, "outputpayload.Mapping.OwnerKey": capMultiCode,
		"payload.CoinBase.Content": capMB, "payload.Record.Content": capMB, "payload.SideChainPow.Signature": capMB,
		"payload.CRCProposalReview.OpinionData": capMB, "payload.CRCProposal.DraftData": capMB,
		"payload.CRCProposalTracking.MessageData": 800 * 1024, "payload.CRCProposalTracking.SecretaryGeneralOpinionData": 200 * 1024,
		"payload.BlockEvidence.Header": 8000000, "payload.BlockEvidence.BlockConfirm": 1000000, "payload.ProposalEvidence.BlockHeader": 8000000,
		"outputpayload.CrossChainOutput.TargetData": 1024, "outputpayload.Withdraw.TargetData": 1024, "outputpayload.Mapping.SideProducerID": 256,
		"common.Attribute.Data": capVarString,
		"program.Program.Code":  10000, "program.Program.Parameter": 20000,
		"auxpow.BtcTxIn.SignatureScript": 10000, "auxpow.BtcTxOut.PkScript": 10000,
		// []uint8 lists written element-wise behind a var-int count
		"payload.ReturnSideChainDepositCoin.Signers": 1 << 20, "payload.WithdrawFromSideChain.Signers": 1 << 20,
	} {
		r := c.Rules[k]
		r.Cap = n
		c.Rules[k] = r
	}
	// values (not lengths) written with common.WriteVarUint
	c.VarUintKeys = []string{"payload.TransferCrossChainAsset.OutputIndexes"}

	c.Types[reflect.TypeOf(common2.Output{})] = buildOutput
	c.Types[reflect.TypeOf(payload.TransferCrossChainAsset{})] = buildTransferCrossChainAsset
	c.Types[reflect.TypeOf(auxpow.AuxPow{})] = func(f *Filler, v reflect.Value, path string) {
		if no, _ := f.Ctx[CtxNoAuxPow].(bool); no {
			return
		}
		f.Struct(v, path)
	}
	return c
}

// GenTx generates a transaction of the given type / payload version / tx
// version with every other field populated.
func GenTx(f *Filler, txType common2.TxType, pv byte, txv common2.TransactionVersion) interfaces.Transaction {
	tx, err := transaction.GetTransaction(txType)
	if err != nil {
		panic(err)
	}
	prev, had := f.Ctx[CtxTxVersion]
	f.Ctx[CtxTxVersion] = txv
	defer func() {
		if had {
			f.Ctx[CtxTxVersion] = prev
		} else {
			delete(f.Ctx, CtxTxVersion)
		}
	}()
	rv := reflect.ValueOf(tx).Elem()
	base := rv.FieldByName("BaseTransaction")
	if !base.IsValid() {
		panic("no BaseTransaction in " + rv.Type().String())
	}
	Access(base.FieldByName("version")).SetUint(uint64(txv))
	Access(base.FieldByName("txType")).SetUint(uint64(txType))
	Access(base.FieldByName("payloadVersion")).SetUint(uint64(pv))
	p, err := interfaces.GetPayload(txType, pv)
	if err != nil {
		panic(err)
	}
	f.Value(reflect.ValueOf(p).Elem(), TypeKey(reflect.TypeOf(p)), ".BaseTransaction.payload")
	Access(base.FieldByName("payload")).Set(reflect.ValueOf(p))
	small, _ := f.Ctx[CtxSmall].(bool)
	lim := func(k string, n int) *Rule {
		r := f.Cfg.Rules[k]
		if small {
			r.MaxLen = n
		}
		return &r
	}
	f.Field(base, "attributes", ".BaseTransaction", lim("transaction.BaseTransaction.attributes", 1))
	f.Field(base, "inputs", ".BaseTransaction", lim("transaction.BaseTransaction.inputs", 2))
	f.Field(base, "outputs", ".BaseTransaction", lim("transaction.BaseTransaction.outputs", 2))
	f.Field(base, "lockTime", ".BaseTransaction", nil)
	f.Field(base, "programs", ".BaseTransaction", lim("transaction.BaseTransaction.programs", 1))
	return tx
}

// EncTx / DecTx are the wire codec of a transaction as used inside blocks.
func EncTx(tx interfaces.Transaction) ([]byte, error) {
	buf := new(bytes.Buffer)
	err := tx.Serialize(buf)
	return buf.Bytes(), err
}

func DecTx(b []byte) (interfaces.Transaction, int, error) {
	r := bytes.NewReader(b)
	tx, err := transaction.GetTransactionByBytes(r)
	if err != nil {
		return nil, r.Len(), err
	}
	if err := tx.Deserialize(r); err != nil {
		return nil, r.Len(), err
	}
	return tx, r.Len(), nil
}

// UnsignedBytes returns SerializeUnsigned of tx.
func UnsignedBytes(tx interfaces.Transaction) ([]byte, error) {
	buf := new(bytes.Buffer)
	err := tx.SerializeUnsigned(buf)
	return buf.Bytes(), err
}

// GenHeader fills a block header, with or without aux-pow content.
func GenHeader(f *Filler, h *common2.Header, withAux bool) {
	prev, had := f.Ctx[CtxNoAuxPow]
	f.Ctx[CtxNoAuxPow] = !withAux
	f.Value(reflect.ValueOf(h).Elem(), "common.Header", ".Header")
	if had {
		f.Ctx[CtxNoAuxPow] = prev
	} else {
		delete(f.Ctx, CtxNoAuxPow)
	}
}

// GenBlock generates a block of n small transactions of random kinds.
func GenBlock(f *Filler, n int, withAux bool) *types.Block {
	b := &types.Block{}
	GenHeader(f, &b.Header, withAux)
	f.Ctx[CtxSmall] = true
	defer delete(f.Ctx, CtxSmall)
	for i := 0; i < n; i++ {
		k := TxTable[f.Choice(len(TxTable))]
		pv := k.Versions[f.Choice(len(k.Versions))]
		vs := TxVersions(k.Type)
		txv := vs[f.Choice(len(vs))]
		// paths of the i-th tx are prefixed so that leaves stay distinguishable
		start := len(f.Leaves)
		tx := GenTx(f, k.Type, pv, txv)
		for j := start; j < len(f.Leaves); j++ {
			f.Leaves[j].Path = fmt.Sprintf(".Transactions[%d]%s", i, f.Leaves[j].Path)
		}
		b.Transactions = append(b.Transactions, tx)
	}
	return b
}

// GenConfirm fills a payload.Confirm.
func GenConfirm(f *Filler) *payload.Confirm {
	c := &payload.Confirm{}
	f.Value(reflect.ValueOf(c).Elem(), "payload.Confirm", ".Confirm")
	return c
}

var _ = program.Program{}

// Package filler is a reflection-driven value generator, deep comparator and
// vacuity meter for codec (Serialize/Deserialize) checks.
//
// A Filler populates *every* field of a target value — exported or not (via
// reflect.NewAt / unsafe) — with values derived from a seed. Encodability
// constraints (length caps taken from the decoder, enum ranges, which concrete
// types may sit behind an interface, cross-field invariants) are supplied as
// Rules / type builders / post-fill hooks in a Config; everything else is
// generic.
//
// Every scalar the filler writes is a *leaf*. Leaves are numbered in fill
// order and carry a stable key ("pkg.Type.Field") and an instance path
// (".payload.Budgets[2].Amount"). Two fills from the same seed produce equal
// values; NewPerturbed(seed, k) produces a value that differs from New(seed)
// in leaf k only. That is what the two vacuity guards are built on:
//
//   - field coverage: which keys were non-zero in at least one instance
//   - field sensitivity: does perturbing one leaf change the serialised bytes
//     (a field absent from Serialize shows up as "not carried")
//
// Diff is a deep comparison that treats nil and empty slices/maps as equal
// and ignores fields whose Rule says Skip (caches, back pointers, locks).
// Canon + reflect.DeepEqual is the independent cross-check of Diff.
package filler

import (
	"fmt"
	"reflect"
	"sort"
	"strings"
	"unsafe"
)

// ---------------------------------------------------------------- PRNG

// Rng is a tiny splitmix64 generator (cheap to create per leaf).
type Rng struct{ s uint64 }

func NewRng(seed uint64) *Rng { return &Rng{s: seed} }

func (r *Rng) Uint64() uint64 {
	r.s += 0x9E3779B97F4A7C15
	z := r.s
	z = (z ^ (z >> 30)) * 0xBF58476D1CE4E5B9
	z = (z ^ (z >> 27)) * 0x94D049BB133111EB
	return z ^ (z >> 31)
}

// Intn returns a value in [0,n). n<=0 yields 0.
func (r *Rng) Intn(n int) int {
	if n <= 0 {
		return 0
	}
	return int(r.Uint64() % uint64(n))
}

func (r *Rng) Bytes(n int) []byte {
	b := make([]byte, n)
	for i := 0; i < n; i += 8 {
		x := r.Uint64()
		for j := 0; j < 8 && i+j < n; j++ {
			b[i+j] = byte(x >> (8 * uint(j)))
		}
	}
	return b
}

// ---------------------------------------------------------------- config

// Rule constrains how one struct field ("pkg.Type.Field") is generated.
type Rule struct {
	// Skip: never fill, never compare (cache fields, back pointers, locks,
	// callbacks). The field keeps its zero value.
	Skip bool
	// MinLen/MaxLen bound the length of a slice, string or map (MaxLen 0 =
	// Config default). FixLen > 0 forces an exact length. They also apply to
	// the elements' own length when ElemMaxLen is set ([][]byte, []string).
	MinLen, MaxLen, FixLen int
	ElemMaxLen             int
	// Cap is the largest length the DECODER accepts for this field (MaxLen is
	// only what ordinary instances use). 0 = the effective generator maximum
	// (MaxLen or the Config default) is the cap. ElemCap is Cap for the
	// elements of a slice ([][]byte, []string). Used by the boundary pass.
	Cap, ElemCap int
	// Values restricts an integer leaf to an enumerated set.
	Values []uint64
	// MaxVal bounds an unsigned/signed integer leaf (0 = type range).
	MaxVal uint64
	// NonNeg forces a signed integer to be >= 0.
	NonNeg bool
	// NilOK: a pointer / interface may be left nil (probability 1/4).
	NilOK bool
	// Build replaces generic generation of this field.
	Build func(f *Filler, v reflect.Value, path string)
}

// Config carries all type knowledge.
type Config struct {
	MaxSlice int // default max len of slices of non-bytes
	MaxMap   int
	// MinEntries is the default minimum length of slices (non-bytes) and maps.
	// MinEntries == MaxSlice == MaxMap == 1 gives values whose serialisation
	// does not depend on map iteration order while still reaching every field.
	MinEntries int
	// StringCap / CountCap: decoder caps assumed for strings and for element
	// counts that have no Rule.Cap (0 = 1<<24 resp. 1<<20).
	StringCap, CountCap int
	// VarUintKeys lists integer leaves that are written as var-ints (values,
	// not lengths); the boundary pass drives them to the encoding boundaries.
	VarUintKeys []string
	MaxBytes    int // default max len of []byte
	MaxString   int
	MaxDepth    int
	// Rules by "pkg.Type.Field".
	Rules map[string]Rule
	// Types: custom builder for a whole type (value of that type, addressable).
	Types map[reflect.Type]func(f *Filler, v reflect.Value, path string)
	// Post: fix-up after all fields of a struct type were filled.
	Post map[reflect.Type]func(f *Filler, v reflect.Value, path string)
	// Impl: concrete (pointer) types that may populate an interface type.
	Impl map[reflect.Type][]reflect.Type
}

// NewConfig returns a Config with conservative defaults (every generic
// []byte fits a 33-byte public-key cap).
func NewConfig() *Config {
	return &Config{MaxSlice: 3, MaxMap: 3, MaxBytes: 33, MaxString: 24, MaxDepth: 24,
		Rules: map[string]Rule{},
		Types: map[reflect.Type]func(*Filler, reflect.Value, string){},
		Post:  map[reflect.Type]func(*Filler, reflect.Value, string){},
		Impl:  map[reflect.Type][]reflect.Type{}}
}

// Clone makes a shallow copy whose scalar limits can be changed freely.
func (c *Config) Clone() *Config {
	d := *c
	return &d
}

// PkgAlias maps an import path to the package qualifier used in keys, for
// packages whose base names collide ("state", "msg").
var PkgAlias = map[string]string{}

// TypeKey is the stable name of a struct type ("payload.CRCProposal").
func TypeKey(t reflect.Type) string {
	for t.Kind() == reflect.Ptr {
		t = t.Elem()
	}
	s := strings.TrimPrefix(t.String(), "*")
	if a, ok := PkgAlias[t.PkgPath()]; ok && t.Name() != "" {
		return a + "." + t.Name()
	}
	return s
}

// ---------------------------------------------------------------- filler

// LeafInfo describes one generated scalar.
type LeafInfo struct {
	Key     string // "pkg.Type.Field" (+"#key" for map keys)
	Path    string // instance path
	NonZero bool
}

// Filler generates values. Not safe for concurrent use.
type Filler struct {
	Cfg *Config
	// S is the structural stream (lengths, choices). Builders may draw from it.
	S       *Rng
	perturb int
	Leaves  []LeafInfo
	// PerturbFailed is set when the leaf chosen for perturbation could not be
	// given a different value (single-valued enum).
	PerturbFailed bool
	perturbedIdx  int
	// Ctx carries generation context for custom builders (e.g. the tx version
	// an Output is generated for).
	Ctx       map[string]interface{}
	depth     int
	inPerturb bool
	// Sites lists every variable-length site (byte string, string, slice,
	// map) met during the fill, in order. ForceSite/ForceLen (set before
	// generating) pin the length of site number ForceSite to ForceLen.
	Sites     []SiteInfo
	ForceSite int
	ForceLen  int
}

// SiteKind classifies a variable-length site.
type SiteKind int

const (
	SiteBytes SiteKind = iota
	SiteString
	SiteSlice
	SiteMap
)

// SiteInfo describes one variable-length site of a generated instance.
type SiteInfo struct {
	Key      string
	Path     string
	Kind     SiteKind
	Cap      int  // largest length the decoder accepts
	ElemLeaf bool // slice/map whose elements are leaves (cheap to make long)
	Len      int  // the length used
}

// New returns a filler for seed.
func New(cfg *Config, seed uint64) *Filler {
	return &Filler{Cfg: cfg, S: NewRng(seed), perturb: -1, Ctx: map[string]interface{}{}, ForceSite: -1}
}

// NewPerturbed returns a filler producing the same value as New(cfg, seed)
// except that leaf number k receives a different value.
func NewPerturbed(cfg *Config, seed uint64, k int) *Filler {
	return &Filler{Cfg: cfg, S: NewRng(seed), perturb: k, Ctx: map[string]interface{}{}, ForceSite: -1}
}

// Fill populates *ptr.
func (f *Filler) Fill(ptr interface{}) {
	v := reflect.ValueOf(ptr)
	if v.Kind() != reflect.Ptr || v.IsNil() {
		panic("filler.Fill needs a non-nil pointer")
	}
	f.Value(v.Elem(), TypeKey(v.Type()), "")
}

// Access returns a settable alias of an addressable value, defeating the
// read-only flag of unexported fields.
func Access(v reflect.Value) reflect.Value {
	if v.CanSet() {
		return v
	}
	if v.CanAddr() {
		return reflect.NewAt(v.Type(), unsafe.Pointer(v.UnsafeAddr())).Elem()
	}
	return v
}

// Choice draws a structural choice in [0,n).
func (f *Filler) Choice(n int) int { return f.S.Intn(n) }

// Leaf runs gen with a per-leaf PRNG, records the leaf and applies the
// perturbation when this leaf is the chosen one. gen must fully overwrite v.
func (f *Filler) Leaf(v reflect.Value, key, path string, gen func(r *Rng, v reflect.Value)) {
	seed := f.S.Uint64()
	idx := len(f.Leaves)
	gen(NewRng(seed), v)
	if idx == f.perturb {
		old := reflect.New(v.Type()).Elem()
		old.Set(v)
		if v.Kind() == reflect.Slice && !v.IsNil() { // own copy of backing array
			cp := reflect.MakeSlice(v.Type(), v.Len(), v.Len())
			reflect.Copy(cp, v)
			old.Set(cp)
		}
		ok := false
		f.inPerturb = true
		defer func() { f.inPerturb = false }()
		for j := uint64(1); j <= 24; j++ {
			gen(NewRng(seed^(j*0xD1B54A32D192ED03)), v)
			if !reflect.DeepEqual(old.Interface(), v.Interface()) {
				// nil vs empty slices are the same thing on the wire
				if v.Kind() == reflect.Slice && v.Len() == 0 && old.Len() == 0 {
					continue
				}
				ok = true
				break
			}
		}
		if !ok {
			f.PerturbFailed = true
		}
	}
	f.Leaves = append(f.Leaves, LeafInfo{Key: key, Path: path, NonZero: !v.IsZero() && !(v.Kind() == reflect.Slice && v.Len() == 0)})
	if idx == f.perturb {
		f.perturbedIdx = idx + 1
	}
}

// PerturbedLeaf returns the leaf that received the perturbation, if any.
func (f *Filler) PerturbedLeaf() (LeafInfo, bool) {
	if f.perturbedIdx == 0 {
		return LeafInfo{}, false
	}
	return f.Leaves[f.perturbedIdx-1], true
}

func isByteSlice(t reflect.Type) bool {
	return t.Kind() == reflect.Slice && t.Elem().Kind() == reflect.Uint8
}
func isByteArray(t reflect.Type) bool {
	return t.Kind() == reflect.Array && t.Elem().Kind() == reflect.Uint8
}

// IsLeafType reports whether values of t are generated as one leaf.
func IsLeafType(t reflect.Type) bool {
	switch t.Kind() {
	case reflect.Bool, reflect.Int, reflect.Int8, reflect.Int16, reflect.Int32, reflect.Int64,
		reflect.Uint, reflect.Uint8, reflect.Uint16, reflect.Uint32, reflect.Uint64, reflect.Uintptr,
		reflect.Float32, reflect.Float64, reflect.String:
		return true
	}
	return isByteSlice(t) || isByteArray(t)
}

// siteLen draws the length of a variable-length site, records the site and
// applies ForceSite/ForceLen. forced reports that the length was pinned.
func (f *Filler) siteLen(rule Rule, kind SiteKind, elemLeaf bool, key, path string) (n int, forced bool) {
	def, defMin, defCap := 0, 0, 0
	switch kind {
	case SiteBytes:
		def = f.Cfg.MaxBytes
	case SiteString:
		def = f.Cfg.MaxString
		defCap = f.Cfg.StringCap
		if defCap == 0 {
			defCap = 1 << 24
		}
	case SiteSlice:
		def, defMin = f.Cfg.MaxSlice, f.Cfg.MinEntries
		defCap = f.Cfg.CountCap
		if defCap == 0 {
			defCap = 1 << 20
		}
	case SiteMap:
		def, defMin = f.Cfg.MaxMap, f.Cfg.MinEntries
		defCap = f.Cfg.CountCap
		if defCap == 0 {
			defCap = 1 << 20
		}
	}
	max := def
	if rule.MaxLen > 0 {
		max = rule.MaxLen
	}
	min := rule.MinLen
	if min == 0 {
		min = defMin
	}
	if max < min {
		max = min
	}
	cap := rule.Cap
	if cap == 0 {
		if rule.MaxLen > 0 || defCap == 0 {
			cap = max
		} else {
			cap = defCap
		}
	}
	if rule.FixLen > 0 {
		n, cap = rule.FixLen, rule.FixLen
	} else {
		n = min + f.S.Intn(max-min+1)
	}
	idx := len(f.Sites)
	if idx == f.ForceSite && rule.FixLen == 0 && f.ForceLen >= rule.MinLen && f.ForceLen <= cap {
		n, forced = f.ForceLen, true
	}
	f.Sites = append(f.Sites, SiteInfo{Key: key, Path: path, Kind: kind, Cap: cap, ElemLeaf: elemLeaf, Len: n})
	return n, forced
}

// GenInt produces an edge-biased integer for kind k honouring rule.
func GenInt(r *Rng, k reflect.Kind, rule Rule) (u uint64, s int64) {
	if len(rule.Values) > 0 {
		x := rule.Values[r.Intn(len(rule.Values))]
		return x, int64(x)
	}
	bits := 64
	signed := false
	switch k {
	case reflect.Int8:
		bits, signed = 8, true
	case reflect.Int16:
		bits, signed = 16, true
	case reflect.Int32:
		bits, signed = 32, true
	case reflect.Int64:
		bits, signed = 64, true
	case reflect.Int:
		// platform int is always written as a 32-bit quantity on the wire
		bits, signed = 32, false
		if rule.MaxVal == 0 {
			rule.MaxVal = 1<<31 - 1
		}
	case reflect.Uint8:
		bits = 8
	case reflect.Uint16:
		bits = 16
	case reflect.Uint32:
		bits = 32
	}
	var mask uint64 = ^uint64(0)
	if bits < 64 {
		mask = 1<<uint(bits) - 1
	}
	var x uint64
	switch r.Intn(8) {
	case 0:
		x = 0
	case 1:
		x = 1
	case 2:
		x = mask // max / -1
	case 3:
		x = uint64(r.Intn(256))
	case 4:
		x = mask >> 1 // max signed
	default:
		x = r.Uint64() & mask
	}
	if rule.MaxVal > 0 && (x&mask) > rule.MaxVal {
		x = x % (rule.MaxVal + 1)
	}
	if signed {
		// sign-extend
		sh := uint(64 - bits)
		sv := int64(x<<sh) >> sh
		if rule.NonNeg && sv < 0 {
			sv = -(sv + 1)
		}
		return uint64(sv), sv
	}
	return x & mask, int64(x & mask)
}

func genString(r *Rng, n int) string {
	b := make([]byte, n)
	mode := r.Intn(4)
	for i := range b {
		if mode == 0 {
			b[i] = byte(r.Uint64()) // arbitrary bytes, incl. invalid UTF-8 and NUL
		} else {
			b[i] = byte(0x21 + r.Intn(0x7e-0x21))
		}
	}
	return string(b)
}

// leafValue generates a leaf-typed value.
func (f *Filler) leafValue(v reflect.Value, rule Rule, key, path string) {
	t := v.Type()
	intRule := func() Rule { return rule }
	if fv, ok := f.Ctx["force:"+key]; ok {
		// a discriminator enumerated by the workload instead of sampled; a
		// perturbation still draws from the unforced rule
		if u, ok := fv.(uint64); ok && t.Kind() >= reflect.Int && t.Kind() <= reflect.Uintptr {
			intRule = func() Rule {
				if f.inPerturb {
					return rule
				}
				r := rule
				r.Values = []uint64{u}
				return r
			}
		}
	}
	switch {
	case t.Kind() == reflect.Bool:
		f.Leaf(v, key, path, func(r *Rng, v reflect.Value) { v.SetBool(r.Intn(2) == 1) })
	case t.Kind() >= reflect.Int && t.Kind() <= reflect.Int64:
		f.Leaf(v, key, path, func(r *Rng, v reflect.Value) { _, s := GenInt(r, t.Kind(), intRule()); v.SetInt(s) })
	case t.Kind() >= reflect.Uint && t.Kind() <= reflect.Uintptr:
		f.Leaf(v, key, path, func(r *Rng, v reflect.Value) { u, _ := GenInt(r, t.Kind(), intRule()); v.SetUint(u) })
	case t.Kind() == reflect.Float32 || t.Kind() == reflect.Float64:
		f.Leaf(v, key, path, func(r *Rng, v reflect.Value) {
			switch r.Intn(4) {
			case 0:
				v.SetFloat(0)
			case 1:
				v.SetFloat(float64(r.Intn(1000)) / 7)
			default:
				v.SetFloat(float64(int64(r.Uint64()>>11)) / float64(1+r.Intn(1<<20)))
			}
		})
	case t.Kind() == reflect.String:
		n, forced := f.siteLen(rule, SiteString, false, key, path)
		f.Leaf(v, key, path, func(r *Rng, v reflect.Value) {
			m := n
			if rule.FixLen == 0 && !forced && r.Intn(4) == 0 { // perturbation may also change the length
				m = rule.MinLen + r.Intn(n-rule.MinLen+1)
			}
			v.SetString(genString(r, m))
		})
	case isByteSlice(t):
		n, forced := f.siteLen(rule, SiteBytes, false, key, path)
		f.Leaf(v, key, path, func(r *Rng, v reflect.Value) {
			m := n
			if rule.FixLen == 0 && !forced && r.Intn(4) == 0 {
				m = rule.MinLen + r.Intn(n-rule.MinLen+1)
			}
			v.SetBytes(r.Bytes(m))
		})
	case isByteArray(t):
		f.Leaf(v, key, path, func(r *Rng, v reflect.Value) {
			b := r.Bytes(v.Len())
			if r.Intn(16) == 0 {
				for i := range b {
					b[i] = 0
				}
			}
			reflect.Copy(v, reflect.ValueOf(b))
		})
	default:
		panic("leafValue: not a leaf type " + t.String())
	}
}

// Value fills v (addressable) generically. key is the "Type.Field" key the
// value is known under, path its instance path.
func (f *Filler) Value(v reflect.Value, key, path string) {
	f.valueRule(v, f.Cfg.Rules[key], key, path)
}

func (f *Filler) valueRule(v reflect.Value, rule Rule, key, path string) {
	if rule.Skip {
		return
	}
	v = Access(v)
	if rule.Build != nil {
		rule.Build(f, v, path)
		return
	}
	t := v.Type()
	if b, ok := f.Cfg.Types[t]; ok {
		b(f, v, path)
		return
	}
	if f.depth > f.Cfg.MaxDepth {
		return
	}
	f.depth++
	defer func() { f.depth-- }()

	if IsLeafType(t) {
		f.leafValue(v, rule, key, path)
		return
	}
	switch t.Kind() {
	case reflect.Ptr:
		if rule.NilOK && f.S.Intn(4) == 0 {
			return
		}
		p := reflect.New(t.Elem())
		f.valueRule(p.Elem(), Rule{MaxLen: rule.MaxLen, MinLen: rule.MinLen, FixLen: rule.FixLen, Values: rule.Values, MaxVal: rule.MaxVal, NonNeg: rule.NonNeg, ElemMaxLen: rule.ElemMaxLen, Cap: rule.Cap, ElemCap: rule.ElemCap}, key, path)
		v.Set(p)
	case reflect.Interface:
		impls := f.Cfg.Impl[t]
		if len(impls) == 0 || (rule.NilOK && f.S.Intn(4) == 0) {
			return
		}
		ct := impls[f.S.Intn(len(impls))]
		p := reflect.New(ct.Elem())
		f.Value(p.Elem(), TypeKey(ct), path)
		v.Set(p)
	case reflect.Struct:
		f.Struct(v, path)
	case reflect.Slice:
		n, _ := f.siteLen(rule, SiteSlice, IsLeafType(t.Elem()), key, path)
		s := reflect.MakeSlice(t, n, n)
		er := Rule{MaxLen: rule.ElemMaxLen, Cap: rule.ElemCap, Values: rule.Values, MaxVal: rule.MaxVal, NonNeg: rule.NonNeg}
		// elements draw from a sub-stream: what follows the container does not
		// depend on how many elements it has
		outer := f.S
		f.S = NewRng(outer.Uint64())
		for i := 0; i < n; i++ {
			f.valueRule(s.Index(i), er, key, fmt.Sprintf("%s[%d]", path, i))
		}
		f.S = outer
		v.Set(s)
	case reflect.Array:
		for i := 0; i < v.Len(); i++ {
			f.valueRule(v.Index(i), Rule{}, key, fmt.Sprintf("%s[%d]", path, i))
		}
	case reflect.Map:
		n, _ := f.siteLen(rule, SiteMap, IsLeafType(t.Elem()), key, path)
		m := reflect.MakeMapWithSize(t, n)
		er := Rule{MaxLen: rule.ElemMaxLen, Values: rule.Values, MaxVal: rule.MaxVal, NonNeg: rule.NonNeg}
		outer := f.S
		f.S = NewRng(outer.Uint64())
		defer func() { f.S = outer }()
		for i := 0; i < n; i++ {
			k := reflect.New(t.Key()).Elem()
			f.valueRule(k, Rule{MaxLen: rule.ElemMaxLen, MinLen: 1}, key+"#key", fmt.Sprintf("%s{k%d}", path, i))
			e := reflect.New(t.Elem()).Elem()
			f.valueRule(e, er, key, fmt.Sprintf("%s{v%d}", path, i))
			m.SetMapIndex(k, e)
		}
		v.Set(m)
	default:
		// func, chan, unsafe pointer: left zero
	}
}

// Struct fills every field of the struct value v and runs the Post hook.
func (f *Filler) Struct(v reflect.Value, path string) {
	t := v.Type()
	tk := TypeKey(t)
	for i := 0; i < t.NumField(); i++ {
		sf := t.Field(i)
		f.Value(v.Field(i), tk+"."+sf.Name, path+"."+sf.Name)
	}
	if p, ok := f.Cfg.Post[t]; ok {
		p(f, v, path)
	}
}

// Field fills one named field of struct value v with an explicit rule
// (for custom builders).
func (f *Filler) Field(v reflect.Value, name string, path string, rule *Rule) {
	tk := TypeKey(v.Type())
	fv := v.FieldByName(name)
	if !fv.IsValid() {
		panic("no field " + name + " in " + tk)
	}
	key := tk + "." + name
	r := f.Cfg.Rules[key]
	if rule != nil {
		r = *rule
	}
	f.valueRule(fv, r, key, path+"."+name)
}

// ---------------------------------------------------------------- diff

// DiffItem is one difference between two values.
type DiffItem struct {
	Key  string
	Path string
	A, B string
}

type differ struct {
	cfg   *Config
	out   []DiffItem
	depth int
}

// Diff deep-compares a and b (same static type). nil and empty slices/maps
// are equal; fields with a Skip rule are ignored.
func Diff(cfg *Config, a, b interface{}) []DiffItem {
	d := &differ{cfg: cfg}
	va, vb := reflect.ValueOf(a), reflect.ValueOf(b)
	if va.Type() != vb.Type() {
		return []DiffItem{{Key: TypeKey(va.Type()), Path: "", A: va.Type().String(), B: vb.Type().String()}}
	}
	d.walk(va, vb, TypeKey(va.Type()), "")
	sort.SliceStable(d.out, func(i, j int) bool { return d.out[i].Path < d.out[j].Path })
	return d.out
}

func short(v reflect.Value) string {
	if !v.IsValid() {
		return "<invalid>"
	}
	switch v.Kind() {
	case reflect.Ptr, reflect.Interface, reflect.Map, reflect.Slice:
		if v.IsNil() {
			return "nil"
		}
	}
	var s string
	switch {
	case v.Kind() == reflect.Bool:
		s = fmt.Sprint(v.Bool())
	case v.Kind() >= reflect.Int && v.Kind() <= reflect.Int64:
		s = fmt.Sprint(v.Int())
	case v.Kind() >= reflect.Uint && v.Kind() <= reflect.Uintptr:
		s = fmt.Sprint(v.Uint())
	case v.Kind() == reflect.Float32 || v.Kind() == reflect.Float64:
		s = fmt.Sprint(v.Float())
	case v.Kind() == reflect.String:
		s = fmt.Sprintf("%q", v.String())
	case isByteSlice(v.Type()):
		s = fmt.Sprintf("%x", v.Bytes())
	case isByteArray(v.Type()):
		b := make([]byte, v.Len())
		for i := range b {
			b[i] = byte(v.Index(i).Uint())
		}
		s = fmt.Sprintf("%x", b)
	case v.Kind() == reflect.Slice || v.Kind() == reflect.Map:
		s = fmt.Sprintf("%s(len %d)", v.Type(), v.Len())
	default:
		s = v.Type().String()
	}
	if len(s) > 80 {
		s = s[:80] + "…"
	}
	return s
}

func (d *differ) add(key, path string, a, b reflect.Value) {
	if len(d.out) < 200 {
		d.out = append(d.out, DiffItem{Key: key, Path: path, A: short(a), B: short(b)})
	}
}

func leafEqual(a, b reflect.Value) bool {
	switch {
	case a.Kind() == reflect.Bool:
		return a.Bool() == b.Bool()
	case a.Kind() >= reflect.Int && a.Kind() <= reflect.Int64:
		return a.Int() == b.Int()
	case a.Kind() >= reflect.Uint && a.Kind() <= reflect.Uintptr:
		return a.Uint() == b.Uint()
	case a.Kind() == reflect.Float32 || a.Kind() == reflect.Float64:
		return a.Float() == b.Float()
	case a.Kind() == reflect.String:
		return a.String() == b.String()
	case isByteSlice(a.Type()):
		if a.Len() != b.Len() {
			return false
		}
		for i := 0; i < a.Len(); i++ {
			if a.Index(i).Uint() != b.Index(i).Uint() {
				return false
			}
		}
		return true
	case isByteArray(a.Type()):
		for i := 0; i < a.Len(); i++ {
			if a.Index(i).Uint() != b.Index(i).Uint() {
				return false
			}
		}
		return true
	}
	return false
}

func (d *differ) walk(a, b reflect.Value, key, path string) {
	if d.depth > 64 {
		return
	}
	d.depth++
	defer func() { d.depth-- }()
	t := a.Type()
	if IsLeafType(t) {
		if !leafEqual(a, b) {
			d.add(key, path, a, b)
		}
		return
	}
	switch t.Kind() {
	case reflect.Ptr:
		if a.IsNil() || b.IsNil() {
			if a.IsNil() != b.IsNil() {
				d.add(key, path, a, b)
			}
			return
		}
		d.walk(a.Elem(), b.Elem(), key, path)
	case reflect.Interface:
		if a.IsNil() || b.IsNil() {
			if a.IsNil() != b.IsNil() {
				d.add(key, path, a, b)
			}
			return
		}
		ea, eb := a.Elem(), b.Elem()
		if ea.Type() != eb.Type() {
			d.out = append(d.out, DiffItem{Key: key, Path: path, A: ea.Type().String(), B: eb.Type().String()})
			return
		}
		d.walk(ea, eb, TypeKey(ea.Type()), path)
	case reflect.Struct:
		tk := TypeKey(t)
		for i := 0; i < t.NumField(); i++ {
			fk := tk + "." + t.Field(i).Name
			if d.cfg != nil && d.cfg.Rules[fk].Skip {
				continue
			}
			d.walk(a.Field(i), b.Field(i), fk, path+"."+t.Field(i).Name)
		}
	case reflect.Slice:
		if a.Len() != b.Len() {
			d.add(key, path, a, b)
			return
		}
		for i := 0; i < a.Len(); i++ {
			d.walk(a.Index(i), b.Index(i), key, fmt.Sprintf("%s[%d]", path, i))
		}
	case reflect.Array:
		for i := 0; i < a.Len(); i++ {
			d.walk(a.Index(i), b.Index(i), key, fmt.Sprintf("%s[%d]", path, i))
		}
	case reflect.Map:
		if a.Len() != b.Len() {
			d.add(key, path, a, b)
			// still report which keys are missing
		}
		for _, k := range a.MapKeys() {
			bv := b.MapIndex(k)
			if !bv.IsValid() {
				d.out = append(d.out, DiffItem{Key: key + "#key", Path: path + "{" + short(k) + "}", A: "present", B: "missing"})
				continue
			}
			d.walk(a.MapIndex(k), bv, key, path+"{"+short(k)+"}")
		}
		for _, k := range b.MapKeys() {
			if !a.MapIndex(k).IsValid() {
				d.out = append(d.out, DiffItem{Key: key + "#key", Path: path + "{" + short(k) + "}", A: "missing", B: "present"})
			}
		}
	default:
		// func / chan: ignored
	}
}

// ---------------------------------------------------------------- canon

// Canon canonicalises *ptr in place: empty slices and maps become nil and
// Skip fields are zeroed, so that reflect.DeepEqual agrees with Diff.
func Canon(cfg *Config, ptr interface{}) {
	v := reflect.ValueOf(ptr)
	if v.Kind() != reflect.Ptr || v.IsNil() {
		return
	}
	canon(cfg, v.Elem(), 0)
}

func canon(cfg *Config, v reflect.Value, depth int) {
	if depth > 64 {
		return
	}
	v = Access(v)
	t := v.Type()
	switch t.Kind() {
	case reflect.Ptr:
		if !v.IsNil() {
			canon(cfg, v.Elem(), depth+1)
		}
	case reflect.Interface:
		if !v.IsNil() {
			e := v.Elem()
			if e.Kind() == reflect.Ptr && !e.IsNil() {
				canon(cfg, e.Elem(), depth+1)
			}
		}
	case reflect.Struct:
		tk := TypeKey(t)
		for i := 0; i < t.NumField(); i++ {
			fv := Access(v.Field(i))
			if cfg != nil && cfg.Rules[tk+"."+t.Field(i).Name].Skip {
				if fv.CanSet() {
					fv.Set(reflect.Zero(fv.Type()))
				}
				continue
			}
			canon(cfg, fv, depth+1)
		}
	case reflect.Slice:
		if v.Len() == 0 {
			if !v.IsNil() && v.CanSet() {
				v.Set(reflect.Zero(t))
			}
			return
		}
		if isByteSlice(t) {
			return
		}
		for i := 0; i < v.Len(); i++ {
			canon(cfg, v.Index(i), depth+1)
		}
	case reflect.Array:
		if isByteArray(t) {
			return
		}
		for i := 0; i < v.Len(); i++ {
			canon(cfg, v.Index(i), depth+1)
		}
	case reflect.Map:
		if v.Len() == 0 {
			if !v.IsNil() && v.CanSet() {
				v.Set(reflect.Zero(t))
			}
			return
		}
		et := t.Elem()
		if IsLeafType(et) {
			return
		}
		for _, k := range v.MapKeys() {
			e := v.MapIndex(k)
			if et.Kind() == reflect.Ptr {
				if !e.IsNil() {
					canon(cfg, e.Elem(), depth+1)
				}
				continue
			}
			cp := reflect.New(et).Elem()
			cp.Set(e)
			canon(cfg, cp, depth+1)
			v.SetMapIndex(k, cp)
		}
	}
}

// DeepEqualCanon canonicalises both (in place!) and compares with
// reflect.DeepEqual. Use on throw-away values.
func DeepEqualCanon(cfg *Config, a, b interface{}) bool {
	Canon(cfg, a)
	Canon(cfg, b)
	return reflect.DeepEqual(a, b)
}

// ---------------------------------------------------------------- coverage

// KeyStat aggregates what was observed for one leaf key.
type KeyStat struct {
	Seen       int
	NonZero    int
	Carried    int // perturbation changed the bytes
	NotCarried int // perturbation left the bytes unchanged
}

// Coverage aggregates leaf statistics over many instances.
type Coverage struct {
	Keys map[string]*KeyStat
}

func NewCoverage() *Coverage { return &Coverage{Keys: map[string]*KeyStat{}} }

func (c *Coverage) stat(k string) *KeyStat {
	s := c.Keys[k]
	if s == nil {
		s = &KeyStat{}
		c.Keys[k] = s
	}
	return s
}

// AddLeaves records the leaves of one generated instance.
func (c *Coverage) AddLeaves(ls []LeafInfo) {
	for _, l := range ls {
		s := c.stat(l.Key)
		s.Seen++
		if l.NonZero {
			s.NonZero++
		}
	}
}

// AddSensitivity records the outcome of perturbing one leaf.
func (c *Coverage) AddSensitivity(key string, carried bool) {
	s := c.stat(key)
	if carried {
		s.Carried++
	} else {
		s.NotCarried++
	}
}

// NeverNonZero lists keys that were generated but never non-zero.
func (c *Coverage) NeverNonZero() []string {
	var out []string
	for k, s := range c.Keys {
		if s.Seen > 0 && s.NonZero == 0 {
			out = append(out, k)
		}
	}
	sort.Strings(out)
	return out
}

// NeverCarried lists keys that were perturbed at least once and never
// changed the serialised bytes.
func (c *Coverage) NeverCarried() []string {
	var out []string
	for k, s := range c.Keys {
		if s.NotCarried > 0 && s.Carried == 0 {
			out = append(out, k)
		}
	}
	sort.Strings(out)
	return out
}

// NeverPerturbed lists keys that were generated but never sensitivity-tested.
func (c *Coverage) NeverPerturbed() []string {
	var out []string
	for k, s := range c.Keys {
		if s.Seen > 0 && s.Carried+s.NotCarried == 0 {
			out = append(out, k)
		}
	}
	sort.Strings(out)
	return out
}

// ---------------------------------------------------------------- codec harness

// Codec binds a generator to an encoder/decoder pair.
type Codec struct {
	// Gen builds a value from f. Must be deterministic in f.
	Gen func(f *Filler) interface{}
	Enc func(v interface{}) ([]byte, error)
	// Dec decodes b; rest is the number of unread bytes.
	Dec func(b []byte) (v interface{}, rest int, err error)
}

// Outcome is the result of one round trip.
type Outcome struct {
	Value, Decoded interface{}
	Leaves         []LeafInfo
	Sites          []SiteInfo
	Bytes          []byte
	EncErr         error
	DecErr         error
	Rest           int
	Unordered      bool // two encodings of the same value differ (map iteration)
	ReEncErr       error
	ReEncDiffers   bool
	Diffs          []DiffItem
}

// RoundTrip generates the value for seed, encodes, decodes, re-encodes and
// diffs. It does not judge.
func RoundTrip(cfg *Config, seed uint64, c Codec) *Outcome {
	o := &Outcome{}
	f := New(cfg, seed)
	o.Value = c.Gen(f)
	o.Leaves = f.Leaves
	o.Sites = f.Sites
	o.Bytes, o.EncErr = c.Enc(o.Value)
	if o.EncErr != nil {
		return o
	}
	b2, err := c.Enc(o.Value)
	if err != nil || string(b2) != string(o.Bytes) {
		o.Unordered = true
	}
	o.Decoded, o.Rest, o.DecErr = c.Dec(o.Bytes)
	if o.DecErr != nil {
		return o
	}
	b3, err := c.Enc(o.Decoded)
	o.ReEncErr = err
	if err == nil && !o.Unordered && string(b3) != string(o.Bytes) {
		o.ReEncDiffers = true
	}
	o.Diffs = Diff(cfg, o.Value, o.Decoded)
	return o
}

// LeafCarried tells whether perturbing leaf k of the instance for seed
// changes the encoding. ok=false when the perturbation was impossible or an
// encoding failed.
func LeafCarried(cfg *Config, seed uint64, c Codec, base []byte, k int) (carried, ok bool, info LeafInfo) {
	f := NewPerturbed(cfg, seed, k)
	v := c.Gen(f)
	info, has := f.PerturbedLeaf()
	if f.PerturbFailed || !has {
		return false, false, info
	}
	b, err := c.Enc(v)
	if err != nil {
		return false, false, info
	}
	return string(b) != string(base), true, info
}

// PerturbedBytes returns the encoding of the instance with leaf k perturbed.
func PerturbedBytes(cfg *Config, seed uint64, c Codec, k int) (b []byte, info LeafInfo, ok bool) {
	f := NewPerturbed(cfg, seed, k)
	v := c.Gen(f)
	info, has := f.PerturbedLeaf()
	if f.PerturbFailed || !has {
		return nil, info, false
	}
	b, err := c.Enc(v)
	if err != nil {
		return nil, info, false
	}
	return b, info, true
}

// PathUnder reports whether leaf path p lies at or below diff path d.
func PathUnder(p, d string) bool {
	if p == d {
		return true
	}
	if strings.HasPrefix(p, d) {
		c := p[len(d)]
		return c == '.' || c == '[' || c == '{'
	}
	return false
}

// ---------------------------------------------------------------- boundary lengths

// BoundaryLengths are the lengths/counts at which the var-int encoding of a
// length changes width (0xfc|0xfd and 0xffff|0x10000) plus their neighbours.
var BoundaryLengths = []int{252, 253, 254, 255, 256, 65535, 65536}

// VarUintBoundaries are the corresponding values for integer fields that are
// themselves written as var-ints.
var VarUintBoundaries = []uint64{0xfc, 0xfd, 0xfe, 0xffff, 0x10000, 0xffffffff, 0x100000000}

// BoundaryCase asks for site number Site of an instance to get length Len.
type BoundaryCase struct {
	Site int
	Len  int
	Info SiteInfo
}

// BoundaryPlan lists, for the sites of one generated instance, every
// admissible boundary length: not above the decoder cap; element counts only
// up to 256 unless the elements are leaves and longLists is set (cost). Each
// (key, kind) is planned once (first occurrence). lowCap receives the sites
// whose cap is below 253.
func BoundaryPlan(sites []SiteInfo, longLists bool) (plan []BoundaryCase, lowCap []SiteInfo) {
	type kk struct {
		k string
		t SiteKind
	}
	seen := map[kk]bool{}
	for i, s := range sites {
		id := kk{s.Key, s.Kind}
		if seen[id] {
			continue
		}
		seen[id] = true
		if s.Cap < BoundaryLengths[1] {
			lowCap = append(lowCap, s)
		}
		for _, l := range BoundaryLengths {
			if l > s.Cap {
				continue
			}
			if (s.Kind == SiteSlice || s.Kind == SiteMap) && l > 256 && !(s.ElemLeaf && longLists) {
				continue
			}
			plan = append(plan, BoundaryCase{Site: i, Len: l, Info: s})
		}
	}
	return plan, lowCap
}

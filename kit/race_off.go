//go:build !race

package kit

const RaceEnabled = false

package kit

import (
	"bufio"
	"encoding/json"
	"fmt"
	"os"
	"os/exec"
	"path/filepath"
	"sort"
	"strconv"
	"strings"
	"sync"
	"syscall"
	"time"
)

// Spec describes one property check.
type Spec struct {
	ID    string
	Level string // evidence level: exploration | fault_enumeration | ...
	Rule  string // how cases are generated and what non-trivial means
	// Shards returns the number of child processes for a tier.
	Shards func(tier string) int
	// Run is the workload + monitors, executed inside a child process.
	Run func(c *Ctx)
	// Race: children are the -race build of this binary.
	Race bool
	// FatalIsViolation: a child that dies (fatal error, OOM, unrecovered panic
	// in a foreign goroutine) counts as a violation attributed to the last
	// Begin record (C02/C03/C40); otherwise it is inconclusive.
	FatalIsViolation bool
	// FatalSig derives a violation signature from the last begin line + stderr.
	FatalSig func(lastBegin, stderr string) string
	// MemLimitMB: RLIMIT_AS for children (0 = none). Ignored for race builds.
	MemLimitMB int
	// Require lists counters that must be > 0 after aggregation, else the run
	// is inconclusive (a monitor that observed nothing must not pass).
	Require []string
	// TimeoutS: per-child wall-clock watchdog (inconclusive when it fires).
	TimeoutS func(tier string) int
	// Parallel limits concurrently running children (default 16).
	Parallel int
	// Assumptions go into the evidence file.
	Assumptions []string
	// Post runs in the parent after aggregation and may add violations /
	// inconclusives that need the whole picture (e.g. coverage unions).
	Post func(a *Agg)
	// Env adds environment for children.
	Env []string
	// RaceSig optionally maps a raw race signature ("fnA|fnB", innermost
	// repository functions of the two access stacks) to the signature that is
	// reported (e.g. a root-cause family). Default: "race:"+raw.
	RaceSig func(raw string) string
}

var registry = map[string]*Spec{}

func Register(s *Spec) {
	if s.Level == "" {
		s.Level = "exploration"
	}
	registry[s.ID] = s
}

func Lookup(id string) *Spec { return registry[id] }

func IDs() []string {
	var ids []string
	for k := range registry {
		ids = append(ids, k)
	}
	sort.Strings(ids)
	return ids
}

// Agg is the parent-side aggregation of all shards.
type Agg struct {
	Spec       *Spec
	Tier       string
	Seed       int64
	Counters   map[string]int64
	Distinct   map[string]bool
	Samples    []interface{}
	Violations []Violation
	Notes      []string
	Inconcl    []string
}

func (a *Agg) Violate(sig, detail string, cas interface{}) {
	a.Violations = append(a.Violations, Violation{Sig: sig, Detail: detail, Case: cas})
}
func (a *Agg) Inconclusive(format string, x ...interface{}) {
	a.Inconcl = append(a.Inconcl, fmt.Sprintf(format, x...))
}

// VerifDir is where evidence/, replay/, .work/ and known_findings.json live.
// VERIF_DIR overrides it (used only for scratch copies during development).
var VerifDir = func() string {
	if d := os.Getenv("VERIF_DIR"); d != "" {
		return d
	}
	return "/verif"
}()

func seedFromEnv() int64 {
	if s := os.Getenv("VERIF_SEED"); s != "" {
		if v, err := strconv.ParseInt(s, 10, 64); err == nil {
			return v
		}
	}
	return 1
}

// ChildMain is the entry point when the binary is re-executed as a worker.
func ChildMain(args []string) int {
	// args: prop tier seed shard shards workdir
	if len(args) < 6 {
		fmt.Fprintln(os.Stderr, "child: bad args")
		return 2
	}
	spec := Lookup(args[0])
	if spec == nil {
		fmt.Fprintln(os.Stderr, "child: unknown property", args[0])
		return 2
	}
	seed, _ := strconv.ParseInt(args[2], 10, 64)
	shard, _ := strconv.Atoi(args[3])
	shards, _ := strconv.Atoi(args[4])
	c := NewCtx(args[0], args[1], seed, shard, shards, args[5])
	c.Race = RaceEnabled
	if spec.MemLimitMB > 0 && !RaceEnabled {
		lim := uint64(spec.MemLimitMB) << 20
		syscall.Setrlimit(syscall.RLIMIT_AS, &syscall.Rlimit{Cur: lim, Max: lim})
	}
	spec.Run(c)
	c.finish()
	return 0
}

// ParentMain runs a check: spawn shards, aggregate, write evidence, print verdict.
func ParentMain(prop, tier string, replay string) int {
	spec := Lookup(prop)
	if spec == nil {
		fmt.Fprintf(os.Stderr, "unknown property %s; known: %v\n", prop, IDs())
		return 2
	}
	start := time.Now()
	seed := seedFromEnv()
	onlyShard := -1
	if replay != "" {
		var rp struct {
			Prop   string `json:"property"`
			Tier   string `json:"tier"`
			Seed   int64  `json:"seed"`
			Shard  int    `json:"shard"`
			Shards int    `json:"shards"`
		}
		b, err := os.ReadFile(replay)
		if err != nil || json.Unmarshal(b, &rp) != nil {
			fmt.Fprintln(os.Stderr, "cannot read replay file", replay)
			return 2
		}
		tier, seed, onlyShard = rp.Tier, rp.Seed, rp.Shard
	}
	shards := 1
	if spec.Shards != nil {
		shards = spec.Shards(tier)
	}
	if shards < 1 {
		shards = 1
	}
	root := filepath.Join(VerifDir, ".work", fmt.Sprintf("%s-%s-%d-%d", prop, tier, seed, os.Getpid()))
	os.RemoveAll(root)
	os.MkdirAll(root, 0755)
	keep := os.Getenv("VERIF_KEEP") != ""
	defer func() {
		if !keep {
			os.RemoveAll(root)
		}
	}()

	self, _ := os.Executable()
	bin := self
	if spec.Race {
		bin = filepath.Join(filepath.Dir(self), "vcheck-race")
		if _, err := os.Stat(bin); err != nil {
			fmt.Fprintln(os.Stderr, "race build missing:", bin)
			return 2
		}
	}
	par := spec.Parallel
	if par <= 0 {
		par = 16
	}
	timeout := 900
	if spec.TimeoutS != nil {
		timeout = spec.TimeoutS(tier)
	}

	agg := &Agg{Spec: spec, Tier: tier, Seed: seed, Counters: map[string]int64{}, Distinct: map[string]bool{}}
	var mu sync.Mutex
	sem := make(chan struct{}, par)
	var wg sync.WaitGroup
	for i := 0; i < shards; i++ {
		if onlyShard >= 0 && i != onlyShard {
			continue
		}
		wg.Add(1)
		sem <- struct{}{}
		go func(i int) {
			defer wg.Done()
			defer func() { <-sem }()
			wd := filepath.Join(root, fmt.Sprintf("s%03d", i))
			os.MkdirAll(wd, 0755)
			errF, _ := os.Create(filepath.Join(wd, "stderr.txt"))
			outF, _ := os.Create(filepath.Join(wd, "stdout.txt"))
			cmd := exec.Command(bin, "--child", prop, tier, strconv.FormatInt(seed, 10),
				strconv.Itoa(i), strconv.Itoa(shards), wd)
			cmd.Stdout, cmd.Stderr = outF, errF
			cmd.Env = append(os.Environ(), spec.Env...)
			if spec.Race {
				cmd.Env = append(cmd.Env, "GORACE=halt_on_error=0 history_size=7 log_path="+filepath.Join(wd, "race"))
			}
			cmd.SysProcAttr = &syscall.SysProcAttr{Setpgid: true}
			err := cmd.Start()
			timedOut := false
			if err == nil {
				done := make(chan error, 1)
				go func() { done <- cmd.Wait() }()
				select {
				case err = <-done:
				case <-time.After(time.Duration(timeout) * time.Second):
					timedOut = true
					syscall.Kill(-cmd.Process.Pid, syscall.SIGQUIT)
					select {
					case err = <-done:
					case <-time.After(10 * time.Second):
						syscall.Kill(-cmd.Process.Pid, syscall.SIGKILL)
						err = <-done
					}
				}
			}
			errF.Close()
			outF.Close()
			var res Result
			b, rerr := os.ReadFile(filepath.Join(wd, "result.json"))
			if rerr == nil {
				rerr = json.Unmarshal(b, &res)
			}
			mu.Lock()
			defer mu.Unlock()
			if rerr == nil && res.Done {
				mergeResult(agg, &res, i)
				if spec.Race {
					collectRaces(agg, wd, i)
				}
				return
			}
			// child died without a result
			if spec.Race {
				collectRaces(agg, wd, i)
			}
			last := lastLine(filepath.Join(wd, "begin.log"))
			stderr := tail(filepath.Join(wd, "stderr.txt"), 6000)
			if timedOut {
				agg.Inconcl = append(agg.Inconcl, fmt.Sprintf("shard %d: watchdog (%ds) fired; last case: %s", i, timeout, last))
				saveArtifact(prop, fmt.Sprintf("watchdog-s%d.txt", i), stderr)
				return
			}
			if spec.FatalIsViolation && last != "" {
				sig := "fatal:" + firstFatalLine(stderr)
				if spec.FatalSig != nil {
					sig = spec.FatalSig(last, stderr)
				}
				agg.Violations = append(agg.Violations, Violation{Sig: sig,
					Detail: "process died during case: " + last + " :: " + firstFatalLine(stderr),
					Case:   map[string]interface{}{"shard": i, "last_begin": last, "stderr_tail": tailStr(stderr, 1500)}})
				return
			}
			agg.Inconcl = append(agg.Inconcl, fmt.Sprintf("shard %d died (%v) without result; last case: %q; stderr: %s", i, err, last, tailStr(stderr, 800)))
		}(i)
	}
	wg.Wait()

	for _, k := range spec.Require {
		if agg.Counters[k] <= 0 {
			agg.Inconcl = append(agg.Inconcl, "required coverage counter is zero: "+k)
		}
	}
	if spec.Post != nil {
		spec.Post(agg)
	}
	return conclude(agg, start, shards, replay != "")
}

func mergeResult(a *Agg, r *Result, shard int) {
	for k, v := range r.Counters {
		if strings.HasPrefix(k, "max:") {
			if v > a.Counters[k] {
				a.Counters[k] = v
			}
		} else {
			a.Counters[k] += v
		}
	}
	for k, v := range r.Distinct {
		a.Distinct[k] = a.Distinct[k] || v
	}
	if len(a.Samples) < 8 {
		n := 2
		if len(r.Samples) < n {
			n = len(r.Samples)
		}
		a.Samples = append(a.Samples, r.Samples[:n]...)
	}
	for _, v := range r.Violations {
		if m, ok := v.Case.(map[string]interface{}); ok {
			m["shard"] = shard
		} else {
			v.Case = map[string]interface{}{"shard": shard, "case": v.Case}
		}
		a.Violations = append(a.Violations, v)
	}
	a.Notes = append(a.Notes, r.Notes...)
	a.Inconcl = append(a.Inconcl, r.Inconcl...)
}

func lastLine(path string) string {
	f, err := os.Open(path)
	if err != nil {
		return ""
	}
	defer f.Close()
	sc := bufio.NewScanner(f)
	sc.Buffer(make([]byte, 1<<20), 64<<20)
	last := ""
	for sc.Scan() {
		if t := sc.Text(); t != "" {
			last = t
		}
	}
	return last
}

func tail(path string, n int) string {
	b, err := os.ReadFile(path)
	if err != nil {
		return ""
	}
	return string(b)
}

func tailStr(s string, n int) string {
	if len(s) > n {
		return s[:n]
	}
	return s
}

func firstFatalLine(stderr string) string {
	for _, l := range strings.Split(stderr, "\n") {
		if strings.HasPrefix(l, "fatal error:") || strings.HasPrefix(l, "panic:") || strings.HasPrefix(l, "runtime:") {
			return strings.TrimSpace(l)
		}
	}
	ls := strings.Split(strings.TrimSpace(stderr), "\n")
	if len(ls) > 0 {
		return ls[0]
	}
	return "unknown"
}

func saveArtifact(prop, name, content string) string {
	dir := filepath.Join(VerifDir, "replay", prop)
	os.MkdirAll(dir, 0755)
	p := filepath.Join(dir, name)
	os.WriteFile(p, []byte(content), 0644)
	return p
}

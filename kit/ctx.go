// Package kit is the shared runtime-monitoring harness: seeded PRNG, the
// observation context each property workload reports into, child-process
// isolation, evidence and known-finding handling.
package kit

import (
	"crypto/sha256"
	"encoding/hex"
	"encoding/json"
	"fmt"
	"math/rand"
	"os"
	"path/filepath"
	"runtime/debug"
	"sort"
	"sync"
)

// distinctCap bounds the per-shard set of tracked case hashes (counts beyond it
// are conservative: further distinct cases are not counted).
const distinctCap = 60000

// Violation is one observed refutation of a property.
type Violation struct {
	Sig    string      `json:"sig"`    // stable signature (call site / input class / history shape)
	Detail string      `json:"detail"` // human readable
	Case   interface{} `json:"case,omitempty"`
}

// Result is what one child process (one shard) hands back to the parent.
type Result struct {
	Prop       string           `json:"prop"`
	Shard      int              `json:"shard"`
	Counters   map[string]int64 `json:"counters"`
	Distinct   map[string]bool  `json:"distinct"` // case hash -> nontrivial
	Samples    []interface{}    `json:"samples"`
	Violations []Violation      `json:"violations"`
	Notes      []string         `json:"notes"`
	Inconcl    []string         `json:"inconclusive"`
	Done       bool             `json:"done"`
}

// Ctx is handed to a property workload running inside a child process.
type Ctx struct {
	Prop    string
	Tier    string
	Seed    int64
	Shard   int
	Shards  int
	WorkDir string // private scratch dir of this shard (removed by the parent)
	Race    bool

	mu       sync.Mutex
	res      Result
	beginF   *os.File
	maxSamp  int
	maxViol  int
	violSigs map[string]int
}

func NewCtx(prop, tier string, seed int64, shard, shards int, workdir string) *Ctx {
	c := &Ctx{Prop: prop, Tier: tier, Seed: seed, Shard: shard, Shards: shards, WorkDir: workdir,
		maxSamp: 4, maxViol: 400, violSigs: map[string]int{}}
	c.res = Result{Prop: prop, Shard: shard, Counters: map[string]int64{}, Distinct: map[string]bool{}}
	f, err := os.OpenFile(filepath.Join(workdir, "begin.log"), os.O_CREATE|os.O_WRONLY|os.O_APPEND, 0644)
	if err == nil {
		c.beginF = f
	}
	return c
}

// Quick reports whether this is the quick tier.
func (c *Ctx) Quick() bool { return c.Tier != "thorough" }

// N picks the case count by tier.
func (c *Ctx) N(quick, thorough int) int {
	if c.Quick() {
		return quick
	}
	return thorough
}

// Rand returns a PRNG determined by (seed, shard, stream name).
func (c *Ctx) Rand(stream string) *rand.Rand {
	h := sha256.Sum256([]byte(fmt.Sprintf("%d/%d/%s/%s", c.Seed, c.Shard, c.Prop, stream)))
	var s int64
	for i := 0; i < 8; i++ {
		s = s<<8 | int64(h[i])
	}
	return rand.New(rand.NewSource(s))
}

// Begin records, durably and before the case runs, which case is about to
// execute, so that a process-fatal event is attributable by the parent.
func (c *Ctx) Begin(format string, a ...interface{}) {
	if c.beginF != nil {
		fmt.Fprintf(c.beginF, format+"\n", a...)
	}
}

func (c *Ctx) Count(key string, n int64) {
	c.mu.Lock()
	c.res.Counters[key] += n
	c.mu.Unlock()
}

func (c *Ctx) Inc(key string) { c.Count(key, 1) }

// Max keeps the maximum of a gauge.
func (c *Ctx) Max(key string, v int64) {
	c.mu.Lock()
	if cur, ok := c.res.Counters[key]; !ok || v > cur {
		c.res.Counters[key] = v
	}
	c.mu.Unlock()
}

// Case records one evaluated case: id is hashed for distinctness; nontrivial
// says whether it reached the monitored code in a meaningful way.
func (c *Ctx) Case(id string, nontrivial bool) {
	h := sha256.Sum256([]byte(id))
	k := hex.EncodeToString(h[:8])
	c.mu.Lock()
	c.res.Counters["evaluations"]++
	if _, ok := c.res.Distinct[k]; !ok && len(c.res.Distinct) >= distinctCap {
		c.res.Counters["distinct_tracking_capped"]++
	} else if nontrivial {
		c.res.Distinct[k] = true
	} else if !ok {
		c.res.Distinct[k] = false
	}
	c.mu.Unlock()
}

// CaseBytes is Case for binary ids.
func (c *Ctx) CaseBytes(id []byte, nontrivial bool) { c.Case(string(id), nontrivial) }

func (c *Ctx) Sample(s interface{}) {
	c.mu.Lock()
	if len(c.res.Samples) < c.maxSamp {
		c.res.Samples = append(c.res.Samples, s)
	}
	c.mu.Unlock()
}

func (c *Ctx) Note(format string, a ...interface{}) {
	c.mu.Lock()
	if len(c.res.Notes) < 50 {
		c.res.Notes = append(c.res.Notes, fmt.Sprintf(format, a...))
	}
	c.mu.Unlock()
}

// Inconclusive marks the run as unable to decide (structural failure).
func (c *Ctx) Inconclusive(format string, a ...interface{}) {
	c.mu.Lock()
	if len(c.res.Inconcl) < 20 {
		c.res.Inconcl = append(c.res.Inconcl, fmt.Sprintf(format, a...))
	}
	c.mu.Unlock()
}

// Violate records a violation. Per signature only the first few witnesses
// are kept.
func (c *Ctx) Violate(sig, detail string, cas interface{}) {
	c.mu.Lock()
	defer c.mu.Unlock()
	c.res.Counters["violations_observed"]++
	c.violSigs[sig]++
	if c.violSigs[sig] > 1 || len(c.res.Violations) >= c.maxViol {
		return
	}
	c.res.Violations = append(c.res.Violations, Violation{Sig: sig, Detail: detail, Case: cas})
}

// Guard runs f, converting a panic into (panicked=true, value, stack).
func Guard(f func()) (panicked bool, val interface{}, stack string) {
	defer func() {
		if r := recover(); r != nil {
			panicked = true
			val = r
			stack = string(debug.Stack())
		}
	}()
	f()
	return
}

func (c *Ctx) finish() {
	c.mu.Lock()
	defer c.mu.Unlock()
	c.res.Done = true
	b, _ := json.Marshal(&c.res)
	tmp := filepath.Join(c.WorkDir, "result.json.tmp")
	os.WriteFile(tmp, b, 0644)
	os.Rename(tmp, filepath.Join(c.WorkDir, "result.json"))
}

// SortedKeys is a helper for deterministic iteration.
func SortedKeys(m map[string]int64) []string {
	ks := make([]string, 0, len(m))
	for k := range m {
		ks = append(ks, k)
	}
	sort.Strings(ks)
	return ks
}

// Hex is a tiny helper.
func Hex(b []byte) string { return hex.EncodeToString(b) }

// HashID returns a short hash string of arbitrary bytes.
func HashID(b []byte) string {
	h := sha256.Sum256(b)
	return hex.EncodeToString(h[:8])
}

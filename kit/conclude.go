package kit

import (
	"encoding/json"
	"fmt"
	"os"
	"path/filepath"
	"regexp"
	"sort"
	"strings"
	"time"
)

// Finding is one entry of /verif/known_findings.json.
type Finding struct {
	Property  string `json:"property"`
	Signature string `json:"signature"` // exact violation signature, or prefix ending in '*'
	What      string `json:"what"`
}

type findingsFile struct {
	Findings []Finding `json:"findings"`
	Fixed    []string  `json:"fixed"`
}

func loadFindings() []Finding {
	b, err := os.ReadFile(filepath.Join(VerifDir, "known_findings.json"))
	if err != nil {
		return nil
	}
	var f findingsFile
	if json.Unmarshal(b, &f) != nil {
		return nil
	}
	return f.Findings
}

func matchFinding(fs []Finding, prop, sig string) *Finding {
	for i := range fs {
		f := &fs[i]
		if f.Property != prop {
			continue
		}
		if f.Signature == sig {
			return f
		}
	}
	return nil
}

func conclude(a *Agg, start time.Time, shards int, isReplay bool) int {
	spec := a.Spec
	findings := loadFindings()
	nontriv := 0
	for _, v := range a.Distinct {
		if v {
			nontriv++
		}
	}
	// classify violations
	type vrec struct {
		v     Violation
		known *Finding
	}
	var recs []vrec
	bySig := map[string]int{}
	for _, v := range a.Violations {
		bySig[v.Sig]++
		if bySig[v.Sig] > 1 {
			continue
		}
		recs = append(recs, vrec{v, matchFinding(findings, spec.ID, v.Sig)})
	}
	sort.Slice(recs, func(i, j int) bool { return recs[i].v.Sig < recs[j].v.Sig })
	unlisted := 0
	knownSeen := []string{}
	for _, r := range recs {
		if r.known != nil {
			fmt.Printf("KNOWN-FINDING: property=%s %s [%s]\n", spec.ID, r.known.What, r.v.Sig)
			knownSeen = append(knownSeen, r.v.Sig)
			continue
		}
		unlisted++
		rp := map[string]interface{}{"property": spec.ID, "tier": a.Tier, "seed": a.Seed, "shards": shards,
			"signature": r.v.Sig, "detail": r.v.Detail, "case": r.v.Case}
		if m, ok := r.v.Case.(map[string]interface{}); ok {
			if s, ok := m["shard"]; ok {
				rp["shard"] = s
			}
		}
		b, _ := json.MarshalIndent(rp, "", " ")
		name := sanitize(r.v.Sig) + ".json"
		p := saveArtifact(spec.ID, name, string(b))
		fmt.Printf("VIOLATION property=%s replay=%s\n", spec.ID, p)
		fmt.Printf("  signature: %s\n  detail: %s\n", r.v.Sig, tailStr(r.v.Detail, 600))
	}
	evals := a.Counters["evaluations"]
	cov := map[string]interface{}{
		"evaluations":         evals,
		"distinct_nontrivial": nontriv,
		"distinct_total":      len(a.Distinct),
		"rule":                spec.Rule,
		"samples":             a.Samples,
		"counters":            a.Counters,
		"shards":              shards,
		"known_findings_seen": knownSeen,
	}
	if len(a.Notes) > 0 {
		n := a.Notes
		if len(n) > 30 {
			n = n[:30]
		}
		cov["notes"] = n
	}
	if len(a.Inconcl) > 0 {
		cov["inconclusive"] = a.Inconcl
	}
	if len(a.Samples) == 0 {
		cov["samples"] = []interface{}{"(no sample recorded)"}
	}
	var vs []map[string]string
	for _, r := range recs {
		st := "unlisted"
		if r.known != nil {
			st = "known-finding"
		}
		vs = append(vs, map[string]string{"signature": r.v.Sig, "status": st, "detail": tailStr(r.v.Detail, 300)})
	}
	if len(vs) > 0 {
		cov["violation_signatures"] = vs
	}
	ev := map[string]interface{}{
		"property_id": spec.ID,
		"tier":        a.Tier,
		"seed":        a.Seed,
		"level":       spec.Level,
		"coverage":    cov,
		"assumptions": spec.Assumptions,
		"wall_s":      time.Since(start).Seconds(),
		"violations":  unlisted,
	}
	if spec.Assumptions == nil {
		ev["assumptions"] = []string{}
	}
	if !isReplay {
		os.MkdirAll(filepath.Join(VerifDir, "evidence"), 0755)
		b, _ := json.MarshalIndent(ev, "", " ")
		os.WriteFile(filepath.Join(VerifDir, "evidence", spec.ID+".json"), append(b, '\n'), 0644)
	}
	fmt.Printf("%s tier=%s seed=%d evaluations=%d distinct_nontrivial=%d violations(unlisted)=%d known=%d inconclusive=%d wall=%.1fs\n",
		spec.ID, a.Tier, a.Seed, evals, nontriv, unlisted, len(knownSeen), len(a.Inconcl), time.Since(start).Seconds())
	for i, s := range a.Inconcl {
		if i < 8 {
			fmt.Println("INCONCLUSIVE:", tailStr(s, 1000))
		}
	}
	if unlisted > 0 {
		return 1
	}
	if len(a.Inconcl) > 0 {
		return 2
	}
	if evals == 0 || nontriv < 2 {
		fmt.Println("INCONCLUSIVE: too few non-trivial cases observed")
		return 2
	}
	return 0
}

var nonWord = regexp.MustCompile(`[^A-Za-z0-9_.-]+`)

func sanitize(s string) string {
	s = nonWord.ReplaceAllString(s, "_")
	if len(s) > 80 {
		s = s[:80] + "_" + HashID([]byte(s))
	}
	return s
}

// ---- race log handling ----

var lineNo = regexp.MustCompile(`:\d+ \+0x[0-9a-f]+`)

// collectRaces parses race detector logs of one shard, deduplicates reports
// by the pair of innermost /repo frames and records them as violations.
func collectRaces(a *Agg, wd string, shard int) {
	ms, _ := filepath.Glob(filepath.Join(wd, "race.*"))
	for _, m := range ms {
		b, err := os.ReadFile(m)
		if err != nil {
			continue
		}
		blocks := strings.Split(string(b), "WARNING: DATA RACE")
		for _, blk := range blocks[1:] {
			a.Counters["race_reports"]++
			sig, inRepo := raceSig(blk)
			if !inRepo {
				a.Counters["race_reports_harness_only"]++
				a.Inconcl = append(a.Inconcl, "race report with no /repo frame (harness bug): "+tailStr(blk, 600))
				continue
			}
			full := "race:" + sig
			if a.Spec != nil && a.Spec.RaceSig != nil {
				full = a.Spec.RaceSig(sig)
			}
			a.Counters["race_pair|"+sig]++
			a.Violations = append(a.Violations, Violation{Sig: full, Detail: "[" + sig + "] " + tailStr(blk, 3000),
				Case: map[string]interface{}{"shard": shard}})
		}
	}
}

func raceSig(blk string) (string, bool) {
	// sections: access 1, "Previous ... by", goroutine creations. take first /repo function of the first two stacks
	parts := regexp.MustCompile(`\n\n`).Split(blk, -1)
	var fns []string
	for _, p := range parts {
		if len(fns) >= 2 {
			break
		}
		t := strings.TrimSpace(p)
		if !(strings.HasPrefix(t, "Read at") || strings.HasPrefix(t, "Write at") || strings.HasPrefix(t, "Previous") ||
			strings.HasPrefix(t, "Atomic") || strings.Contains(strings.SplitN(t, "\n", 2)[0], " at 0x")) {
			continue
		}
		fn := ""
		for _, l := range strings.Split(t, "\n") {
			l = strings.TrimSpace(l)
			if strings.HasPrefix(l, "github.com/elastos/Elastos.ELA/") {
				// full function name without the argument list: "pkg/path.(*T).method.func1"
				fn = strings.TrimPrefix(l, "github.com/elastos/Elastos.ELA/")
				if i := strings.LastIndex(fn, "("); i > 0 && strings.HasSuffix(fn, ")") {
					fn = fn[:i]
				}
				break
			}
		}
		fns = append(fns, fn)
	}
	in := false
	for _, f := range fns {
		if f != "" {
			in = true
		}
	}
	sort.Strings(fns)
	return strings.Join(fns, "|"), in
}

// eras.go — compressed-era network schedules and DPoS block confirmation for
// the in-process kit node.
//
// # API summary (package node)
//
//	EraTweak(name) func(*config.Configuration)   // "pow-era" | "dpos-era" | "dposv2-era"; use as Options.Tweak
//	EraOf(name) *Era                             // the heights/periods of a schedule (for scripts); nil if unknown
//	EraNames() []string
//
//	Key index conventions (node.Key(i)):
//	  0 foundation, 1 miner,
//	  KeyCRCArbiter+i   (100..)  node keys configured as DPoSConfiguration.CRCArbiters   (i < Era.CRCArbiters)
//	  KeyOriginArbiter+i(120..)  node keys configured as DPoSConfiguration.OriginArbiters(i < Era.OriginArbiters)
//	  KeySecretary       140     CR secretary general
//	  KeyProducerOwner+i(200..), KeyProducerNode+i (300..)  suggested owner/node keys of registered producers
//	  KeyCR+i           (400..)  suggested CR candidate keys,  KeyCRNode+i (450..) node keys claimed by CR members
//	  KeyVoter+i        (500..)  suggested plain voters/stakers
//	KeyByPub(pub) *account.Account               // reverse lookup among Key(0..KeyRegistrySize-1) and RegisterKey'd accounts
//	RegisterKey(a)                               // make a foreign account known to the confirm signer
//	Pub(a) []byte                                // compressed public key bytes
//
//	(n) NeedsConfirm(height) bool                // block at this height must carry a payload.Confirm (DPoS consensus, >= CRCOnlyDPOSHeight)
//	(n) ConfirmFor(b) (*payload.Confirm, error)  // honest confirm: proposal by the on-duty arbiter, votes of every current normal arbiter we hold a key for
//	(n) SetOffline(online bool, nodeKeys...)     // arbiters that abstain from now on in ConfirmFor/MineTipDPoS (drives producers Inactive)
//	(n) ConfirmWith(b, ConfirmOpts) (...)        // choose sponsor / offline arbiters / number of votes (for hostile confirms)
//	(n) ProcessConfirmed(b) error                // ConfirmFor + BlockPool.AddDposBlock (the entry point netsync and the miner use); error if the tip did not become b
//	(n) ProcessDpos(b, confirm) (inMain, orphan bool, err error) // raw BlockPool.AddDposBlock
//	(n) SystemTxs() []interfaces.Transaction     // waits for and returns the node-generated txs the next block MUST/should carry (NextTurnDPOSInfo, CRCAppropriation, ProposalResult, real-withdraw txs, RevertToPOW ...), taken from the node's own mempool
//	(n) MineTipDPoS(txs...) (*types.Block, error)// era-agnostic honest miner: SystemTxs + RecordSponsor + txs, coinbase split by the node's own AssignCoinbaseTxRewards, confirm if needed, AddDposBlock, post-block cleanup
//	(n) MineNDPoS(k) error ; (n) MineToDPoS(height) error
//	(n) AssembleTip(txs...) ; (n) AssembleOn(BlockSpec) // deterministic node.Assemble (sorted DPoS reward outputs, SealDet); SealDet(blk)
//	(n) UnhookEvents()                           // call before Close()
//	(n) HookEvents()                             // idempotent; routes events.ETAppendTxToTxPool[WithoutRelay] into TxPool as elanet/netsync does (called by the miners above)
//	(n) LastIrreversible() uint32 ; (n) InPOWMode() bool
//	(n) CheckTx(tx, blockTime) error             // the validators mempool+blocks use (sanity+context at next height), side-effect free. NOTE TxPool.RemoveTransaction(tx) removes the pool txs SPENDING tx's outputs, not tx itself; there is no public way to evict one tx
//	RevertToPOWNoBlock(workingHeight) tx ; (n) MineTipAt(timestamp, txs...) ; (n) RevertToDPOSTx(bogusSigs) (tx, error)  // real POW<->DPOS consensus switches
//	(n) InjectDPoSV2Active(height)               // documented state-injection fallback (not needed by the shipped schedules)
//
// # How blocks are confirmed (what the repo does)
//
// dpos/state.ConsesusAlgorithm: DPOS == 0 is the zero value, so a fresh chain is in
// "DPOS" mode from genesis; blocks below CRCOnlyDPOSHeight simply need no confirm.
// POW (1) is only entered through a RevertToPOW transaction (>= RevertToPOWStartHeight).
// mempool.BlockPool.AddDposBlock is the single entry point (netsync, pow.Service):
// in DPOS mode and height >= CRCOnlyDPOSHeight a block is parked until a
// payload.Confirm arrives (AppendConfirm / DposBlock.HaveConfirm); then
// chain.ProcessBlock(block, confirm). connectBlock -> checkBlockWithConfirmation ->
// ConfirmContextCheck: distinct accepting voters > int(len(CurrentArbitrators)*2/3),
// sponsor and every voter must be a current *normal* arbiter (node public key).
// Signatures are checked by ConfirmSanityCheck in the BlockPool only.
// NOTE chain.ProcessBlock(b, nil) (node.Process / node.MineTip) connects a block in the
// DPoS era WITHOUT any confirm (the confirm check is skipped when confirm == nil); only
// the BlockPool enforces the confirm requirement.
//
// # Gotchas
//
//   - CRConfiguration.MemberCount must equal len(CRCArbiters) or UpdateNextArbitrators fails ("CRC members count mismatch") and the node reverts to POW.
//   - VoteStartHeight must be < CRCOnlyDPOSHeight-PreConnectOffset (dpos checkpoint StartHeight = min of both; uint32 underflow if PreConnectOffset > CRCOnlyDPOSHeight, and then the updateNext step before H1 never happens). Producer/vote txs mined below VoteStartHeight are valid but never reach dpos state.
//   - Producers must be registered (6 blocks to become Active) and voted before PublicDPOSHeight-PreConnectOffset; with fewer than NormalArbitratorsCount voted producers the node degrades to CRC-only ("understaffed") before ChangeCommitteeNewCRHeight and reverts to POW after it.
//   - Node-generated txs reach the mempool asynchronously ("go events.Notify", "go func(){appendToTxpool}"); SystemTxs polls (bounded) for the mandatory and the expected ones so that block contents do not depend on scheduling. The block after a committee change MUST carry the CRCAppropriation, a block after an arbiter update (>= CRClaimDPOSNodeStartHeight) MUST carry the NextTurnDPOSInfo.
//   - The first committee serves CRDutyPeriod blocks. Without a re-election in the next voting period the committee dissolves, no arbiters are left and the node creates a RevertToPOW{NoProducers} itself (dpos-era: ~height 253). Re-elect or compose the tweak with a larger DutyPeriod.
//   - DPoS v2 vote weight is log10((LockTime-BlockHeight)/720): lock times shorter than 720 blocks give NEGATIVE vote rights; use long lock times (>= Era.V2VoteLock) to make producers "effective". StakeUntil of the producer must be >= the vote lock time.
//   - DPoSV2ActiveHeight = h + MemberCount + NormalArbitratorsCount where h is the first arbiter-update height at which len(DposV2EffectedProducers) >= NormalArbitratorsCount*3/2.
//   - The mempool keeps at most one pending ExchangeVotes/Voting/ReturnVotes per stake address, one RegisterProducer per owner/node key, etc. (conflict slots); TxPool.RemoveTransaction(tx) does NOT remove tx (it removes pool txs spending tx's outputs).
//   - Determinism: pow.Service.distributeDPOSReward appends coinbase reward outputs in map order and auxpow.GenerateAuxPow stamps time.Now() into the faked parent header (covered by Block.HashWithAux, the seed of the DPoS v2 random arbiter choice). node.Assemble/node.Solve inherit both; AssembleOn/SealDet (used by every miner in this file) do not. Payload signatures are part of the tx hash: txs.go signs them with DetSign.
//   - No wall clock in consensus validation except "timestamp not more than 2h in the future"; RevertToPOW{NoBlock} in a block is checked against the block timestamp (>= parent + RevertToPOWNoBlockTime, 12h) but in the mempool against local time (kit chains live in 2017, so it is always accepted there); the wall-clock revert logic lives in dpos/arbitrator.go which the kit does not run.
//   - A confirmed sibling of a confirmed tip does not reorganize; an unconfirmed longer side chain handed to chain.ProcessBlock(b, nil) does (depth limited by LastIrreversibleHeight).
package node

import (
	"bytes"
	"encoding/hex"
	"errors"
	"fmt"
	"math"
	"path/filepath"
	"sort"
	"sync"
	"time"

	"github.com/elastos/Elastos.ELA/account"
	"github.com/elastos/Elastos.ELA/auxpow"
	"github.com/elastos/Elastos.ELA/blockchain"
	"github.com/elastos/Elastos.ELA/common"
	"github.com/elastos/Elastos.ELA/common/config"
	"github.com/elastos/Elastos.ELA/core/contract"
	pg "github.com/elastos/Elastos.ELA/core/contract/program"
	"github.com/elastos/Elastos.ELA/core/types"
	common2 "github.com/elastos/Elastos.ELA/core/types/common"
	"github.com/elastos/Elastos.ELA/core/types/functions"
	"github.com/elastos/Elastos.ELA/core/types/interfaces"
	"github.com/elastos/Elastos.ELA/core/types/payload"
	"github.com/elastos/Elastos.ELA/crypto"
	"github.com/elastos/Elastos.ELA/dpos/state"
	"github.com/elastos/Elastos.ELA/events"
)

// Key index conventions.
const (
	KeyFoundation    = 0
	KeyMiner         = 1
	KeyCRCArbiter    = 100
	KeyOriginArbiter = 120
	KeySecretary     = 140
	KeyProducerOwner = 200
	KeyProducerNode  = 300
	KeyCR            = 400
	KeyCRNode        = 450
	KeyVoter         = 500
	// KeyRegistrySize bounds the indices KeyByPub knows without RegisterKey.
	KeyRegistrySize = 640
)

// Era is a named activation schedule. All heights are block heights.
type Era struct {
	Name string
	// arbiter set sizes
	CRCArbiters, OriginArbiters, NormalArbiters, Candidates int
	// DPoS v1
	VoteStart, PreConnectOffset, CRCOnlyDPOS, PublicDPOS, EnableActivateIllegal uint32
	MaxInactiveRounds                                                           uint32
	// CR
	CRVotingStart, CRCommitteeStart, CRClaimDPOSNodeStart, CRClaimDPOSNodePeriod uint32
	CRVotingPeriod, CRDutyPeriod, CRClaimPeriod, DepositLockup                   uint32
	ProposalCRVotingPeriod, ProposalPublicVotingPeriod                           uint32
	CRAgreementCount                                                             uint32
	ChangeCommitteeNewCR, RevertToPOWStart                                       uint32
	ProposalDraftDataStart                                                       uint32
	// issuance
	NewELAIssuance, HalvingRewardHeight, HalvingRewardInterval uint32
	// DPoS v2 (math.MaxUint32 = never)
	DPoSV2Start, NFTStart                          uint32
	V2DepositMinLock, V2VoteMinLock, V2VoteMaxLock uint32
	V2VoteLock                                     uint32 // suggested lock duration giving vote weight 1 (7200 blocks)
	V2EffectiveVotes                               common.Fixed64
}

var eras = map[string]*Era{
	"pow-era": {Name: "pow-era"},
	"dpos-era": {
		Name: "dpos-era", CRCArbiters: 4, OriginArbiters: 3, NormalArbiters: 3, Candidates: 3,
		VoteStart: 10, PreConnectOffset: 3, CRCOnlyDPOS: 30, PublicDPOS: 50, EnableActivateIllegal: 55, MaxInactiveRounds: 8,
		CRVotingStart: 60, CRCommitteeStart: 90, CRClaimDPOSNodeStart: 110, CRClaimDPOSNodePeriod: 20,
		CRVotingPeriod: 30, CRDutyPeriod: 150, CRClaimPeriod: 10, DepositLockup: 10,
		ProposalCRVotingPeriod: 10, ProposalPublicVotingPeriod: 10, CRAgreementCount: 3,
		ChangeCommitteeNewCR: 140, RevertToPOWStart: 140, ProposalDraftDataStart: 165,
		NewELAIssuance: 135, HalvingRewardHeight: 400, HalvingRewardInterval: 400,
		DPoSV2Start: math.MaxUint32, NFTStart: math.MaxUint32,
		V2DepositMinLock: 20, V2VoteMinLock: 10, V2VoteMaxLock: 1000000, V2VoteLock: 7200, V2EffectiveVotes: 100 * 1e8,
	},
}

func init() {
	v2 := *eras["dpos-era"]
	v2.Name = "dposv2-era"
	v2.DPoSV2Start = 175
	v2.NFTStart = 175
	eras["dposv2-era"] = &v2
}

// EraNames lists the known schedules in a fixed order.
func EraNames() []string { return []string{"pow-era", "dpos-era", "dposv2-era"} }

// EraOf returns the schedule (nil if unknown). Do not modify it.
func EraOf(name string) *Era { return eras[name] }

// Pub returns the compressed public key of an account.
func Pub(a *account.Account) []byte {
	b, err := a.PublicKey.EncodePoint(true)
	if err != nil {
		panic(err)
	}
	return b
}

// PubHex is hex(Pub(a)).
func PubHex(a *account.Account) string { return hex.EncodeToString(Pub(a)) }

// EraTweak returns the Options.Tweak for a named schedule. Unknown names panic.
// Tweaks compose: func(cfg){ node.EraTweak("dpos-era")(cfg); cfg.X = y }.
func EraTweak(name string) func(cfg *config.Configuration) {
	e := eras[name]
	if e == nil {
		panic("unknown era " + name)
	}
	return func(cfg *config.Configuration) {
		// keep every file the node touches inside the data dir
		cfg.DPoSConfiguration.SponsorsFilePath = filepath.Join(cfg.DataDir, "sponsors")
		if name == "pow-era" {
			return
		}
		d := &cfg.DPoSConfiguration
		c := &cfg.CRConfiguration
		d.CRCArbiters = nil
		for i := 0; i < e.CRCArbiters; i++ {
			d.CRCArbiters = append(d.CRCArbiters, PubHex(Key(KeyCRCArbiter+i)))
		}
		d.OriginArbiters = nil
		for i := 0; i < e.OriginArbiters; i++ {
			d.OriginArbiters = append(d.OriginArbiters, PubHex(Key(KeyOriginArbiter+i)))
		}
		d.NormalArbitratorsCount = e.NormalArbiters
		d.CandidatesCount = e.Candidates
		d.PreConnectOffset = e.PreConnectOffset
		d.MaxInactiveRounds = e.MaxInactiveRounds
		d.MaxInactiveRoundsOfRandomNode = e.MaxInactiveRounds
		d.RandomCandidatePeriod = 20
		d.NoCRCDPOSNodeHeight = e.ChangeCommitteeNewCR
		d.RevertToPOWStartHeight = e.RevertToPOWStart
		d.CRDPoSNodeHotFixHeight = 0
		d.ChangeViewV1Height = math.MaxUint32
		d.DPOSNodeCrossChainHeight = math.MaxUint32
		d.RecordSponsorStartHeight = math.MaxUint32
		d.NFTStartHeight = e.NFTStart
		d.NFTV2StartHeight = math.MaxUint32
		d.DexStartHeight = math.MaxUint32
		d.DPoSV2DepositCoinMinLockTime = e.V2DepositMinLock
		d.DPoSV2MinVotesLockTime = e.V2VoteMinLock
		d.DPoSV2MaxVotesLockTime = e.V2VoteMaxLock

		cfg.CheckAddressHeight = 0
		cfg.VoteStartHeight = e.VoteStart
		cfg.CRCOnlyDPOSHeight = e.CRCOnlyDPOS
		cfg.PublicDPOSHeight = e.PublicDPOS
		cfg.EnableActivateIllegalHeight = e.EnableActivateIllegal
		cfg.VoteStatisticsHeight = 0
		cfg.NewELAIssuanceHeight = e.NewELAIssuance
		cfg.HalvingRewardHeight = e.HalvingRewardHeight
		cfg.HalvingRewardInterval = e.HalvingRewardInterval
		cfg.CustomIDProposalStartHeight = e.ChangeCommitteeNewCR
		cfg.NewCrossChainStartHeight = e.ChangeCommitteeNewCR + 20
		cfg.ReturnCrossChainCoinStartHeight = e.ChangeCommitteeNewCR + 20
		cfg.ProhibitTransferToDIDHeight = e.ChangeCommitteeNewCR + 20
		cfg.DPoSV2StartHeight = e.DPoSV2Start
		cfg.DPoSV2EffectiveVotes = e.V2EffectiveVotes
		cfg.NormalSchnorrStartHeight = e.DPoSV2Start
		cfg.SchnorrStartHeight = math.MaxUint32
		cfg.CrossChainMonitorStartHeight = math.MaxUint32
		cfg.SupportMultiCodeHeight = math.MaxUint32
		cfg.MultiExchangeVotesStartHeight = math.MaxUint32

		c.MemberCount = uint32(e.CRCArbiters)
		c.CRAgreementCount = e.CRAgreementCount
		c.VotingPeriod = e.CRVotingPeriod
		c.DutyPeriod = e.CRDutyPeriod
		c.CRClaimPeriod = e.CRClaimPeriod
		c.DepositLockupBlocks = e.DepositLockup
		c.CRVotingStartHeight = e.CRVotingStart
		c.RegisterCRByDIDHeight = e.CRVotingStart
		c.CRCommitteeStartHeight = e.CRCommitteeStart
		c.CheckVoteCRCountHeight = e.CRCommitteeStart
		c.CRClaimDPOSNodeStartHeight = e.CRClaimDPOSNodeStart
		c.CRClaimDPOSNodePeriod = e.CRClaimDPOSNodePeriod
		c.CRCProposalV1Height = e.CRClaimDPOSNodeStart
		c.CRCProposalWithdrawPayloadV1Height = e.CRClaimDPOSNodeStart
		c.CRAssetsRectifyTransactionHeight = e.CRClaimDPOSNodeStart
		c.NewP2PProtocolVersionHeight = uint64(e.CRClaimDPOSNodeStart)
		c.ChangeCommitteeNewCRHeight = e.ChangeCommitteeNewCR
		c.CRCProposalDraftDataStartHeight = e.ProposalDraftDataStart
		c.ProposalCRVotingPeriod = e.ProposalCRVotingPeriod
		c.ProposalPublicVotingPeriod = e.ProposalPublicVotingPeriod
		c.SecretaryGeneral = PubHex(Key(KeySecretary))
		c.MaxCRAssetsAddressUTXOCount = 100000 // never trigger the (sleeping) rectify goroutine
		c.MinCRAssetsAddressUTXOCount = 100000
	}
}

// ---------- key registry ----------

var (
	keyRegMu   sync.Mutex
	keyReg     map[string]*account.Account
	keyRegOnce sync.Once
)

func keyRegInit() {
	keyRegOnce.Do(func() {
		keyReg = make(map[string]*account.Account, KeyRegistrySize)
		for i := 0; i < KeyRegistrySize; i++ {
			a := Key(i)
			keyReg[PubHex(a)] = a
		}
	})
}

// RegisterKey makes a non-harness account known to KeyByPub / the confirm signer.
func RegisterKey(a *account.Account) {
	keyRegInit()
	keyRegMu.Lock()
	keyReg[PubHex(a)] = a
	keyRegMu.Unlock()
}

// KeyByPub finds the harness account with this compressed public key (nil if unknown).
func KeyByPub(pub []byte) *account.Account {
	keyRegInit()
	keyRegMu.Lock()
	defer keyRegMu.Unlock()
	return keyReg[hex.EncodeToString(pub)]
}

// ---------- confirms ----------

// NeedsConfirm says whether the BlockPool demands a confirm for a block at
// this height on the current tip (DPoS consensus and >= CRCOnlyDPOSHeight).
func (n *Node) NeedsConfirm(height uint32) bool {
	return n.Chain.GetState().GetConsensusAlgorithm() == state.DPOS && height >= n.Cfg.CRCOnlyDPOSHeight
}

// InPOWMode reports dpos state ConsensusAlgorithm == POW (after a RevertToPOW).
func (n *Node) InPOWMode() bool { return n.Arbiters.IsInPOWMode() }

// LastIrreversible is dpos State.LastIrreversibleHeight.
func (n *Node) LastIrreversible() uint32 { return n.Chain.GetState().GetLastIrreversibleHeight() }

// ConfirmOpts shapes a confirm.
type ConfirmOpts struct {
	// Offline arbiters (hex node public keys) neither sponsor nor vote.
	Offline map[string]bool
	// Sponsor forces the proposal sponsor (node public key); nil = first online arbiter starting at the on-duty one.
	Sponsor []byte
	// MaxVotes limits the number of arbiter votes (0 = all available).
	MaxVotes int
	// NoArbiterVotes: no arbiter votes at all (only ExtraSigners, if any).
	NoArbiterVotes bool
	// ExtraSigners add votes by accounts that are NOT current arbiters (hostile).
	ExtraSigners []*account.Account
	// ViewOffset overrides the computed view offset when Sponsor is set.
	ViewOffset uint32
}

var (
	offlineMu sync.Mutex
	offlineOf = map[*Node]map[string]bool{}
)

// SetOffline declares arbiters (by node account) that do not take part in
// consensus from now on: ConfirmFor / MineTipDPoS skip them as sponsor and
// voter (the next arbiter sponsors with a view offset), which is how a
// producer becomes Inactive after MaxInactiveRounds. online=true reverts.
func (n *Node) SetOffline(online bool, nodeKeys ...*account.Account) {
	offlineMu.Lock()
	defer offlineMu.Unlock()
	m := offlineOf[n]
	if m == nil {
		m = map[string]bool{}
		offlineOf[n] = m
	}
	for _, k := range nodeKeys {
		if online {
			delete(m, PubHex(k))
		} else {
			m[PubHex(k)] = true
		}
	}
}

func (n *Node) offlineSet() map[string]bool {
	offlineMu.Lock()
	defer offlineMu.Unlock()
	m := map[string]bool{}
	for k, v := range offlineOf[n] {
		m[k] = v
	}
	return m
}

// ConfirmFor builds the honest confirm for a block extending the current tip
// (arbiters declared with SetOffline abstain).
func (n *Node) ConfirmFor(b *types.Block) (*payload.Confirm, error) {
	return n.ConfirmWith(b, ConfirmOpts{Offline: n.offlineSet()})
}

// ConfirmWith builds a confirm signed with harness keys against the CURRENT
// arbiter set (so b must extend the tip to be accepted).
func (n *Node) ConfirmWith(b *types.Block, o ConfirmOpts) (*payload.Confirm, error) {
	arbs := n.Arbiters.GetArbitrators()
	if len(arbs) == 0 {
		return nil, errors.New("confirm: no current arbiters")
	}
	duty := n.Arbiters.GetDutyIndex() % len(arbs)
	usable := func(a *state.ArbiterInfo) *account.Account {
		if !a.IsNormal || o.Offline[hex.EncodeToString(a.NodePublicKey)] {
			return nil
		}
		return KeyByPub(a.NodePublicKey)
	}
	var sponsor *account.Account
	var offset uint32
	if o.Sponsor != nil {
		sponsor = KeyByPub(o.Sponsor)
		offset = o.ViewOffset
		if sponsor == nil {
			return nil, fmt.Errorf("confirm: no key for forced sponsor %x", o.Sponsor)
		}
	} else {
		for k := 0; k < len(arbs); k++ {
			if acc := usable(arbs[(duty+k)%len(arbs)]); acc != nil {
				sponsor, offset = acc, uint32(k)
				break
			}
		}
		if sponsor == nil {
			return nil, errors.New("confirm: no online normal arbiter with a known key")
		}
	}
	prop := payload.DPOSProposal{Sponsor: Pub(sponsor), BlockHash: b.Hash(), ViewOffset: offset}
	sig, err := crypto.Sign(sponsor.PrivKey(), prop.Data())
	if err != nil {
		return nil, err
	}
	prop.Sign = sig
	cf := &payload.Confirm{Proposal: prop}
	ph := prop.Hash()
	addVote := func(acc *account.Account) error {
		v := payload.DPOSProposalVote{ProposalHash: ph, Signer: Pub(acc), Accept: true}
		s, err := crypto.Sign(acc.PrivKey(), v.Data())
		if err != nil {
			return err
		}
		v.Sign = s
		cf.Votes = append(cf.Votes, v)
		return nil
	}
	seen := map[string]bool{}
	for k := 0; k < len(arbs); k++ {
		a := arbs[(duty+int(offset)+k)%len(arbs)]
		acc := usable(a)
		hx := hex.EncodeToString(a.NodePublicKey)
		if acc == nil || seen[hx] || o.NoArbiterVotes {
			continue
		}
		seen[hx] = true
		if o.MaxVotes > 0 && len(cf.Votes) >= o.MaxVotes {
			break
		}
		if err := addVote(acc); err != nil {
			return nil, err
		}
	}
	for _, acc := range o.ExtraSigners {
		if err := addVote(acc); err != nil {
			return nil, err
		}
	}
	return cf, nil
}

// ProcessDpos hands block+confirm to BlockPool.AddDposBlock, the entry point
// used by netsync (blocks from peers) and pow.Service (own blocks).
// NOTE: the BlockPool swallows confirm/connect errors of a block that came
// WITH its confirm (appendBlockAndConfirm returns nil error), so callers must
// look at the tip.
func (n *Node) ProcessDpos(b *types.Block, cf *payload.Confirm) (inMain, orphan bool, err error) {
	return n.BlockPool.AddDposBlock(&types.DposBlock{Block: b, HaveConfirm: cf != nil, Confirm: cf})
}

// ProcessConfirmed builds the honest confirm when one is needed and
// processes the block through the BlockPool; it fails unless b became the tip.
func (n *Node) ProcessConfirmed(b *types.Block) error {
	var cf *payload.Confirm
	if n.NeedsConfirm(b.Height) && !hasRevertToPOW(b) {
		var err error
		if cf, err = n.ConfirmFor(b); err != nil {
			return err
		}
	}
	_, _, err := n.ProcessDpos(b, cf)
	if err != nil {
		return err
	}
	if tip := n.Tip(); !tip.IsEqual(b.Hash()) {
		return fmt.Errorf("block %d %s did not become the tip (tip height %d); BlockPool swallowed the reason", b.Height, b.Hash().String()[:16], n.Height())
	}
	return nil
}

func hasRevertToPOW(b *types.Block) bool {
	for _, tx := range b.Transactions {
		if tx.IsRevertToPOW() {
			return true
		}
	}
	return false
}

// ---------- node generated transactions ----------

var hookOnce sync.Once
var hookNode *Node
var hookMu sync.Mutex

// HookEvents subscribes (once per process) to the events through which dpos
// state hands node-generated transactions to the mempool, exactly as
// elanet/netsync.handleBlockchainEvents does.
func (n *Node) HookEvents() {
	hookMu.Lock()
	hookNode = n
	hookMu.Unlock()
	hookOnce.Do(func() {
		events.Subscribe(func(e *events.Event) {
			hookMu.Lock()
			nd := hookNode
			hookMu.Unlock()
			if nd == nil {
				return
			}
			switch e.Type {
			case events.ETAppendTxToTxPool:
				if tx, ok := e.Data.(interfaces.Transaction); ok {
					nd.TxPool.AppendToTxPool(tx)
				}
			case events.ETAppendTxToTxPoolWithoutRelay:
				if tx, ok := e.Data.(interfaces.Transaction); ok {
					nd.TxPool.AppendToTxPoolWithoutEvent(tx)
				}
			}
		})
	})
}

// UnhookEvents stops routing node-generated txs into the mempool; call it
// before Close (late event goroutines would otherwise touch a closed store).
func (n *Node) UnhookEvents() {
	hookMu.Lock()
	if hookNode == n {
		hookNode = nil
	}
	hookMu.Unlock()
}

func isSystemTx(tx interfaces.Transaction) bool {
	switch tx.TxType() {
	case common2.NextTurnDPOSInfo, common2.CRCAppropriation, common2.CRAssetsRectify,
		common2.ProposalResult, common2.CRCProposalRealWithdraw,
		common2.DposV2ClaimRewardRealWithdraw, common2.VotesRealWithdraw,
		common2.RevertToPOW, common2.RevertToDPOS, common2.InactiveArbitrators,
		common2.IllegalBlockEvidence, common2.IllegalProposalEvidence, common2.IllegalVoteEvidence,
		common2.IllegalSidechainEvidence, common2.UpdateVersion:
		return true
	}
	return false
}

// SystemWait bounds how long SystemTxs waits for a REQUIRED node-generated tx.
var SystemWait = 5 * time.Second

// SystemTxs returns the node-generated transactions currently in the mempool,
// after waiting (bounded by SystemWait) for those the next block is REQUIRED to
// contain — NextTurnDPOSInfo (Arbiters.IsNeedNextTurnDPOSInfo), CRCAppropriation
// (Committee.IsAppropriationNeeded), ProposalResult (Committee.IsProposalResultNeeded)
// — and for those the node is EXPECTED to create right now (real-withdraw txs
// for pending withdraw requests, RevertToPOW when no arbiters are left), so
// that block contents do not depend on goroutine scheduling. If an expected tx
// never shows up for a given request set, that set is not waited for again.
// The result is sorted by (type, hash).
func (n *Node) SystemTxs() []interfaces.Transaction {
	n.HookEvents()
	need := map[common2.TxType]string{} // type -> give-up key ("" = mandatory, never given up)
	if n.Arbiters.IsNeedNextTurnDPOSInfo() {
		need[common2.NextTurnDPOSInfo] = ""
	}
	if n.Committee.IsAppropriationNeeded() {
		need[common2.CRCAppropriation] = ""
	}
	if n.Committee.IsProposalResultNeeded() {
		need[common2.ProposalResult] = ""
	}
	st := n.Chain.GetState()
	h := n.Height()
	expect := func(t common2.TxType, key string) {
		k := fmt.Sprintf("%d/%s", t, key)
		sysMu.Lock()
		gave := sysGaveUp[n][k]
		sysMu.Unlock()
		if !gave {
			need[t] = k
		}
	}
	if h >= n.Cfg.CRConfiguration.CRCProposalWithdrawPayloadV1Height {
		if m := n.Committee.GetRealWithdrawTransactions(); len(m) > 0 {
			expect(common2.CRCProposalRealWithdraw, hashSetKey(m))
		}
	}
	if h >= n.Cfg.DPoSV2StartHeight {
		if m := st.GetRealWithdrawTransactions(); len(m) > 0 {
			expect(common2.DposV2ClaimRewardRealWithdraw, hashSetKey(m))
		}
		if m := st.GetVotesWithdrawableTxInfo(); len(m) > 0 {
			expect(common2.VotesRealWithdraw, hashSetKey(m))
		}
	}
	if st.GetConsensusAlgorithm() != state.POW && h >= n.Cfg.DPoSConfiguration.RevertToPOWStartHeight &&
		len(n.Arbiters.GetArbitrators()) == 0 && (st.NoProducers || st.NoClaimDPOSNode) {
		expect(common2.RevertToPOW, fmt.Sprint(h))
	}
	deadline := time.Now().Add(SystemWait)
	var out []interfaces.Transaction
	for {
		out = out[:0]
		have := map[common2.TxType]bool{}
		for _, tx := range n.TxPool.GetTxsInPool() {
			if isSystemTx(tx) {
				out = append(out, tx)
				have[tx.TxType()] = true
			}
		}
		missing := false
		for t := range need {
			if !have[t] {
				missing = true
			}
		}
		if !missing {
			break
		}
		if time.Now().After(deadline) {
			sysMu.Lock()
			if sysGaveUp[n] == nil {
				sysGaveUp[n] = map[string]bool{}
			}
			for t, k := range need {
				if !have[t] && k != "" {
					sysGaveUp[n][k] = true
				}
			}
			sysMu.Unlock()
			break
		}
		time.Sleep(time.Millisecond)
	}
	sort.Slice(out, func(i, j int) bool {
		if out[i].TxType() != out[j].TxType() {
			return out[i].TxType() < out[j].TxType()
		}
		hi, hj := out[i].Hash(), out[j].Hash()
		return bytes.Compare(hi[:], hj[:]) < 0
	})
	// at most one of each "exactly one per block" type
	var res []interfaces.Transaction
	one := map[common2.TxType]bool{}
	for _, tx := range out {
		switch tx.TxType() {
		case common2.NextTurnDPOSInfo, common2.CRCAppropriation, common2.ProposalResult, common2.RevertToPOW, common2.RevertToDPOS, common2.CRAssetsRectify:
			if one[tx.TxType()] {
				continue
			}
			one[tx.TxType()] = true
		}
		res = append(res, tx)
	}
	return res
}

var (
	sysMu     sync.Mutex
	sysGaveUp = map[*Node]map[string]bool{}
)

func hashSetKey(m map[common.Uint256]common2.OutputInfo) string {
	ks := make([]string, 0, len(m))
	for k := range m {
		ks = append(ks, k.String())
	}
	sort.Strings(ks)
	h := common.Hash([]byte(fmt.Sprint(ks)))
	return h.String()[:16]
}

// recordSponsorTx mirrors pow.Service.CreateRecordSponsorTx with a deterministic nonce.
func (n *Node) recordSponsorTx(sponsor []byte, height uint32) interfaces.Transaction {
	nb := make([]byte, 8)
	for i := 0; i < 4; i++ {
		nb[4+i] = byte(height >> (8 * uint(3-i)))
	}
	attr := common2.NewAttribute(common2.Nonce, nb)
	return functions.CreateTransaction(n.Pow.GetDefaultTxVersion(height), common2.RecordSponsor, payload.RecordSponsorVersion,
		&payload.RecordSponsor{Sponsor: sponsor}, []*common2.Attribute{&attr}, []*common2.Input{}, []*common2.Output{}, height, []*pg.Program{})
}

// AssembleTip builds the honest next block: node-generated txs first, then
// txs; fees from the node's own references. It does not process it.
func (n *Node) AssembleTip(txs ...interfaces.Transaction) (*types.Block, error) {
	return n.assembleTipAt(0, txs...)
}

func (n *Node) assembleTipAt(ts uint32, txs ...interfaces.Transaction) (*types.Block, error) {
	h := n.Height() + 1
	var all []interfaces.Transaction
	if h >= n.Cfg.DPoSConfiguration.RecordSponsorStartHeight {
		if db, err := n.Chain.GetDposBlockByHash(n.Tip()); err == nil && db.HaveConfirm && db.Confirm != nil {
			all = append(all, n.recordSponsorTx(db.Confirm.Proposal.Sponsor, h))
		}
	}
	seen := map[common.Uint256]bool{}
	for _, tx := range txs {
		seen[tx.Hash()] = true
	}
	for _, tx := range n.SystemTxs() {
		if !seen[tx.Hash()] {
			all = append(all, tx)
		}
	}
	all = append(all, txs...)
	var fees common.Fixed64
	for _, tx := range all {
		if len(tx.Inputs()) == 0 {
			for _, o := range tx.Outputs() {
				fees -= o.Value
			}
			continue
		}
		refs, err := n.Chain.UTXOCache.GetTxReference(tx)
		if err != nil {
			return nil, fmt.Errorf("assemble: references of %s tx: %v", tx.TxType().Name(), err)
		}
		for _, o := range refs {
			fees += o.Value
		}
		for _, o := range tx.Outputs() {
			fees -= o.Value
		}
	}
	return n.AssembleOn(BlockSpec{Txs: all, Fees: fees, Time: ts})
}

// AssembleOn is node.Assemble (any parent, explicit nonce/time/fees/skew) with
// two sources of run-to-run variation removed:
//   - the DPoS reward outputs (coinbase outputs [2:]) are sorted by program
//     hash: pow.Service.distributeDPOSReward appends them in Go map iteration
//     order, so from PublicDPOSHeight on the coinbase hash (and every block
//     hash) would otherwise differ from run to run;
//   - the aux-pow is sealed with SealDet.
//
// For a non-tip parent the reward split still reads the CURRENT arbiter state.
func (n *Node) AssembleOn(sp BlockSpec) (*types.Block, error) {
	parent := sp.Parent
	if parent == nil {
		parent = n.TipBlock()
	}
	txs, fees, ts := sp.Txs, sp.Fees, sp.Time
	h := parent.Height + 1
	if ts == 0 {
		ts = parent.Timestamp + 1
	}
	ph := parent.Hash()
	nonce := sp.Nonce
	if nonce == 0 {
		for i := 0; i < 8; i++ {
			nonce = nonce<<8 | uint64(ph[i])
		}
		nonce ^= uint64(ts)<<20 ^ uint64(len(txs))
	}
	miner := sp.MinerAddr
	if miner == "" {
		miner = n.Miner.Address
	}
	cb := n.CoinbaseTx(miner, h, nonce)
	blk := &types.Block{
		Header: common2.Header{Version: 0, Previous: ph, Timestamp: ts,
			Bits: n.Cfg.PowConfiguration.PowLimitBits, Height: h},
		Transactions: append([]interfaces.Transaction{cb}, txs...),
	}
	if err := n.Pow.AssignCoinbaseTxRewards(blk, fees+n.Cfg.GetBlockReward(h)); err != nil {
		return nil, err
	}
	if outs := cb.Outputs(); len(outs) > 3 {
		tail := append([]*common2.Output{}, outs[2:]...)
		sort.SliceStable(tail, func(i, j int) bool { return tail[i].ProgramHash.Compare(tail[j].ProgramHash) < 0 })
		cb.SetOutputs(append(append([]*common2.Output{}, outs[:2]...), tail...))
	}
	if sp.RewardSkew != 0 {
		cb.Outputs()[1].Value += common.Fixed64(sp.RewardSkew)
	}
	if sp.NoSolve {
		return blk, Seal(blk, false)
	}
	if err := SealDet(blk); err != nil {
		return nil, err
	}
	return blk, nil
}

// SealDet is Seal(blk, true) with a deterministic aux-pow: the faked BTC parent
// header of auxpow.GenerateAuxPow carries time.Now(), and Block.HashWithAux()
// (the seed of the DPoS v2 random arbiter selection, getRandomDposV2Producers)
// covers it — so with node.Solve the elected arbiters depend on the wall clock.
func SealDet(blk *types.Block) error {
	if err := Seal(blk, false); err != nil {
		return err
	}
	ap := auxpow.GenerateAuxPow(blk.Hash())
	ap.ParBlockHeader.Timestamp = blk.Header.Timestamp
	target := blockchain.CompactToBig(blk.Header.Bits)
	for i := uint32(0); i < 1<<30; i++ {
		ap.ParBlockHeader.Nonce = i
		h := ap.ParBlockHeader.Hash()
		if blockchain.HashToBig(&h).Cmp(target) <= 0 {
			blk.Header.AuxPow = *ap
			return nil
		}
	}
	return errors.New("solve: nonce space exhausted")
}

// MineTipDPoS is the era-agnostic honest miner (works below CRCOnlyDPOSHeight,
// in DPoS v1/v2 and in POW mode after a revert).
func (n *Node) MineTipDPoS(txs ...interfaces.Transaction) (*types.Block, error) {
	return n.MineTipAt(0, txs...)
}

// MineNDPoS mines k empty (plus node-generated txs) blocks.
func (n *Node) MineNDPoS(k int) error {
	for i := 0; i < k; i++ {
		if _, err := n.MineTipDPoS(); err != nil {
			return fmt.Errorf("height %d: %v", n.Height()+1, err)
		}
	}
	return nil
}

// MineToDPoS mines until the tip has the given height.
func (n *Node) MineToDPoS(height uint32) error {
	for n.Height() < height {
		if _, err := n.MineTipDPoS(); err != nil {
			return fmt.Errorf("height %d: %v", n.Height()+1, err)
		}
	}
	return nil
}

// InjectDPoSV2Active is the state-injection fallback: it sets the exported
// State.DPoSV2ActiveHeight directly. It bypasses History (a rollback will not
// restore it) and must be declared in the evidence of any check using it.
// The shipped "dposv2-era" reaches the active height organically and does not need it.
func (n *Node) InjectDPoSV2Active(height uint32) {
	n.Arbiters.State.DPoSV2ActiveHeight = height
}

// ---------- consensus switching ----------

// RevertToPOWNoBlock builds the zero-cost RevertToPOW{NoBlock} transaction for
// the block at workingHeight. It is only valid in a block whose timestamp is
// >= parent timestamp + RevertToPOWNoBlockTime (use MineTipAt), and from
// RevertToPOWStartHeight on. Blocks carrying it need no confirm.
func RevertToPOWNoBlock(workingHeight uint32) interfaces.Transaction {
	return functions.CreateTransaction(common2.TxVersion09, common2.RevertToPOW, payload.RevertToPOWVersion,
		&payload.RevertToPOW{Type: payload.NoBlock, WorkingHeight: workingHeight},
		[]*common2.Attribute{}, []*common2.Input{}, []*common2.Output{}, 0, []*pg.Program{})
}

// RevertToDPOSTx builds the RevertToDPOS transaction the arbiters would agree
// on in POW mode: M-of-N multisig over the current normal arbiters' node keys
// (M = int(N*2/3)+1), signed with harness keys. With bogusSigs the parameter
// holds M syntactically valid but WRONG signatures (probe: the repo's
// SpecialContextCheck ends validation before signatures are verified).
func (n *Node) RevertToDPOSTx(bogusSigs bool) (interfaces.Transaction, error) {
	var pks []*crypto.PublicKey
	var accs []*account.Account
	arbs := n.Arbiters.GetArbitrators()
	for _, a := range arbs {
		if !a.IsNormal {
			continue
		}
		pk, err := crypto.DecodePoint(a.NodePublicKey)
		if err != nil {
			return nil, err
		}
		pks = append(pks, pk)
		accs = append(accs, KeyByPub(a.NodePublicKey))
	}
	if len(pks) == 0 {
		return nil, errors.New("revert to dpos: no normal arbiters")
	}
	m := int(float64(len(arbs))*2/3) + 1
	code, err := contract.CreateRevertToPOWRedeemScript(m, pks)
	if err != nil {
		return nil, err
	}
	nonce := make([]byte, 20)
	h := n.Height()
	for i := 0; i < 4; i++ {
		nonce[i] = byte(h >> (8 * uint(i)))
	}
	if bogusSigs {
		nonce[19] = 1
	}
	tx := functions.CreateTransaction(common2.TxVersion09, common2.RevertToDPOS, payload.RevertToDPOSVersion,
		&payload.RevertToDPOS{WorkHeightInterval: payload.WorkHeightInterval, RevertToPOWBlockHeight: n.Arbiters.GetRevertToPOWBlockHeight()},
		[]*common2.Attribute{{Usage: common2.Nonce, Data: nonce}}, []*common2.Input{}, []*common2.Output{}, 0, []*pg.Program{})
	buf := new(bytes.Buffer)
	tx.SerializeUnsigned(buf)
	var param []byte
	cnt := 0
	for _, a := range accs {
		if cnt >= m {
			break
		}
		var sig []byte
		if bogusSigs {
			sig = make([]byte, 64)
			for i := range sig {
				sig[i] = byte(i + cnt + 1)
			}
		} else {
			if a == nil {
				continue
			}
			if sig, err = crypto.Sign(a.PrivKey(), buf.Bytes()); err != nil {
				return nil, err
			}
		}
		param = append(param, byte(len(sig)))
		param = append(param, sig...)
		cnt++
	}
	if cnt < m {
		return nil, fmt.Errorf("revert to dpos: only %d of %d required keys known", cnt, m)
	}
	tx.SetPrograms([]*pg.Program{{Code: code, Parameter: param}})
	return tx, nil
}

// MineTipAt is MineTipDPoS with an explicit block timestamp (e.g. parent +
// RevertToPOWNoBlockTime to make a RevertToPOW{NoBlock} valid).
func (n *Node) MineTipAt(ts uint32, txs ...interfaces.Transaction) (*types.Block, error) {
	b, err := n.assembleTipAt(ts, txs...)
	if err != nil {
		return nil, err
	}
	if err := n.ProcessConfirmed(b); err != nil {
		if prev, ok := n.Chain.LookupNodeInIndex(&b.Header.Previous); ok {
			if e := n.Chain.CheckBlockSanity(b); e != nil {
				return b, fmt.Errorf("%v: sanity: %v", err, e)
			}
			if e := n.Chain.CheckBlockContext(b, prev); e != nil {
				return b, fmt.Errorf("%v: context: %v", err, e)
			}
		}
		return b, err
	}
	n.PostBlock(b)
	n.Chain.UTXOCache.CleanTxCache()
	n.BlockPool.CleanFinalConfirmedBlock(b.Height)
	return b, nil
}

// CheckTx runs exactly the two validators the mempool and block validation run
// for a transaction at the next height (CheckTransactionSanity +
// CheckTransactionContext) without putting it anywhere. blockTime 0 = "not in
// a block" (mempool view).
func (n *Node) CheckTx(tx interfaces.Transaction, blockTime uint32) error {
	h := n.Height() + 1
	if err := n.Chain.CheckTransactionSanity(h, tx); err != nil {
		return fmt.Errorf("sanity: %v", err)
	}
	if _, err := n.Chain.CheckTransactionContext(h, tx, 0, blockTime); err != nil {
		return fmt.Errorf("context: %v", err)
	}
	return nil
}

// boot.go — one-call bootstrap of a compressed-era chain to a useful stage, so
// that property checks do not have to re-script producer / CR elections.
// Everything goes through the real mempool and real (confirmed) blocks.
//
// # API summary (package node)
//
//	(n) Bootstrap(eraName string, BootOpts) (*Boot, error)
//	    stages (BootOpts.Until):
//	      "funded"     accounts funded (height = maturity+2)
//	      "producers"  producers registered+voted, chain at PublicDPOSHeight+1: arbiters = CRC arbiters + elected producers, every block confirmed
//	      "committee"  CR candidates registered+voted, chain at CRCommitteeStartHeight+2: committee elected, CRCAppropriation mined, CR expenses funded
//	      "claimed"    chain at CRClaimDPOSNodeStartHeight+1: every member claimed its DPoS node key (KeyCRNode+i)
//	      "dposv2"     (dposv2-era only) v2 producers registered, stake + votes cast, chain 2 blocks past DPoSV2ActiveHeight
//	Boot fields: Era, Owners/Nodes (producers i: Key(KeyProducerOwner+i)/Key(KeyProducerNode+i)), RegTx (their RegisterProducer txs),
//	    CRs / CRNodes (candidates), Members (elected, in CRs order), Voters (Key(KeyVoter+i)), Staker, V2Owners/V2Nodes, Wallet
//
// After Bootstrap the caller owns the chain: use n.Wallet().Take(...) for
// funds and n.MineTipDPoS(txs...) to continue.
// NOTE (dpos eras): the first committee serves CRDutyPeriod blocks; if no new
// committee is elected in the next voting period the node itself reverts to
// POW (around height CRCommitteeStart+CRDutyPeriod+12). Re-elect, or compose
// the tweak with a larger cfg.CRConfiguration.DutyPeriod.
package node

import (
	"fmt"
	"math"

	"github.com/elastos/Elastos.ELA/account"
	"github.com/elastos/Elastos.ELA/common"
	common2 "github.com/elastos/Elastos.ELA/core/types/common"
	"github.com/elastos/Elastos.ELA/core/types/interfaces"
	"github.com/elastos/Elastos.ELA/core/types/payload"
)

// BootOpts tunes Bootstrap; zero values pick defaults.
type BootOpts struct {
	Until           string         // "funded" | "producers" | "committee" | "claimed" | "dposv2"; default "claimed" ("dposv2" for the dposv2-era)
	Producers       int            // default NormalArbiters + Candidates + 1
	CRs             int            // default CRCArbiters + 1
	Voters          int            // default 6
	UTXOsPerAccount int            // default 8
	UTXOValue       common.Fixed64 // default 6000 ELA
	CRAssetsFunding common.Fixed64 // default 5000 ELA sent to the CR assets address before the election
}

// Boot is what Bootstrap built.
type Boot struct {
	Era      *Era
	Owners   []*account.Account
	Nodes    []*account.Account
	RegTx    []interfaces.Transaction
	CRs      []*account.Account
	CRNodes  []*account.Account
	Members  []*account.Account
	Voters   []*account.Account
	Staker   *account.Account
	V2Owners []*account.Account
	V2Nodes  []*account.Account
	Wallet   *Wallet
}

func (n *Node) submitAll(txs ...interfaces.Transaction) error {
	for _, tx := range txs {
		if err := n.TxPool.AppendToTxPool(tx); err != nil {
			return fmt.Errorf("height %d: mempool rejected %s: %v", n.Height()+1, tx.TxType().Name(), err)
		}
	}
	if _, err := n.MineTipDPoS(txs...); err != nil {
		return fmt.Errorf("height %d: %v", n.Height()+1, err)
	}
	return nil
}

// Bootstrap drives the chain of a node started with EraTweak(eraName) to the requested stage.
func (n *Node) Bootstrap(eraName string, o BootOpts) (*Boot, error) {
	e := EraOf(eraName)
	if e == nil || eraName == "pow-era" {
		return nil, fmt.Errorf("bootstrap: era %q has no DPoS schedule", eraName)
	}
	if o.Until == "" {
		o.Until = "claimed"
		if e.DPoSV2Start != math.MaxUint32 {
			o.Until = "dposv2"
		}
	}
	if o.Producers == 0 {
		o.Producers = e.NormalArbiters + e.Candidates + 1
	}
	if o.CRs == 0 {
		o.CRs = e.CRCArbiters + 1
	}
	if o.Voters == 0 {
		o.Voters = 6
	}
	if o.Voters < 3 {
		o.Voters = 3
	}
	if o.UTXOsPerAccount == 0 {
		o.UTXOsPerAccount = 8
	}
	if o.UTXOValue == 0 {
		o.UTXOValue = ELA(6000)
	}
	if o.CRAssetsFunding == 0 {
		o.CRAssetsFunding = ELA(5000)
	}
	if o.UTXOValue < ELA(5001) {
		return nil, fmt.Errorf("bootstrap: UTXOValue must cover a 5000 ELA deposit")
	}
	b := &Boot{Era: e}
	var idx []int
	for i := 0; i < o.Producers; i++ {
		b.Owners = append(b.Owners, Key(KeyProducerOwner+i))
		b.Nodes = append(b.Nodes, Key(KeyProducerNode+i))
		idx = append(idx, KeyProducerOwner+i)
	}
	for i := 0; i < o.CRs; i++ {
		b.CRs = append(b.CRs, Key(KeyCR+i))
		b.CRNodes = append(b.CRNodes, Key(KeyCRNode+i))
		idx = append(idx, KeyCR+i)
	}
	for i := 0; i < o.Voters; i++ {
		b.Voters = append(b.Voters, Key(KeyVoter+i))
		idx = append(idx, KeyVoter+i)
	}
	if _, err := n.Fund(idx, o.UTXOsPerAccount, o.UTXOValue); err != nil {
		return nil, err
	}
	w := n.Wallet()
	b.Wallet = w
	take := func(a *account.Account, min common.Fixed64) (UTXORef, error) {
		r, ok := w.Take(a, min+DefaultFee)
		if !ok {
			return r, fmt.Errorf("bootstrap: %s has no spendable utxo >= %d at height %d", a.Address, int64(min), n.Height())
		}
		return r, nil
	}
	if o.Until == "funded" {
		return b, nil
	}

	// ---- producers ----
	if err := n.MineToDPoS(e.VoteStart); err != nil {
		return nil, err
	}
	var txs []interfaces.Transaction
	for i := range b.Owners {
		in, err := take(b.Owners[i], ELA(5000))
		if err != nil {
			return nil, err
		}
		tx := RegisterProducer(in, b.Owners[i], b.Nodes[i], fmt.Sprintf("producer-%d", i), ELA(5000))
		b.RegTx = append(b.RegTx, tx)
		txs = append(txs, tx)
	}
	if err := n.submitAll(txs...); err != nil {
		return nil, err
	}
	if err := n.MineNDPoS(6); err != nil {
		return nil, err
	}
	var pubs [][]byte
	for _, a := range b.Owners {
		pubs = append(pubs, Pub(a))
	}
	in, err := take(b.Voters[0], ELA(3000))
	if err != nil {
		return nil, err
	}
	if err := n.submitAll(VoteProducers(in, ELA(3000), pubs...)); err != nil {
		return nil, err
	}
	if n.Height() >= e.PublicDPOS-e.PreConnectOffset-1 {
		return nil, fmt.Errorf("bootstrap: producers were not voted before PublicDPOSHeight-PreConnectOffset (height %d)", n.Height())
	}
	if err := n.MineToDPoS(e.PublicDPOS + 1); err != nil {
		return nil, err
	}
	if got := len(n.Arbiters.GetArbitrators()); got != e.CRCArbiters+e.NormalArbiters {
		return nil, fmt.Errorf("bootstrap: %d arbiters after PublicDPOSHeight, want %d", got, e.CRCArbiters+e.NormalArbiters)
	}
	if o.Until == "producers" {
		return b, nil
	}

	// ---- CR committee ----
	if err := n.MineToDPoS(e.CRVotingStart); err != nil {
		return nil, err
	}
	txs = nil
	for i, c := range b.CRs {
		in, err := take(c, ELA(5000))
		if err != nil {
			return nil, err
		}
		txs = append(txs, RegisterCR(in, c, fmt.Sprintf("cr-%d", i), ELA(5000)))
	}
	in, err = take(b.Voters[2], o.CRAssetsFunding)
	if err != nil {
		return nil, err
	}
	txs = append(txs, BuildTx(TxSpec{Type: common2.TransferAsset, Payload: &payload.TransferAsset{}, Ins: []UTXORef{in},
		Outs: []*common2.Output{StdOut(*n.Cfg.CRConfiguration.CRAssetsProgramHash, o.CRAssetsFunding)}}))
	if err := n.submitAll(txs...); err != nil {
		return nil, err
	}
	if err := n.MineNDPoS(6); err != nil {
		return nil, err
	}
	votes := map[common.Uint168]common.Fixed64{}
	for i, c := range b.CRs {
		votes[CIDOf(c)] = ELA(int64(500 - 20*i)) // descending: the first MemberCount candidates win
	}
	in, err = take(b.Voters[1], ELA(5500))
	if err != nil {
		return nil, err
	}
	if err := n.submitAll(VoteCRs(in, ELA(5500), votes)); err != nil {
		return nil, err
	}
	if err := n.MineToDPoS(e.CRCommitteeStart + 2); err != nil { // +1 elects, +2 carries the CRCAppropriation
		return nil, err
	}
	if !n.Committee.IsInElectionPeriod() {
		return nil, fmt.Errorf("bootstrap: committee not elected at height %d", n.Height())
	}
	for _, c := range b.CRs {
		if m := n.Committee.GetMember(DIDOf(c)); m != nil {
			b.Members = append(b.Members, c)
		}
	}
	if len(b.Members) != e.CRCArbiters {
		return nil, fmt.Errorf("bootstrap: %d harness members elected, want %d", len(b.Members), e.CRCArbiters)
	}
	if o.Until == "committee" {
		return b, nil
	}

	// ---- members claim their DPoS nodes ----
	if err := n.MineToDPoS(e.CRClaimDPOSNodeStart); err != nil {
		return nil, err
	}
	txs = nil
	for i, c := range b.CRs {
		if n.Committee.GetMember(DIDOf(c)) == nil {
			continue
		}
		in, err := take(c, ELA(1))
		if err != nil {
			return nil, err
		}
		txs = append(txs, CRCouncilMemberClaimNode(in, c, b.CRNodes[i], payload.CurrentCRClaimDPoSNodeVersion))
	}
	if err := n.submitAll(txs...); err != nil {
		return nil, err
	}
	if o.Until == "claimed" {
		return b, nil
	}

	// ---- DPoS v2 ----
	if e.DPoSV2Start == math.MaxUint32 {
		return nil, fmt.Errorf("bootstrap: era %s never starts DPoS v2", eraName)
	}
	if err := n.MineToDPoS(e.DPoSV2Start); err != nil {
		return nil, err
	}
	nV2 := e.NormalArbiters*3/2 + 2
	stakeUntil := n.Height() + 300000
	payer := b.Voters[len(b.Voters)-1]
	txs = nil
	for i := 0; i < nV2; i++ {
		ow, nk := Key(KeyProducerOwner+o.Producers+i), Key(KeyProducerNode+o.Producers+i)
		b.V2Owners = append(b.V2Owners, ow)
		b.V2Nodes = append(b.V2Nodes, nk)
		in, err := take(payer, ELA(2000))
		if err != nil {
			return nil, err
		}
		txs = append(txs, RegisterProducerV2(in, ow, nk, fmt.Sprintf("producer-v2-%d", i), ELA(2000), stakeUntil))
	}
	b.Staker = b.Voters[len(b.Voters)-2]
	in, err = take(b.Staker, ELA(5000))
	if err != nil {
		return nil, err
	}
	txs = append(txs, ExchangeVotes(in, ELA(5000)))
	if err := n.submitAll(txs...); err != nil {
		return nil, err
	}
	if err := n.MineNDPoS(6); err != nil {
		return nil, err
	}
	lock := n.Height() + 1 + 10*e.V2VoteLock
	var vs []V2Vote
	for _, ow := range b.V2Owners {
		vs = append(vs, V2Vote{OwnerPub: Pub(ow), Votes: ELA(4000 / int64(nV2)), LockTime: lock})
	}
	in, err = take(b.Staker, ELA(1))
	if err != nil {
		return nil, err
	}
	if err := n.submitAll(Voting(in, V2Votes(vs...))); err != nil {
		return nil, err
	}
	for i := 0; i < 4*(e.CRCArbiters+e.NormalArbiters) && n.Arbiters.GetDPoSV2ActiveHeight() == math.MaxUint32; i++ {
		if _, err := n.MineTipDPoS(); err != nil {
			return nil, err
		}
	}
	act := n.Arbiters.GetDPoSV2ActiveHeight()
	if act == math.MaxUint32 {
		return nil, fmt.Errorf("bootstrap: DPoSV2ActiveHeight not set by height %d (%d effective v2 producers)", n.Height(), len(n.Chain.GetState().DposV2EffectedProducers))
	}
	if err := n.MineToDPoS(act + 2); err != nil {
		return nil, err
	}
	return b, nil
}

// Package node wires a real in-process ELA node exactly as main.go:startNode
// does, minus the network server. Process-global singletons are involved, so
// at most ONE node per process.
package node

import (
	"bytes"
	"crypto/sha256"
	"errors"
	"fmt"
	"math"
	"path/filepath"
	"time"

	"github.com/elastos/Elastos.ELA/account"
	"github.com/elastos/Elastos.ELA/auxpow"
	"github.com/elastos/Elastos.ELA/blockchain"
	"github.com/elastos/Elastos.ELA/common"
	"github.com/elastos/Elastos.ELA/common/config"
	"github.com/elastos/Elastos.ELA/common/log"
	"github.com/elastos/Elastos.ELA/core"
	"github.com/elastos/Elastos.ELA/core/checkpoint"
	pg "github.com/elastos/Elastos.ELA/core/contract/program"
	"github.com/elastos/Elastos.ELA/core/transaction"
	"github.com/elastos/Elastos.ELA/core/types"
	common2 "github.com/elastos/Elastos.ELA/core/types/common"
	"github.com/elastos/Elastos.ELA/core/types/functions"
	"github.com/elastos/Elastos.ELA/core/types/interfaces"
	"github.com/elastos/Elastos.ELA/core/types/outputpayload"
	"github.com/elastos/Elastos.ELA/core/types/payload"
	crstate "github.com/elastos/Elastos.ELA/cr/state"
	"github.com/elastos/Elastos.ELA/crypto"
	"github.com/elastos/Elastos.ELA/dpos/state"
	"github.com/elastos/Elastos.ELA/mempool"
	"github.com/elastos/Elastos.ELA/p2p"
	"github.com/elastos/Elastos.ELA/pow"
)

// InitGlobals sets the process-wide factories and a silent logger. Safe to
// call more than once.
func InitGlobals(logDir string) {
	functions.GetTransactionByTxType = transaction.GetTransaction
	functions.GetTransactionByBytes = transaction.GetTransactionByBytes
	functions.CreateTransaction = transaction.CreateTransaction
	functions.GetTransactionParameters = transaction.GetTransactionparameters
	log.NewDefault(filepath.Join(logDir, "logs"), 5 /*disabled*/, 0, 0)
}

// Key returns the i-th deterministic account (private key = sha256("verif-key"||i)).
func Key(i int) *account.Account {
	h := sha256.Sum256([]byte(fmt.Sprintf("verif-key-%d", i)))
	a, err := account.NewAccountWithPrivateKey(h[:])
	if err != nil {
		panic(err)
	}
	return a
}

// Options tune the network parameters of the kit node.
type Options struct {
	Dir              string
	CoinbaseMaturity uint32
	NeedSave         bool
	// Tweak runs on the configuration before Sterilize / node construction.
	Tweak func(cfg *config.Configuration)
	// NonInstant keeps real difficulty (retargeting) instead of InstantBlock.
	NonInstant bool
}

// Node is a running in-process node.
type Node struct {
	Cfg       *config.Configuration
	Dir       string
	Ckp       *checkpoint.Manager
	Store     blockchain.IChainStore
	Chain     *blockchain.BlockChain
	TxPool    *mempool.TxPool
	BlockPool *mempool.BlockPool
	Committee *crstate.Committee
	Arbiters  *state.Arbiters
	Pow       *pow.Service
	Ledger    *blockchain.Ledger
	Found     *account.Account // owner of the genesis coins
	Miner     *account.Account
	closed    bool
}

// BaseConfig returns regnet+instant-block parameters owned by the harness key 0.
func BaseConfig(o *Options) *config.Configuration {
	cfg := config.GetDefaultParams().RegNet()
	if !o.NonInstant {
		cfg = cfg.InstantBlock()
	}
	found := Key(0)
	cfg.FoundationAddress = found.Address
	cfg.PowConfiguration.PayToAddr = Key(1).Address
	cfg.PowConfiguration.MinerInfo = "verif"
	cfg.PowConfiguration.CoinbaseMaturity = 3
	if o.CoinbaseMaturity != 0 {
		cfg.PowConfiguration.CoinbaseMaturity = o.CoinbaseMaturity
	}
	cfg.CheckRewardHeight = 0
	cfg.CheckPointConfiguration.NeedSave = o.NeedSave
	cfg.DataDir = o.Dir
	cfg.TxCacheVolume = 100000
	if o.Tweak != nil {
		o.Tweak(cfg)
	}
	cfg.Sterilize()
	return cfg
}

// Start builds the node. It mirrors main.go:startNode.
func Start(o Options) (*Node, error) {
	InitGlobals(o.Dir)
	cfg := BaseConfig(&o)
	config.SetParameters(cfg)
	n := &Node{Cfg: cfg, Dir: o.Dir, Found: Key(0), Miner: Key(1)}
	dataDir := filepath.Join(o.Dir, "data")
	n.Ckp = checkpoint.NewManager(cfg)
	n.Ckp.SetDataPath(filepath.Join(dataDir, "checkpoints"))

	ledger := blockchain.Ledger{}
	blockchain.FoundationAddress = *cfg.FoundationProgramHash
	store, err := blockchain.NewChainStore(dataDir, cfg)
	if err != nil {
		return nil, err
	}
	n.Store = store
	ledger.Store = store
	n.TxPool = mempool.NewTxPool(cfg, n.Ckp)
	n.BlockPool = mempool.NewBlockPool(cfg)
	n.BlockPool.Store = store
	blockchain.DefaultLedger = &ledger
	n.Ledger = &ledger

	n.Committee = crstate.NewCommittee(cfg, n.Ckp)
	ledger.Committee = n.Committee
	arbiters, err := state.NewArbitrators(cfg, n.Committee, ledger.GetAmount,
		n.Committee.TryUpdateCRMemberInactivity,
		n.Committee.TryRevertCRMemberInactivity,
		n.Committee.TryUpdateCRMemberIllegal,
		n.Committee.TryRevertCRMemberIllegal,
		n.Committee.UpdateCRInactivePenalty,
		n.Committee.RevertUpdateCRInactivePenalty,
		n.Ckp)
	if err != nil {
		return nil, err
	}
	n.Arbiters = arbiters
	ledger.Arbitrators = arbiters

	chain, err := blockchain.New(store, cfg, arbiters.State, n.Committee, n.Ckp)
	if err != nil {
		return nil, err
	}
	intr := make(chan struct{})
	if err = chain.Init(intr); err != nil {
		return nil, err
	}
	n.Chain = chain
	ledger.Blockchain = chain
	n.BlockPool.Chain = chain
	arbiters.RegisterFunction(chain.GetHeight, chain.GetBestBlockHash,
		chain.GetBlock, chain.UTXOCache.GetTxReference)
	isCurrent := func() bool { return true }
	n.BlockPool.IsCurrent = isCurrent
	arbiters.State.RegisterFuncitons(&state.StateFuncsConfig{
		GetHeight:                           store.GetHeight,
		IsCurrent:                           isCurrent,
		Broadcast:                           func(msg p2p.Message) {},
		AppendToTxpool:                      n.TxPool.AppendToTxPool,
		CreateDposV2RealWithdrawTransaction: chain.CreateDposV2RealWithdrawTransaction,
		CreateVotesRealWithdrawTransaction:  chain.CreateVotesRealWithdrawTransaction,
	})
	n.Committee.RegisterFuncitons(&crstate.CommitteeFuncsConfig{
		GetTxReference:                   chain.UTXOCache.GetTxReference,
		GetUTXO:                          store.GetFFLDB().GetUTXO,
		GetHeight:                        store.GetHeight,
		CreateCRAppropriationTransaction: chain.CreateCRCAppropriationTransaction,
		CreateCRAssetsRectifyTransaction: chain.CreateCRAssetsRectifyTransaction,
		CreateCRRealWithdrawTransaction:  chain.CreateCRRealWithdrawTransaction,
		IsCurrent:                        isCurrent,
		Broadcast:                        func(msg p2p.Message) {},
		AppendToTxpool:                   n.TxPool.AppendToTxPool,
		GetCurrentArbiters:               arbiters.GetCurrentArbitratorKeys,
	})
	n.Pow = pow.NewService(&pow.Config{
		PayToAddr:      cfg.PowConfiguration.PayToAddr,
		MinerInfo:      cfg.PowConfiguration.MinerInfo,
		Chain:          chain,
		ChainParams:    cfg,
		TxMemPool:      n.TxPool,
		BlkMemPool:     n.BlockPool,
		BroadcastBlock: func(block *types.Block) {},
		Arbitrators:    arbiters,
	})
	n.Ckp.SetNeedSave(o.NeedSave)
	if err = chain.InitCheckpoint(intr, func(uint32) {}, func() {}); err != nil {
		return nil, err
	}
	return n, nil
}

// Close releases the stores.
func (n *Node) Close() {
	if n.closed {
		return
	}
	n.closed = true
	n.Ckp.Close()
	n.Store.Close()
}

// Height of the active chain.
func (n *Node) Height() uint32 { return n.Chain.GetHeight() }

// Tip hash.
func (n *Node) Tip() common.Uint256 { return n.Chain.GetCurrentBlockHash() }

// ---------- block assembly ----------

// BlockSpec says how to assemble a block on an arbitrary parent.
type BlockSpec struct {
	Parent     *types.Block // nil = current tip
	Txs        []interfaces.Transaction
	MinerAddr  string
	Time       uint32 // 0 = parent+1
	RewardSkew int64  // added to the miner output (to build invalid coinbases)
	NoSolve    bool
	Fees       common.Fixed64 // total fees of Txs (caller computed)
	Nonce      uint64         // coinbase nonce attribute; 0 = derived from parent+time
}

// TipBlock fetches the tip block.
func (n *Node) TipBlock() *types.Block {
	b, err := n.Chain.GetBlockByHash(n.Tip())
	if err != nil {
		panic(err)
	}
	return b
}

// CoinbaseTx builds a deterministic coinbase (no global math/rand draw).
func (n *Node) CoinbaseTx(minerAddr string, height uint32, nonce uint64) interfaces.Transaction {
	cfg := n.Cfg
	crRewardAddr := cfg.FoundationProgramHash
	if height >= cfg.CRConfiguration.CRCommitteeStartHeight {
		crRewardAddr = cfg.CRConfiguration.CRAssetsProgramHash
	}
	minerPH, err := common.Uint168FromAddress(minerAddr)
	if err != nil {
		panic(err)
	}
	nb := make([]byte, 8)
	for i := 0; i < 8; i++ {
		nb[i] = byte(nonce >> (8 * uint(7-i)))
	}
	attr := common2.NewAttribute(common2.Nonce, nb)
	return functions.CreateTransaction(
		n.Pow.GetDefaultTxVersion(height), common2.CoinBase, payload.CoinBaseVersion,
		&payload.CoinBase{Content: []byte("verif")},
		[]*common2.Attribute{&attr},
		[]*common2.Input{{Previous: common2.OutPoint{TxID: common.EmptyHash, Index: math.MaxUint16}, Sequence: math.MaxUint32}},
		[]*common2.Output{
			{AssetID: core.ELAAssetID, Value: 0, ProgramHash: *crRewardAddr, Type: common2.OTNone, Payload: &outputpayload.DefaultOutput{}},
			{AssetID: core.ELAAssetID, Value: 0, ProgramHash: *minerPH, Type: common2.OTNone, Payload: &outputpayload.DefaultOutput{}},
		},
		height, []*pg.Program{})
}

// Assemble builds (and solves) a block on spec.Parent. The coinbase reward
// split is the node's own AssignCoinbaseTxRewards, which reads the *current*
// arbiter state, so for non-tip parents in DPoS eras the caller must know what
// it is doing.
func (n *Node) Assemble(s BlockSpec) (*types.Block, error) {
	parent := s.Parent
	if parent == nil {
		parent = n.TipBlock()
	}
	h := parent.Height + 1
	ts := s.Time
	if ts == 0 {
		ts = parent.Timestamp + 1
	}
	miner := s.MinerAddr
	if miner == "" {
		miner = n.Miner.Address
	}
	nonce := s.Nonce
	if nonce == 0 {
		ph := parent.Hash()
		for i := 0; i < 8; i++ {
			nonce = nonce<<8 | uint64(ph[i])
		}
		nonce ^= uint64(ts)<<20 ^ uint64(len(s.Txs))
	}
	cb := n.CoinbaseTx(miner, h, nonce)
	blk := &types.Block{
		Header: common2.Header{Version: 0, Previous: parent.Hash(), Timestamp: ts,
			Bits: n.Cfg.PowConfiguration.PowLimitBits, Height: h},
		Transactions: append([]interfaces.Transaction{cb}, s.Txs...),
	}
	total := s.Fees + n.Cfg.GetBlockReward(h)
	if err := n.Pow.AssignCoinbaseTxRewards(blk, total); err != nil {
		return nil, err
	}
	if s.RewardSkew != 0 {
		outs := blk.Transactions[0].Outputs()
		outs[1].Value += common.Fixed64(s.RewardSkew)
	}
	if err := Seal(blk, !s.NoSolve); err != nil {
		return nil, err
	}
	return blk, nil
}

// Seal recomputes the merkle root and (optionally) solves the aux-pow.
func Seal(blk *types.Block, solve bool) error {
	hashes := make([]common.Uint256, 0, len(blk.Transactions))
	for _, tx := range blk.Transactions {
		hashes = append(hashes, tx.Hash())
	}
	root, err := crypto.ComputeRoot(hashes)
	if err != nil {
		return err
	}
	blk.Header.MerkleRoot = root
	if solve {
		return Solve(blk)
	}
	return nil
}

// Solve attaches a valid aux-pow for the block's bits.
func Solve(blk *types.Block) error {
	ap := auxpow.GenerateAuxPow(blk.Hash())
	target := blockchain.CompactToBig(blk.Header.Bits)
	for i := uint32(0); i < 1<<30; i++ {
		ap.ParBlockHeader.Nonce = i
		h := ap.ParBlockHeader.Hash()
		if blockchain.HashToBig(&h).Cmp(target) <= 0 {
			blk.Header.AuxPow = *ap
			return nil
		}
	}
	return errors.New("solve: nonce space exhausted")
}

// Process hands a block to the chain like the p2p layer does.
func (n *Node) Process(b *types.Block) (inMain, isOrphan bool, err error) {
	return n.Chain.ProcessBlock(b, nil)
}

// PostBlock performs the node's own post-block mempool cleanup, as the
// blockchain event handler in elanet/netsync does.
func (n *Node) PostBlock(b *types.Block) {
	n.TxPool.CleanSubmittedTransactions(b)
	n.TxPool.CheckAndCleanAllTransactions()
}

// MineTip assembles an honest block with the given txs on the tip and
// processes it; fees are computed from the references.
func (n *Node) MineTip(txs ...interfaces.Transaction) (*types.Block, error) {
	var fees common.Fixed64
	for _, tx := range txs {
		refs, err := n.Chain.UTXOCache.GetTxReference(tx)
		if err != nil {
			return nil, fmt.Errorf("mine: references: %v", err)
		}
		var in, out common.Fixed64
		for _, o := range refs {
			in += o.Value
		}
		for _, o := range tx.Outputs() {
			out += o.Value
		}
		fees += in - out
	}
	b, err := n.Assemble(BlockSpec{Txs: txs, Fees: fees})
	if err != nil {
		return nil, err
	}
	_, _, err = n.Process(b)
	if err != nil {
		return b, err
	}
	n.PostBlock(b)
	return b, nil
}

// MineN mines n empty blocks on the tip.
func (n *Node) MineN(k int) error {
	for i := 0; i < k; i++ {
		if _, err := n.MineTip(); err != nil {
			return err
		}
	}
	return nil
}

// ---------- transactions ----------

// UTXORef names a spendable output.
type UTXORef struct {
	TxID  common.Uint256
	Index uint16
	Value common.Fixed64
	Owner *account.Account
}

// Out is a transfer destination.
type Out struct {
	To    common.Uint168
	Value common.Fixed64
}

// Transfer builds a signed TransferAsset spending ins (each with its owner).
func Transfer(ins []UTXORef, outs []Out, version common2.TransactionVersion) interfaces.Transaction {
	var inputs []*common2.Input
	for _, u := range ins {
		inputs = append(inputs, &common2.Input{Previous: common2.OutPoint{TxID: u.TxID, Index: u.Index}, Sequence: 0})
	}
	var outputs []*common2.Output
	for _, o := range outs {
		outputs = append(outputs, &common2.Output{AssetID: core.ELAAssetID, Value: o.Value, ProgramHash: o.To,
			Type: common2.OTNone, Payload: &outputpayload.DefaultOutput{}})
	}
	tx := functions.CreateTransaction(version, common2.TransferAsset, 0, &payload.TransferAsset{},
		[]*common2.Attribute{}, inputs, outputs, 0, []*pg.Program{})
	SignStd(tx, owners(ins)...)
	return tx
}

func owners(ins []UTXORef) []*account.Account {
	seen := map[string]bool{}
	var as []*account.Account
	for _, u := range ins {
		if u.Owner != nil && !seen[u.Owner.Address] {
			seen[u.Owner.Address] = true
			as = append(as, u.Owner)
		}
	}
	return as
}

// SignStd replaces tx programs with one standard program per account.
func SignStd(tx interfaces.Transaction, accts ...*account.Account) {
	buf := new(bytes.Buffer)
	tx.SerializeUnsigned(buf)
	var ps []*pg.Program
	for _, a := range accts {
		sig, err := crypto.Sign(a.PrivKey(), buf.Bytes())
		if err != nil {
			panic(err)
		}
		ps = append(ps, &pg.Program{Code: a.RedeemScript, Parameter: append([]byte{byte(len(sig))}, sig...)})
	}
	tx.SetPrograms(ps)
}

// GenesisUTXO returns the foundation's genesis output.
func (n *Node) GenesisUTXO() UTXORef {
	g := n.Cfg.GenesisBlock
	for _, tx := range g.Transactions {
		for i, o := range tx.Outputs() {
			if o.ProgramHash.IsEqual(*n.Cfg.FoundationProgramHash) && o.Value > 0 {
				return UTXORef{TxID: tx.Hash(), Index: uint16(i), Value: o.Value, Owner: n.Found}
			}
		}
	}
	panic("no genesis utxo")
}

// Now is a helper for timestamps that must be in the past.
func Now() uint32 { return uint32(time.Now().Unix()) }

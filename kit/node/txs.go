// txs.go — signed transaction factory for the kit node.
//
// Every builder returns a fully signed transaction that the real mempool
// (nd.TxPool.AppendToTxPool) and block validation accept in the right era /
// chain state. Builders are pure functions (no node access): funds come from a
// UTXORef whose Owner signs; the change (inputs - explicit outputs - fee) goes
// back to that owner as the LAST output (omitted when zero).
//
// # API summary (package node)
//
//	DefaultFee                                  // 10000 sela; MinTransactionFee is 100
//	BuildTx(TxSpec) interfaces.Transaction      // generic: any type/payload/outputs, signs with input owners (+Signers)
//	ChangeOf(tx, owner) (UTXORef, bool)         // last output paying owner's standard address
//	OutputsOf(tx, owner) []UTXORef              // every output paying owner's standard address (incl. vote outputs)
//	OutRef(tx, index, owner) UTXORef
//	DepositAddr(owner) / CRDepositAddr(cr) common.Uint168 ; DepositRef(tx, owner) (UTXORef, bool)  // deposit output of a Register* tx
//	CRCode(a) []byte ; CIDOf(a) ; DIDOf(a) ; StakeAddr(a) common.Uint168
//
//	producers (DPoS v1/v2):
//	RegisterProducer(in, owner, nodeKey, nick, deposit)                     // payload v0, deposit >= 5000 ELA
//	RegisterProducerV2(in, owner, nodeKey, nick, deposit, stakeUntil)       // payload v1 (>= DPoSV2StartHeight), deposit >= 2000 ELA
//	UpdateProducer(in, owner, nodeKey, nick, url, stakeUntil)               // stakeUntil != 0 -> payload v1 (v1 -> v1v2 upgrade or extend)
//	CancelProducer(in, owner)
//	ActivateProducer(nodeKey)                                               // zero-cost: no inputs/outputs/programs (height <= NFTStartHeight)
//	ReturnDepositCoin(depositIns, owner, fee)                               // spends deposit UTXOs (owner = producer owner key), pays everything minus fee to owner
//	ReturnDepositCoinAmount(depositIns, owner, amount, fee)                 // partial: change goes back to the deposit address (same for ReturnCRDepositCoinAmount)
//	v1 votes (TransferAsset v9 with an OTVote output):
//	VoteTx(in, value, version, contents...)                                 // output0 = vote output (value) to the input owner, then change
//	VoteProducers(in, value, ownerPubs...)                                  // Delegate, output payload v0
//	VoteProducersV1(in, value, votes map[hexOwnerPub]Fixed64)               // Delegate, payload v1 (per-candidate votes)
//	VoteCRs(in, value, votes map[cid]Fixed64)                               // CRC, payload v1
//	VoteAgainstProposals(in, value, hashes...) ; VoteImpeach(in, value, votes map[cid]Fixed64)
//	cancel a vote = spend the vote output: Transfer([]UTXORef{OutRef(tx,0,owner)}, ...)
//	CR:
//	RegisterCR(in, cr, nick, deposit)  (payload v1 = with DID) ; UpdateCR(in, cr, nick, url) ; UnregisterCR(in, cr)
//	ReturnCRDepositCoin(depositIns, cr, fee)
//	CRCouncilMemberClaimNode(in, cr, nodeKey, payloadVersion)
//	DPoS v2 (>= DPoSV2StartHeight):
//	ExchangeVotes(in, amount)                                               // stake: output0 OTStake to the stake pool for StakeAddr(in.Owner)
//	Voting(in, contents...)                                                 // payload.VotesContent list; helpers V2Votes / CRVotes / DelegateVotes / ProposalVotes / ImpeachVotes
//	VotingRenew(in, renewals...)                                            // payload.RenewalVotesContent
//	ReturnVotes(in, amount)                                                 // unstake request; the node then creates VotesRealWithdraw
//	DposV2ClaimReward(in, value) ; StakeAddrString(a)                       // claim accumulated v2 rewards; the node then creates DposV2ClaimRewardRealWithdraw
//	proposals:
//	CRCProposalNormal(in, owner, crMember, draft, budgets, recipient, payloadVersion)
//	CRCProposalTx(in, ProposalSpec, payloadVersion)                          // Normal / ELIP / CloseProposal / ChangeProposalOwner / SecretaryGeneral
//	CRCProposalReview(in, crMember, proposalHash, result, opinion, payloadVersion)
//	CRCProposalTracking(in, owner, secretary, TrackingSpec, payloadVersion)
//	CRCProposalWithdraw(in, owner, proposalHash, recipient, amount)         // payload v1
//	ProposalHash(tx) common.Uint256
//
//	DetSign(a, data) []byte                                                  // deterministic crypto.Sign (all payload signatures use it: they are part of the tx hash)
//
// Gotchas: payload signatures are raw 64-byte crypto.Sign outputs over
// payload.SerializeUnsigned(version); program parameters are 0x40||sig.
// Deposit / stake / CID / DID addresses all derive from the STANDARD redeem
// script of the key (prefix differs), so the standard program signs for them.
package node

import (
	"bytes"
	"crypto/ecdsa"
	"crypto/sha256"
	"encoding/hex"
	"math/big"
	"sort"

	"github.com/elastos/Elastos.ELA/account"
	"github.com/elastos/Elastos.ELA/blockchain"
	"github.com/elastos/Elastos.ELA/common"
	"github.com/elastos/Elastos.ELA/common/config"
	"github.com/elastos/Elastos.ELA/core"
	"github.com/elastos/Elastos.ELA/core/contract"
	pg "github.com/elastos/Elastos.ELA/core/contract/program"
	common2 "github.com/elastos/Elastos.ELA/core/types/common"
	"github.com/elastos/Elastos.ELA/core/types/functions"
	"github.com/elastos/Elastos.ELA/core/types/interfaces"
	"github.com/elastos/Elastos.ELA/core/types/outputpayload"
	"github.com/elastos/Elastos.ELA/core/types/payload"
	"github.com/elastos/Elastos.ELA/crypto"
)

// DefaultFee is used when TxSpec.Fee is zero.
const DefaultFee = common.Fixed64(10000)

// ELA converts whole ELA to sela.
func ELA(n int64) common.Fixed64 { return common.Fixed64(n * 100000000) }

// TxSpec describes a transaction for BuildTx.
type TxSpec struct {
	Version        common2.TransactionVersion // 0 = TxVersion09
	Type           common2.TxType
	PayloadVersion byte
	Payload        interfaces.Payload
	Ins            []UTXORef
	Outs           []*common2.Output
	Fee            common.Fixed64  // 0 = DefaultFee
	NoFee          bool            // fee exactly 0 (Fee ignored)
	ChangeTo       *common.Uint168 // default: Ins[0].Owner standard address
	NoChange       bool            // do not add a change output (surplus becomes fee)
	Signers        []*account.Account
	NoSign         bool
	Attrs          []*common2.Attribute
	LockTime       uint32
	Sequence       uint32
}

// StdOut is a plain output.
func StdOut(to common.Uint168, v common.Fixed64) *common2.Output {
	return &common2.Output{AssetID: core.ELAAssetID, Value: v, ProgramHash: to, Type: common2.OTNone, Payload: &outputpayload.DefaultOutput{}}
}

// BuildTx assembles and signs.
func BuildTx(s TxSpec) interfaces.Transaction {
	ver := s.Version
	if ver == 0 {
		ver = common2.TxVersion09
	}
	var inputs []*common2.Input
	var inSum common.Fixed64
	for _, u := range s.Ins {
		inputs = append(inputs, &common2.Input{Previous: common2.OutPoint{TxID: u.TxID, Index: u.Index}, Sequence: s.Sequence})
		inSum += u.Value
	}
	outs := append([]*common2.Output{}, s.Outs...)
	var outSum common.Fixed64
	for _, o := range outs {
		outSum += o.Value
	}
	fee := s.Fee
	if fee == 0 && !s.NoFee {
		fee = DefaultFee
	}
	if s.NoFee {
		fee = 0
	}
	if !s.NoChange && len(s.Ins) > 0 {
		if change := inSum - outSum - fee; change > 0 {
			to := s.ChangeTo
			if to == nil && s.Ins[0].Owner != nil {
				to = &s.Ins[0].Owner.ProgramHash
			}
			if to != nil {
				outs = append(outs, StdOut(*to, change))
			}
		}
	}
	attrs := s.Attrs
	if attrs == nil {
		attrs = []*common2.Attribute{}
	}
	if inputs == nil {
		inputs = []*common2.Input{}
	}
	if outs == nil {
		outs = []*common2.Output{}
	}
	tx := functions.CreateTransaction(ver, s.Type, s.PayloadVersion, s.Payload, attrs, inputs, outs, s.LockTime, []*pg.Program{})
	if !s.NoSign {
		signers := owners(s.Ins)
		seen := map[string]bool{}
		for _, a := range signers {
			seen[a.Address] = true
		}
		for _, a := range s.Signers {
			if !seen[a.Address] {
				seen[a.Address] = true
				signers = append(signers, a)
			}
		}
		SignStd(tx, signers...)
	}
	return tx
}

// OutRef names output index of tx as spendable by owner.
func OutRef(tx interfaces.Transaction, index int, owner *account.Account) UTXORef {
	return UTXORef{TxID: tx.Hash(), Index: uint16(index), Value: tx.Outputs()[index].Value, Owner: owner}
}

// OutputsOf lists every output of tx paying owner's standard address.
func OutputsOf(tx interfaces.Transaction, owner *account.Account) []UTXORef {
	var r []UTXORef
	for i, o := range tx.Outputs() {
		if o.ProgramHash.IsEqual(owner.ProgramHash) {
			r = append(r, OutRef(tx, i, owner))
		}
	}
	return r
}

// ChangeOf is the last output paying owner's standard address.
func ChangeOf(tx interfaces.Transaction, owner *account.Account) (UTXORef, bool) {
	outs := tx.Outputs()
	for i := len(outs) - 1; i >= 0; i-- {
		if outs[i].ProgramHash.IsEqual(owner.ProgramHash) && outs[i].Type == common2.OTNone {
			return OutRef(tx, i, owner), true
		}
	}
	return UTXORef{}, false
}

// ---------- addresses ----------

// DepositAddr is the producer deposit address of an owner key.
func DepositAddr(owner *account.Account) common.Uint168 {
	ct, err := contract.CreateDepositContractByPubKey(owner.PublicKey)
	if err != nil {
		panic(err)
	}
	return *ct.ToProgramHash()
}

// CRCode is the CR "code" (the standard redeem script of the key).
func CRCode(a *account.Account) []byte { return a.RedeemScript }

// CRDepositAddr is the CR deposit address (same derivation as DepositAddr).
func CRDepositAddr(cr *account.Account) common.Uint168 {
	ct, err := contract.CreateDepositContractByCode(CRCode(cr))
	if err != nil {
		panic(err)
	}
	return *ct.ToProgramHash()
}

// CIDOf is the CR candidate id.
func CIDOf(a *account.Account) common.Uint168 {
	ct, err := contract.CreateCRIDContractByCode(CRCode(a))
	if err != nil {
		panic(err)
	}
	return *ct.ToProgramHash()
}

// DIDOf is the CR member DID.
func DIDOf(a *account.Account) common.Uint168 {
	d, err := blockchain.GetDIDFromCode(CRCode(a))
	if err != nil {
		panic(err)
	}
	return *d
}

// StakeAddr is the DPoS v2 stake address (vote-rights holder) of a key.
func StakeAddr(a *account.Account) common.Uint168 {
	ct, err := contract.CreateStakeContractByCode(a.RedeemScript)
	if err != nil {
		panic(err)
	}
	return *ct.ToProgramHash()
}

// DepositRef finds the deposit output of a Register* transaction.
func DepositRef(tx interfaces.Transaction, owner *account.Account) (UTXORef, bool) {
	d := DepositAddr(owner)
	for i, o := range tx.Outputs() {
		if o.ProgramHash.IsEqual(d) {
			return OutRef(tx, i, owner), true
		}
	}
	return UTXORef{}, false
}

// signRaw = DetSign; payload signatures are part of the transaction hash, so
// they must not depend on a random nonce or block hashes would differ per run.
func signRaw(a *account.Account, data []byte) []byte { return DetSign(a, data) }

type zeroReader struct{}

func (zeroReader) Read(p []byte) (int, error) {
	for i := range p {
		p[i] = 0
	}
	return len(p), nil
}

// DetSign is crypto.Sign with a deterministic nonce: same (key, data) -> same
// 64-byte r||s signature in every run (Go derives k from key, digest and the
// entropy source; the entropy source here is constant).
func DetSign(a *account.Account, data []byte) []byte {
	digest := sha256.Sum256(data)
	priv := new(ecdsa.PrivateKey)
	priv.Curve = crypto.DefaultCurve
	priv.D = new(big.Int).SetBytes(a.PrivKey())
	r, s, err := ecdsa.Sign(zeroReader{}, priv, digest[:])
	if err != nil {
		panic(err)
	}
	sig := make([]byte, crypto.SignatureLength)
	rb, sb := r.Bytes(), s.Bytes()
	copy(sig[crypto.SignerLength-len(rb):], rb)
	copy(sig[crypto.SignatureLength-len(sb):], sb)
	return sig
}

// ---------- producers ----------

func producerInfo(owner, nodeKey *account.Account, nick, url string, stakeUntil uint32, ver byte) *payload.ProducerInfo {
	info := &payload.ProducerInfo{OwnerKey: Pub(owner), NodePublicKey: Pub(nodeKey), NickName: nick, Url: url,
		Location: 1, NetAddress: "127.0.0.1:20338", StakeUntil: stakeUntil}
	buf := new(bytes.Buffer)
	info.SerializeUnsigned(buf, ver)
	info.Signature = signRaw(owner, buf.Bytes())
	return info
}

// RegisterProducer registers a DPoS v1 producer (payload version 0).
func RegisterProducer(in UTXORef, owner, nodeKey *account.Account, nick string, deposit common.Fixed64) interfaces.Transaction {
	return BuildTx(TxSpec{Type: common2.RegisterProducer, PayloadVersion: payload.ProducerInfoVersion,
		Payload: producerInfo(owner, nodeKey, nick, "http://"+nick, 0, payload.ProducerInfoVersion),
		Ins:     []UTXORef{in}, Outs: []*common2.Output{StdOut(DepositAddr(owner), deposit)}})
}

// RegisterProducerV2 registers a DPoS v2 producer (payload version 1, StakeUntil).
func RegisterProducerV2(in UTXORef, owner, nodeKey *account.Account, nick string, deposit common.Fixed64, stakeUntil uint32) interfaces.Transaction {
	return BuildTx(TxSpec{Type: common2.RegisterProducer, PayloadVersion: payload.ProducerInfoDposV2Version,
		Payload: producerInfo(owner, nodeKey, nick, "http://"+nick, stakeUntil, payload.ProducerInfoDposV2Version),
		Ins:     []UTXORef{in}, Outs: []*common2.Output{StdOut(DepositAddr(owner), deposit)}})
}

// UpdateProducer updates nick/url/node key; stakeUntil != 0 uses payload v1
// (upgrade a v1 producer to v1v2, or extend a v2 producer's stake).
func UpdateProducer(in UTXORef, owner, nodeKey *account.Account, nick, url string, stakeUntil uint32) interfaces.Transaction {
	ver := payload.ProducerInfoVersion
	if stakeUntil != 0 {
		ver = payload.ProducerInfoDposV2Version
	}
	return BuildTx(TxSpec{Type: common2.UpdateProducer, PayloadVersion: ver,
		Payload: producerInfo(owner, nodeKey, nick, url, stakeUntil, ver), Ins: []UTXORef{in}})
}

// CancelProducer cancels a v1 producer.
func CancelProducer(in UTXORef, owner *account.Account) interfaces.Transaction {
	p := &payload.ProcessProducer{OwnerKey: Pub(owner)}
	buf := new(bytes.Buffer)
	p.SerializeUnsigned(buf, payload.ProcessProducerVersion)
	p.Signature = signRaw(owner, buf.Bytes())
	return BuildTx(TxSpec{Type: common2.CancelProducer, PayloadVersion: payload.ProcessProducerVersion, Payload: p, Ins: []UTXORef{in}})
}

// ActivateProducer is the zero-cost activation request signed by the NODE key.
func ActivateProducer(nodeKey *account.Account) interfaces.Transaction {
	p := &payload.ActivateProducer{NodePublicKey: Pub(nodeKey)}
	buf := new(bytes.Buffer)
	p.SerializeUnsigned(buf, payload.ActivateProducerVersion)
	p.Signature = signRaw(nodeKey, buf.Bytes())
	return BuildTx(TxSpec{Type: common2.ActivateProducer, PayloadVersion: payload.ActivateProducerVersion, Payload: p, NoSign: true, NoFee: true})
}

// ReturnDepositCoin spends deposit UTXOs (refs with Owner = producer owner key)
// and pays sum-fee to the owner's standard address.
func ReturnDepositCoin(depositIns []UTXORef, owner *account.Account, fee common.Fixed64) interfaces.Transaction {
	if fee == 0 {
		fee = DefaultFee
	}
	var sum common.Fixed64
	for i := range depositIns {
		depositIns[i].Owner = owner
		sum += depositIns[i].Value
	}
	return BuildTx(TxSpec{Type: common2.ReturnDepositCoin, Payload: &payload.ReturnDepositCoin{}, Ins: depositIns,
		Outs: []*common2.Output{StdOut(owner.ProgramHash, sum-fee)}, NoChange: true})
}

// ---------- v1 vote outputs ----------

// VoteTx builds a TransferAsset v9 whose output 0 is a vote output of the
// given value paying back to the input owner.
func VoteTx(in UTXORef, value common.Fixed64, version byte, contents ...outputpayload.VoteContent) interfaces.Transaction {
	vo := &common2.Output{AssetID: core.ELAAssetID, Value: value, ProgramHash: in.Owner.ProgramHash, Type: common2.OTVote,
		Payload: &outputpayload.VoteOutput{Version: version, Contents: contents}}
	return BuildTx(TxSpec{Type: common2.TransferAsset, Payload: &payload.TransferAsset{}, Ins: []UTXORef{in}, Outs: []*common2.Output{vo}})
}

// VoteProducers votes `value` for each listed producer (owner public keys), output payload v0.
func VoteProducers(in UTXORef, value common.Fixed64, ownerPubs ...[]byte) interfaces.Transaction {
	var cv []outputpayload.CandidateVotes
	for _, p := range ownerPubs {
		cv = append(cv, outputpayload.CandidateVotes{Candidate: p})
	}
	return VoteTx(in, value, outputpayload.VoteProducerVersion, outputpayload.VoteContent{VoteType: outputpayload.Delegate, CandidateVotes: cv})
}

func sortedCV(m map[string]common.Fixed64) []outputpayload.CandidateVotes {
	keys := make([]string, 0, len(m))
	for k := range m {
		keys = append(keys, k)
	}
	sort.Strings(keys)
	var cv []outputpayload.CandidateVotes
	for _, k := range keys {
		b, _ := hex.DecodeString(k)
		cv = append(cv, outputpayload.CandidateVotes{Candidate: b, Votes: m[k]})
	}
	return cv
}

// VoteProducersV1 uses output payload v1 (votes per candidate; keys are hex owner public keys).
func VoteProducersV1(in UTXORef, value common.Fixed64, votes map[string]common.Fixed64) interfaces.Transaction {
	return VoteTx(in, value, outputpayload.VoteProducerAndCRVersion, outputpayload.VoteContent{VoteType: outputpayload.Delegate, CandidateVotes: sortedCV(votes)})
}

func cidVotes(votes map[common.Uint168]common.Fixed64) []outputpayload.CandidateVotes {
	m := map[string]common.Fixed64{}
	for k, v := range votes {
		m[hex.EncodeToString(k.Bytes())] = v
	}
	return sortedCV(m)
}

// VoteCRs votes for CR candidates (by CID) during a CR voting period.
func VoteCRs(in UTXORef, value common.Fixed64, votes map[common.Uint168]common.Fixed64) interfaces.Transaction {
	return VoteTx(in, value, outputpayload.VoteProducerAndCRVersion, outputpayload.VoteContent{VoteType: outputpayload.CRC, CandidateVotes: cidVotes(votes)})
}

// VoteImpeach casts impeachment votes against CR members (by CID).
func VoteImpeach(in UTXORef, value common.Fixed64, votes map[common.Uint168]common.Fixed64) interfaces.Transaction {
	return VoteTx(in, value, outputpayload.VoteProducerAndCRVersion, outputpayload.VoteContent{VoteType: outputpayload.CRCImpeachment, CandidateVotes: cidVotes(votes)})
}

// VoteAgainstProposals casts `value` reject votes against each CRAgreed proposal.
func VoteAgainstProposals(in UTXORef, value common.Fixed64, hashes ...common.Uint256) interfaces.Transaction {
	var cv []outputpayload.CandidateVotes
	for _, h := range hashes {
		cv = append(cv, outputpayload.CandidateVotes{Candidate: h.Bytes(), Votes: value})
	}
	return VoteTx(in, value, outputpayload.VoteProducerAndCRVersion, outputpayload.VoteContent{VoteType: outputpayload.CRCProposal, CandidateVotes: cv})
}

// ---------- CR ----------

func crInfo(cr *account.Account, nick, url string, ver byte) *payload.CRInfo {
	info := &payload.CRInfo{Code: CRCode(cr), CID: CIDOf(cr), NickName: nick, Url: url, Location: 1}
	if ver >= payload.CRInfoDIDVersion {
		info.DID = DIDOf(cr)
	}
	buf := new(bytes.Buffer)
	info.SerializeUnsigned(buf, ver)
	info.Signature = signRaw(cr, buf.Bytes())
	return info
}

// RegisterCR registers a CR candidate with DID (payload v1; needs RegisterCRByDIDHeight).
func RegisterCR(in UTXORef, cr *account.Account, nick string, deposit common.Fixed64) interfaces.Transaction {
	return BuildTx(TxSpec{Type: common2.RegisterCR, PayloadVersion: payload.CRInfoDIDVersion,
		Payload: crInfo(cr, nick, "http://"+nick, payload.CRInfoDIDVersion), Ins: []UTXORef{in},
		Outs: []*common2.Output{StdOut(CRDepositAddr(cr), deposit)}})
}

// UpdateCR changes nick / url.
func UpdateCR(in UTXORef, cr *account.Account, nick, url string) interfaces.Transaction {
	return BuildTx(TxSpec{Type: common2.UpdateCR, PayloadVersion: payload.CRInfoDIDVersion,
		Payload: crInfo(cr, nick, url, payload.CRInfoDIDVersion), Ins: []UTXORef{in}})
}

// UnregisterCR cancels a candidate.
func UnregisterCR(in UTXORef, cr *account.Account) interfaces.Transaction {
	p := &payload.UnregisterCR{CID: CIDOf(cr)}
	buf := new(bytes.Buffer)
	p.SerializeUnsigned(buf, payload.UnregisterCRVersion)
	p.Signature = signRaw(cr, buf.Bytes())
	return BuildTx(TxSpec{Type: common2.UnregisterCR, PayloadVersion: payload.UnregisterCRVersion, Payload: p, Ins: []UTXORef{in}})
}

// ReturnCRDepositCoin spends CR deposit UTXOs back to the candidate.
func ReturnCRDepositCoin(depositIns []UTXORef, cr *account.Account, fee common.Fixed64) interfaces.Transaction {
	if fee == 0 {
		fee = DefaultFee
	}
	var sum common.Fixed64
	for i := range depositIns {
		depositIns[i].Owner = cr
		sum += depositIns[i].Value
	}
	return BuildTx(TxSpec{Type: common2.ReturnCRDepositCoin, Payload: &payload.ReturnDepositCoin{}, Ins: depositIns,
		Outs: []*common2.Output{StdOut(cr.ProgramHash, sum-fee)}, NoChange: true})
}

// CRCouncilMemberClaimNode lets a CR member claim a DPoS node key.
// payloadVersion: payload.CurrentCRClaimDPoSNodeVersion / NextCRClaimDPoSNodeVersion.
func CRCouncilMemberClaimNode(in UTXORef, cr, nodeKey *account.Account, payloadVersion byte) interfaces.Transaction {
	p := &payload.CRCouncilMemberClaimNode{NodePublicKey: Pub(nodeKey), CRCouncilCommitteeDID: DIDOf(cr)}
	buf := new(bytes.Buffer)
	p.SerializeUnsigned(buf, payload.CurrentCRClaimDPoSNodeVersion)
	p.CRCouncilCommitteeSignature = signRaw(cr, buf.Bytes())
	return BuildTx(TxSpec{Type: common2.CRCouncilMemberClaimNode, PayloadVersion: payloadVersion, Payload: p, Ins: []UTXORef{in}})
}

// ---------- DPoS v2 staking ----------

// ExchangeVotes stakes `amount` from in (vote rights go to StakeAddr(in.Owner)).
func ExchangeVotes(in UTXORef, amount common.Fixed64) interfaces.Transaction {
	so := &common2.Output{AssetID: core.ELAAssetID, Value: amount, ProgramHash: StakePoolHash(), Type: common2.OTStake,
		Payload: &outputpayload.ExchangeVotesOutput{Version: 0, StakeAddress: StakeAddr(in.Owner)}}
	return BuildTx(TxSpec{Type: common2.ExchangeVotes, Payload: &payload.ExchangeVotes{}, Ins: []UTXORef{in}, Outs: []*common2.Output{so}})
}

// StakePoolHash is the configured stake pool address (same on all nets).
func StakePoolHash() common.Uint168 { return *config.StakePoolProgramHash }

// V2Vote is one DPoS v2 vote.
type V2Vote struct {
	OwnerPub []byte
	Votes    common.Fixed64
	LockTime uint32
}

// V2Votes builds a DposV2 votes content.
func V2Votes(vs ...V2Vote) payload.VotesContent {
	c := payload.VotesContent{VoteType: outputpayload.DposV2}
	for _, v := range vs {
		c.VotesInfo = append(c.VotesInfo, payload.VotesWithLockTime{Candidate: v.OwnerPub, Votes: v.Votes, LockTime: v.LockTime})
	}
	return c
}

func votesContent(t outputpayload.VoteType, cv []outputpayload.CandidateVotes) payload.VotesContent {
	c := payload.VotesContent{VoteType: t}
	for _, v := range cv {
		c.VotesInfo = append(c.VotesInfo, payload.VotesWithLockTime{Candidate: v.Candidate, Votes: v.Votes})
	}
	return c
}

// CRVotes / ImpeachVotes / DelegateVotes / ProposalVotes build Voting contents (lock time 0).
func CRVotes(votes map[common.Uint168]common.Fixed64) payload.VotesContent {
	return votesContent(outputpayload.CRC, cidVotes(votes))
}
func ImpeachVotes(votes map[common.Uint168]common.Fixed64) payload.VotesContent {
	return votesContent(outputpayload.CRCImpeachment, cidVotes(votes))
}
func DelegateVotes(votes map[string]common.Fixed64) payload.VotesContent {
	return votesContent(outputpayload.Delegate, sortedCV(votes))
}
func ProposalVotes(votes common.Fixed64, hashes ...common.Uint256) payload.VotesContent {
	var cv []outputpayload.CandidateVotes
	for _, h := range hashes {
		cv = append(cv, outputpayload.CandidateVotes{Candidate: h.Bytes(), Votes: votes})
	}
	return votesContent(outputpayload.CRCProposal, cv)
}

// Voting uses the vote rights of StakeAddr(in.Owner); in only pays the fee.
func Voting(in UTXORef, contents ...payload.VotesContent) interfaces.Transaction {
	return BuildTx(TxSpec{Type: common2.Voting, PayloadVersion: payload.VoteVersion, Payload: &payload.Voting{Contents: contents}, Ins: []UTXORef{in}})
}

// VotingRenew extends the lock time of existing DPoS v2 votes (ReferKey of the detailed vote).
func VotingRenew(in UTXORef, renewals ...payload.RenewalVotesContent) interfaces.Transaction {
	return BuildTx(TxSpec{Type: common2.Voting, PayloadVersion: payload.RenewalVoteVersion, Payload: &payload.Voting{RenewalContents: renewals}, Ins: []UTXORef{in}})
}

// ReturnVotes requests to unstake `amount` to the owner's standard address.
func ReturnVotes(in UTXORef, amount common.Fixed64) interfaces.Transaction {
	p := &payload.ReturnVotes{ToAddr: in.Owner.ProgramHash, Code: in.Owner.RedeemScript, Value: amount}
	buf := new(bytes.Buffer)
	p.SerializeUnsigned(buf, payload.ReturnVotesVersionV0)
	p.Signature = signRaw(in.Owner, buf.Bytes())
	return BuildTx(TxSpec{Type: common2.ReturnVotes, PayloadVersion: payload.ReturnVotesVersionV0, Payload: p, Ins: []UTXORef{in}})
}

// DposV2ClaimReward claims `value` of the DPoS v2 rewards accumulated for
// StakeAddr(in.Owner) (State.DPoSV2RewardInfo, keyed by the stake ADDRESS
// string: StakeAddrString) to the owner's standard address; the node then
// creates the DposV2ClaimRewardRealWithdraw paying from the reward pool.
func DposV2ClaimReward(in UTXORef, value common.Fixed64) interfaces.Transaction {
	p := &payload.DPoSV2ClaimReward{ToAddr: in.Owner.ProgramHash, Code: in.Owner.RedeemScript, Value: value}
	buf := new(bytes.Buffer)
	p.SerializeUnsigned(buf, payload.DposV2ClaimRewardVersionV0)
	p.Signature = signRaw(in.Owner, buf.Bytes())
	return BuildTx(TxSpec{Type: common2.DposV2ClaimReward, PayloadVersion: payload.DposV2ClaimRewardVersionV0, Payload: p, Ins: []UTXORef{in}})
}

// StakeAddrString is the base58 stake address (key of State.DPoSV2RewardInfo).
func StakeAddrString(a *account.Account) string {
	h := StakeAddr(a)
	s, err := h.ToAddress()
	if err != nil {
		panic(err)
	}
	return s
}

// ReturnDepositCoinAmount returns only `amount` of the producer deposit to the
// owner; the rest (minus fee) goes back to the deposit address.
func ReturnDepositCoinAmount(depositIns []UTXORef, owner *account.Account, amount, fee common.Fixed64) interfaces.Transaction {
	if fee == 0 {
		fee = DefaultFee
	}
	for i := range depositIns {
		depositIns[i].Owner = owner
	}
	d := DepositAddr(owner)
	return BuildTx(TxSpec{Type: common2.ReturnDepositCoin, Payload: &payload.ReturnDepositCoin{}, Ins: depositIns,
		Outs: []*common2.Output{StdOut(owner.ProgramHash, amount)}, Fee: fee, ChangeTo: &d})
}

// ReturnCRDepositCoinAmount is ReturnDepositCoinAmount for a CR deposit.
func ReturnCRDepositCoinAmount(depositIns []UTXORef, cr *account.Account, amount, fee common.Fixed64) interfaces.Transaction {
	if fee == 0 {
		fee = DefaultFee
	}
	for i := range depositIns {
		depositIns[i].Owner = cr
	}
	d := CRDepositAddr(cr)
	return BuildTx(TxSpec{Type: common2.ReturnCRDepositCoin, Payload: &payload.ReturnDepositCoin{}, Ins: depositIns,
		Outs: []*common2.Output{StdOut(cr.ProgramHash, amount)}, Fee: fee, ChangeTo: &d})
}

// ---------- proposals ----------

// ProposalHash returns the hash a CRCProposal tx is registered under.
func ProposalHash(tx interfaces.Transaction) common.Uint256 {
	return tx.Payload().(*payload.CRCProposal).Hash(tx.PayloadVersion())
}

// ProposalSpec describes a CRC proposal for CRCProposalTx.
type ProposalSpec struct {
	Type            payload.CRCProposalType // Normal, ELIP, CloseProposal, ChangeProposalOwner, SecretaryGeneral
	Owner, CRMember *account.Account
	Draft           []byte
	Category        string
	Budgets         []payload.Budget // Normal / ELIP
	Recipient       common.Uint168   // Normal / ELIP
	Target          common.Uint256   // CloseProposal / ChangeProposalOwner
	NewOwner        *account.Account // ChangeProposalOwner
	NewRecipient    common.Uint168   // ChangeProposalOwner
	NewSecretary    *account.Account // SecretaryGeneral
}

// CRCProposalTx builds and signs (owner [, new owner | new secretary], CR council member) a proposal.
// payloadVersion: payload.CRCProposalVersion below CRCProposalDraftDataStartHeight, CRCProposalVersion01 (draft data carried) from there on.
func CRCProposalTx(in UTXORef, sp ProposalSpec, payloadVersion byte) interfaces.Transaction {
	cat := sp.Category
	if cat == "" {
		cat = "verif"
	}
	p := &payload.CRCProposal{ProposalType: sp.Type, CategoryData: cat, OwnerKey: Pub(sp.Owner), DraftHash: common.Hash(sp.Draft),
		Budgets: sp.Budgets, Recipient: sp.Recipient, TargetProposalHash: sp.Target, NewRecipient: sp.NewRecipient, CRCouncilMemberDID: DIDOf(sp.CRMember)}
	if payloadVersion >= payload.CRCProposalVersion01 {
		p.DraftData = sp.Draft
	}
	if sp.NewOwner != nil {
		p.NewOwnerKey = Pub(sp.NewOwner)
	}
	if sp.NewSecretary != nil {
		p.SecretaryGeneralPublicKey = Pub(sp.NewSecretary)
		p.SecretaryGeneralDID = DIDOf(sp.NewSecretary)
	}
	buf := new(bytes.Buffer)
	p.SerializeUnsigned(buf, payloadVersion)
	p.Signature = signRaw(sp.Owner, buf.Bytes())
	switch sp.Type {
	case payload.ChangeProposalOwner:
		p.NewOwnerSignature = signRaw(sp.NewOwner, buf.Bytes())
		common.WriteVarBytes(buf, p.Signature)
		common.WriteVarBytes(buf, p.NewOwnerSignature)
	case payload.SecretaryGeneral:
		p.SecretaryGeneraSignature = signRaw(sp.NewSecretary, buf.Bytes())
		common.WriteVarBytes(buf, p.Signature)
		common.WriteVarBytes(buf, p.SecretaryGeneraSignature)
	default:
		common.WriteVarBytes(buf, p.Signature)
	}
	p.CRCouncilMemberDID.Serialize(buf)
	p.CRCouncilMemberSignature = signRaw(sp.CRMember, buf.Bytes())
	return BuildTx(TxSpec{Type: common2.CRCProposal, PayloadVersion: payloadVersion, Payload: p, Ins: []UTXORef{in}})
}

// CRCProposalNormal: normal proposal owned by `owner`, sponsored by elected CR member `crMember`.
func CRCProposalNormal(in UTXORef, owner, crMember *account.Account, draft []byte, budgets []payload.Budget, recipient common.Uint168, payloadVersion byte) interfaces.Transaction {
	return CRCProposalTx(in, ProposalSpec{Type: payload.Normal, Owner: owner, CRMember: crMember, Draft: draft, Budgets: budgets, Recipient: recipient}, payloadVersion)
}

// CRCProposalReview: a CR member's vote on a Registered proposal.
func CRCProposalReview(in UTXORef, crMember *account.Account, proposal common.Uint256, result payload.VoteResult, opinion []byte, payloadVersion byte) interfaces.Transaction {
	p := &payload.CRCProposalReview{ProposalHash: proposal, VoteResult: result, OpinionHash: common.Hash(opinion), DID: DIDOf(crMember)}
	if payloadVersion >= payload.CRCProposalReviewVersion01 {
		p.OpinionData = opinion
	}
	buf := new(bytes.Buffer)
	p.SerializeUnsigned(buf, payloadVersion)
	p.Signature = signRaw(crMember, buf.Bytes())
	return BuildTx(TxSpec{Type: common2.CRCProposalReview, PayloadVersion: payloadVersion, Payload: p, Ins: []UTXORef{in}})
}

// TrackingSpec describes a proposal tracking.
type TrackingSpec struct {
	Proposal common.Uint256
	Type     payload.CRCProposalTrackingType
	Stage    uint8
	Message  []byte
	Opinion  []byte
	NewOwner *account.Account // ChangeOwner only
}

// CRCProposalTracking: signed by the proposal owner (and new owner) and the secretary general.
func CRCProposalTracking(in UTXORef, owner, secretary *account.Account, s TrackingSpec, payloadVersion byte) interfaces.Transaction {
	p := &payload.CRCProposalTracking{ProposalHash: s.Proposal, MessageHash: common.Hash(s.Message), Stage: s.Stage, OwnerKey: Pub(owner),
		ProposalTrackingType: s.Type, SecretaryGeneralOpinionHash: common.Hash(s.Opinion)}
	if payloadVersion >= payload.CRCProposalTrackingVersion01 {
		p.MessageData = s.Message
		p.SecretaryGeneralOpinionData = s.Opinion
	}
	if s.NewOwner != nil {
		p.NewOwnerKey = Pub(s.NewOwner)
	}
	buf := new(bytes.Buffer)
	p.SerializeUnsigned(buf, payloadVersion)
	p.OwnerSignature = signRaw(owner, buf.Bytes())
	common.WriteVarBytes(buf, p.OwnerSignature)
	if s.NewOwner != nil {
		p.NewOwnerSignature = signRaw(s.NewOwner, buf.Bytes())
	}
	common.WriteVarBytes(buf, p.NewOwnerSignature)
	buf.Write([]byte{byte(p.ProposalTrackingType)})
	p.SecretaryGeneralOpinionHash.Serialize(buf)
	if payloadVersion >= payload.CRCProposalTrackingVersion01 {
		common.WriteVarBytes(buf, p.SecretaryGeneralOpinionData)
	}
	p.SecretaryGeneralSignature = signRaw(secretary, buf.Bytes())
	return BuildTx(TxSpec{Type: common2.CRCProposalTracking, PayloadVersion: payloadVersion, Payload: p, Ins: []UTXORef{in}})
}

// CRCProposalWithdraw (payload v1): request the withdrawable amount; the node
// then creates the CRCProposalRealWithdraw transaction itself.
func CRCProposalWithdraw(in UTXORef, owner *account.Account, proposal common.Uint256, recipient common.Uint168, amount common.Fixed64) interfaces.Transaction {
	p := &payload.CRCProposalWithdraw{ProposalHash: proposal, OwnerKey: Pub(owner), Recipient: recipient, Amount: amount}
	buf := new(bytes.Buffer)
	p.SerializeUnsigned(buf, payload.CRCProposalWithdrawVersion01)
	p.Signature = signRaw(owner, buf.Bytes())
	return BuildTx(TxSpec{Type: common2.CRCProposalWithdraw, PayloadVersion: payload.CRCProposalWithdrawVersion01, Payload: p, Ins: []UTXORef{in}})
}

func transferPayload() interfaces.Payload { return &payload.TransferAsset{} }

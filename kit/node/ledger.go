package node

import (
	"fmt"
	"math/big"

	"github.com/elastos/Elastos.ELA/common"
	"github.com/elastos/Elastos.ELA/core/types"
	common2 "github.com/elastos/Elastos.ELA/core/types/common"
	"github.com/elastos/Elastos.ELA/core/types/interfaces"
)

// OutKey identifies an output.
type OutKey struct {
	TxID  common.Uint256
	Index uint16
}

func (k OutKey) String() string { return fmt.Sprintf("%s:%d", k.TxID.String()[:16], k.Index) }

// LedgerOut is a model output.
type LedgerOut struct {
	Value  common.Fixed64
	Owner  common.Uint168
	Height uint32
	Type   common2.OutputType
}

// Issue is a ledger-level anomaly found while replaying the node's own chain.
type Issue struct {
	Kind   string // double-spend | unknown-input | value-created | negative-output | issuance | issuance-total
	Height uint32
	TxID   string
	Detail string
}

// Ledger is the replay model of an active chain: it is rebuilt only from the
// blocks the node itself returns for heights 0..tip.
type Ledger struct {
	Unspent  map[OutKey]LedgerOut
	SpentAt  map[OutKey]uint32
	Txs      map[common.Uint256]uint32 // txid -> height
	Height   uint32
	Hashes   []common.Uint256
	Issues   []Issue
	Minted   *big.Int // sum over blocks of (coinbase total - fees), exact
	Schedule *big.Int // sum over blocks of GetBlockReward(h)
	Genesis  *big.Int
	Blocks   []*types.Block
}

func bigOf(v common.Fixed64) *big.Int { return big.NewInt(int64(v)) }

// Replay fetches every block of the active chain from the node and rebuilds
// the ledger model, reporting anomalies.
func (n *Node) Replay() *Ledger {
	l := &Ledger{Unspent: map[OutKey]LedgerOut{}, SpentAt: map[OutKey]uint32{}, Txs: map[common.Uint256]uint32{},
		Minted: new(big.Int), Schedule: new(big.Int), Genesis: new(big.Int)}
	tip := n.Chain.GetHeight()
	for h := uint32(0); h <= tip; h++ {
		hash, err := n.Chain.GetBlockHash(h)
		if err != nil {
			l.Issues = append(l.Issues, Issue{Kind: "chain-gap", Height: h, Detail: err.Error()})
			break
		}
		b, err := n.Chain.GetBlockByHash(hash)
		if err != nil {
			l.Issues = append(l.Issues, Issue{Kind: "chain-gap", Height: h, Detail: err.Error()})
			break
		}
		if h > 0 && !b.Previous.IsEqual(l.Hashes[h-1]) {
			l.Issues = append(l.Issues, Issue{Kind: "chain-broken", Height: h, Detail: "previous hash does not match block at h-1"})
		}
		l.Hashes = append(l.Hashes, hash)
		l.Blocks = append(l.Blocks, b)
		l.Apply(b, n.Cfg.GetBlockReward(h))
	}
	l.Height = tip
	if l.Minted.Cmp(l.Schedule) > 0 {
		l.Issues = append(l.Issues, Issue{Kind: "issuance-total", Height: tip,
			Detail: fmt.Sprintf("sum(coinbase-fees)=%s exceeds sum(schedule)=%s", l.Minted, l.Schedule)})
	}
	return l
}

// Apply adds one block to the model.
func (l *Ledger) Apply(b *types.Block, reward common.Fixed64) {
	h := b.Height
	fees := new(big.Int)
	var cbTotal *big.Int
	for ti, tx := range b.Transactions {
		txid := tx.Hash()
		in := new(big.Int)
		out := new(big.Int)
		if !(ti == 0 && tx.IsCoinBaseTx()) {
			for _, inp := range tx.Inputs() {
				k := OutKey{inp.Previous.TxID, inp.Previous.Index}
				o, ok := l.Unspent[k]
				if !ok {
					if at, was := l.SpentAt[k]; was {
						l.Issues = append(l.Issues, Issue{Kind: "double-spend", Height: h, TxID: txid.String(),
							Detail: fmt.Sprintf("outpoint %s already spent at height %d", k, at)})
					} else {
						l.Issues = append(l.Issues, Issue{Kind: "unknown-input", Height: h, TxID: txid.String(),
							Detail: fmt.Sprintf("outpoint %s was never created on this chain", k)})
					}
					continue
				}
				in.Add(in, bigOf(o.Value))
				delete(l.Unspent, k)
				l.SpentAt[k] = h
			}
		}
		for i, o := range tx.Outputs() {
			if o.Value < 0 {
				l.Issues = append(l.Issues, Issue{Kind: "negative-output", Height: h, TxID: txid.String(),
					Detail: fmt.Sprintf("output %d value %d", i, int64(o.Value))})
			}
			out.Add(out, bigOf(o.Value))
			l.Unspent[OutKey{txid, uint16(i)}] = LedgerOut{Value: o.Value, Owner: o.ProgramHash, Height: h, Type: o.Type}
		}
		l.Txs[txid] = h
		if ti == 0 && tx.IsCoinBaseTx() {
			cbTotal = out
			continue
		}
		if len(tx.Inputs()) > 0 || out.Sign() != 0 {
			if out.Cmp(in) > 0 {
				l.Issues = append(l.Issues, Issue{Kind: "value-created", Height: h, TxID: txid.String(),
					Detail: fmt.Sprintf("type %s: exact sum(outputs)=%s > exact sum(spent)=%s", tx.TxType().Name(), out, in)})
			}
			fees.Add(fees, new(big.Int).Sub(in, out))
		}
	}
	if h == 0 {
		for _, tx := range b.Transactions {
			for _, o := range tx.Outputs() {
				l.Genesis.Add(l.Genesis, bigOf(o.Value))
			}
		}
		return
	}
	if cbTotal != nil {
		l.Minted.Add(l.Minted, new(big.Int).Sub(cbTotal, fees))
		l.Schedule.Add(l.Schedule, bigOf(reward))
	}
}

// Total is the exact sum of all unspent values.
func (l *Ledger) Total() *big.Int {
	t := new(big.Int)
	for _, o := range l.Unspent {
		t.Add(t, bigOf(o.Value))
	}
	return t
}

// ByOwner groups unspent outputs per program hash.
func (l *Ledger) ByOwner() map[common.Uint168][]OutKey {
	m := map[common.Uint168][]OutKey{}
	for k, o := range l.Unspent {
		m[o.Owner] = append(m[o.Owner], k)
	}
	return m
}

// Spendable lists model UTXOs of an account that are mature at the next height.
func (l *Ledger) Spendable(owner common.Uint168, maturity uint32, cbTx map[common.Uint256]bool) []OutKey {
	var ks []OutKey
	for k, o := range l.Unspent {
		if !o.Owner.IsEqual(owner) || o.Value <= 0 {
			continue
		}
		if cbTx != nil && cbTx[k.TxID] && l.Height+1 < o.Height+maturity {
			continue
		}
		ks = append(ks, k)
	}
	return ks
}

// TxFeeExact computes exact in/out sums of a tx against given references.
func TxFeeExact(tx interfaces.Transaction, refs map[*common2.Input]common2.Output) (in, out *big.Int) {
	in, out = new(big.Int), new(big.Int)
	for _, o := range refs {
		in.Add(in, bigOf(o.Value))
	}
	for _, o := range tx.Outputs() {
		out.Add(out, bigOf(o.Value))
	}
	return
}

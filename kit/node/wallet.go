// wallet.go — funding and UTXO tracking for harness accounts.
//
// # API summary (package node)
//
//	(n) Fund(accountIdx []int, utxosPerAccount int, value) ([][]UTXORef, error)
//	      mines CoinbaseMaturity+1 blocks if the chain is shorter, splits the
//	      foundation's largest spendable output into len(accountIdx)*utxosPerAccount
//	      outputs of `value` (account order, then k), submits the tx through the
//	      mempool, mines it (MineTipDPoS) and returns the refs per account.
//	(n) Wallet() *Wallet          // incremental view of the active chain's UTXO set (model side: rebuilt only from blocks the node returns)
//	(w) Sync()                    // follow the tip; on a reorg the view is rebuilt from genesis
//	(w) Take(acc, min) (UTXORef, bool)   // smallest unreserved, mature, plain (OTNone, no output lock) UTXO of acc with value >= min; reserves it
//	(w) MustTake(acc, min) UTXORef ; (w) TakeAll(acc) []UTXORef ; (w) Release(ref) ; (w) Balance(acc) common.Fixed64
//	(w) UTXOs(programHash) []UTXORef     // everything unspent at an address (deposit / vote outputs included; Owner nil)
//	Outputs of a tx that is only in the mempool are not visible (the view follows mined blocks): mine first, or build the ref with OutRef/ChangeOf.
package node

import (
	"fmt"
	"sort"
	"sync"

	"github.com/elastos/Elastos.ELA/account"
	"github.com/elastos/Elastos.ELA/common"
	"github.com/elastos/Elastos.ELA/core/types"
	common2 "github.com/elastos/Elastos.ELA/core/types/common"
)

type walletOut struct {
	ref      UTXORef
	owner    common.Uint168
	height   uint32
	coinbase bool
	typ      common2.OutputType
	lock     uint32
}

// Wallet tracks the UTXO set of the node's active chain.
type Wallet struct {
	n        *Node
	next     uint32 // next height to apply
	hashes   []common.Uint256
	outs     map[OutKey]*walletOut
	reserved map[OutKey]bool
}

// Wallet returns the node's (single) wallet view, synced to the tip.
func (n *Node) Wallet() *Wallet {
	walletMu.Lock()
	w := wallets[n]
	if w == nil {
		w = &Wallet{n: n, outs: map[OutKey]*walletOut{}, reserved: map[OutKey]bool{}}
		wallets[n] = w
	}
	walletMu.Unlock()
	w.Sync()
	return w
}

var (
	walletMu sync.Mutex
	wallets  = map[*Node]*Wallet{}
)

func (w *Wallet) reset() {
	w.next = 0
	w.hashes = nil
	w.outs = map[OutKey]*walletOut{}
}

func (w *Wallet) apply(b *types.Block) {
	for ti, tx := range b.Transactions {
		txid := tx.Hash()
		cb := ti == 0 && tx.IsCoinBaseTx()
		if !cb {
			for _, in := range tx.Inputs() {
				k := OutKey{in.Previous.TxID, in.Previous.Index}
				delete(w.outs, k)
				delete(w.reserved, k)
			}
		}
		for i, o := range tx.Outputs() {
			k := OutKey{txid, uint16(i)}
			w.outs[k] = &walletOut{ref: UTXORef{TxID: txid, Index: uint16(i), Value: o.Value}, owner: o.ProgramHash,
				height: b.Height, coinbase: cb, typ: o.Type, lock: o.OutputLock}
		}
	}
}

// Sync follows the active chain.
func (w *Wallet) Sync() {
	tip := w.n.Chain.GetHeight()
	// reorg detection: the last applied block must still be on the chain
	if w.next > 0 {
		if w.next-1 > tip {
			w.reset()
		} else if h, err := w.n.Chain.GetBlockHash(w.next - 1); err != nil || !h.IsEqual(w.hashes[w.next-1]) {
			w.reset()
		}
	}
	for w.next <= tip {
		h, err := w.n.Chain.GetBlockHash(w.next)
		if err != nil {
			return
		}
		b, err := w.n.Chain.GetBlockByHash(h)
		if err != nil {
			return
		}
		w.apply(b)
		w.hashes = append(w.hashes, h)
		w.next++
	}
}

func (w *Wallet) spendable(o *walletOut) bool {
	if o.typ != common2.OTNone || o.lock != 0 || o.ref.Value <= 0 {
		return false
	}
	if o.coinbase {
		// checkInvalidUTXO: currentHeight - coinbaseHeight >= maturity, evaluated at the current tip
		if w.n.Chain.GetHeight()-o.height < w.n.Cfg.PowConfiguration.CoinbaseMaturity {
			return false
		}
	}
	return true
}

func (w *Wallet) sortedOf(ph common.Uint168) []*walletOut {
	var l []*walletOut
	for _, o := range w.outs {
		if o.owner.IsEqual(ph) {
			l = append(l, o)
		}
	}
	sort.Slice(l, func(i, j int) bool {
		if l[i].ref.Value != l[j].ref.Value {
			return l[i].ref.Value < l[j].ref.Value
		}
		if c := l[i].ref.TxID.Compare(l[j].ref.TxID); c != 0 {
			return c < 0
		}
		return l[i].ref.Index < l[j].ref.Index
	})
	return l
}

// Take reserves the smallest spendable plain UTXO of acc with value >= min.
func (w *Wallet) Take(acc *account.Account, min common.Fixed64) (UTXORef, bool) {
	w.Sync()
	for _, o := range w.sortedOf(acc.ProgramHash) {
		k := OutKey{o.ref.TxID, o.ref.Index}
		if w.reserved[k] || !w.spendable(o) || o.ref.Value < min {
			continue
		}
		w.reserved[k] = true
		r := o.ref
		r.Owner = acc
		return r, true
	}
	return UTXORef{}, false
}

// MustTake is Take that panics when nothing is available (script errors).
func (w *Wallet) MustTake(acc *account.Account, min common.Fixed64) UTXORef {
	r, ok := w.Take(acc, min)
	if !ok {
		panic(fmt.Sprintf("wallet: no spendable utxo >= %d for %s", int64(min), acc.Address))
	}
	return r
}

// TakeAll reserves every spendable plain UTXO of acc.
func (w *Wallet) TakeAll(acc *account.Account) []UTXORef {
	w.Sync()
	var rs []UTXORef
	for _, o := range w.sortedOf(acc.ProgramHash) {
		k := OutKey{o.ref.TxID, o.ref.Index}
		if w.reserved[k] || !w.spendable(o) {
			continue
		}
		w.reserved[k] = true
		r := o.ref
		r.Owner = acc
		rs = append(rs, r)
	}
	return rs
}

// Release un-reserves a ref (e.g. the tx that spent it was rejected).
func (w *Wallet) Release(r UTXORef) { delete(w.reserved, OutKey{r.TxID, r.Index}) }

// Balance sums spendable + unspendable plain value at acc's standard address.
func (w *Wallet) Balance(acc *account.Account) common.Fixed64 {
	w.Sync()
	var s common.Fixed64
	for _, o := range w.outs {
		if o.owner.IsEqual(acc.ProgramHash) {
			s += o.ref.Value
		}
	}
	return s
}

// UTXOs lists everything unspent at an address (any output type), sorted.
func (w *Wallet) UTXOs(ph common.Uint168) []UTXORef {
	w.Sync()
	var rs []UTXORef
	for _, o := range w.sortedOf(ph) {
		rs = append(rs, o.ref)
	}
	return rs
}

// Fund splits foundation money into utxosPerAccount outputs of `value` for
// each harness account index and mines the funding transaction.
func (n *Node) Fund(accountIdx []int, utxosPerAccount int, value common.Fixed64) ([][]UTXORef, error) {
	need := n.Cfg.PowConfiguration.CoinbaseMaturity + 1
	for n.Height() < need {
		if _, err := n.MineTipDPoS(); err != nil {
			return nil, fmt.Errorf("fund: maturity mining: %v", err)
		}
	}
	w := n.Wallet()
	total := value*common.Fixed64(len(accountIdx)*utxosPerAccount) + DefaultFee
	// the foundation's largest spendable output
	var src UTXORef
	found := false
	l := w.sortedOf(n.Found.ProgramHash)
	for i := len(l) - 1; i >= 0; i-- {
		o := l[i]
		if !w.reserved[OutKey{o.ref.TxID, o.ref.Index}] && w.spendable(o) && o.ref.Value >= total {
			src = o.ref
			src.Owner = n.Found
			found = true
			break
		}
	}
	if !found {
		return nil, fmt.Errorf("fund: foundation has no spendable output >= %d", int64(total))
	}
	var outs []*common2.Output
	for _, a := range accountIdx {
		for k := 0; k < utxosPerAccount; k++ {
			outs = append(outs, StdOut(Key(a).ProgramHash, value))
		}
	}
	tx := BuildTx(TxSpec{Type: common2.TransferAsset, Payload: transferPayload(), Ins: []UTXORef{src}, Outs: outs})
	if err := n.TxPool.AppendToTxPool(tx); err != nil {
		return nil, fmt.Errorf("fund: mempool rejected the funding tx: %v", err)
	}
	if _, err := n.MineTipDPoS(tx); err != nil {
		return nil, fmt.Errorf("fund: mining the funding tx: %v", err)
	}
	res := make([][]UTXORef, len(accountIdx))
	i := 0
	for ai, a := range accountIdx {
		for k := 0; k < utxosPerAccount; k++ {
			res[ai] = append(res[ai], UTXORef{TxID: tx.Hash(), Index: uint16(i), Value: value, Owner: Key(a)})
			i++
		}
	}
	return res, nil
}
